"""Anchored implementation functions per property, for the line-coverage measurement in the evidence.

While a check's correspondence / oracle sweep runs the REAL library in-process, fw.py measures (coverage.py, sysmon
core) which statements of the functions below were executed and writes per-function hit/total counts and the missed
line numbers into evidence/<id>.json (`anchor_coverage`).  This is a measure of generator quality (which branches of
the implementation the model was compared on), never a verdict: nothing fails because of it.

Entry: relative file -> list of fnmatch patterns over qualified names (`Class.method`, `function`).
"""

NML = "neuroml/nml/nml.py"
GSS = "neuroml/nml/generatedssupersuper.py"

ANCHORS = {
    "C01": {
        NML: ["quote_xml", "quote_xml_aux", "quote_attrib", "GeneratedsSuper.gds_format_*", "GeneratedsSuper.gds_parse_*",
              "GeneratedsSuper.gds_build_any", "find_attr_value_", "get_all_text_", "showIndent", "parse", "parseString",
              "Segment.export*", "Segment._export*", "Segment.build", "Segment._build*",
              "Point3DWithDiam.export*", "Point3DWithDiam._export*", "Point3DWithDiam.build", "Point3DWithDiam._build*",
              "NeuroMLDocument._exportChildren", "NeuroMLDocument._buildChildren", "Cell._exportChildren",
              "Cell._buildChildren", "Annotation.*"],
        "neuroml/writers.py": ["NeuroMLWriter.write"],
        "neuroml/loaders.py": ["NeuroMLLoader.*", "read_neuroml2_file", "_read_neuroml2"],
    },
    "C02": {
        GSS: ["GeneratedsSuperSuper.validate", "GeneratedsSuperSuper._GeneratedsSuperSuper__validate_with_ancestors"],
        NML: ["GeneratedsSuper.gds_validate_*", "GeneratedsSuper.gds_check_cardinality_", "*.validate_Nml*",
              "*.validate_ZeroToOne", "*.validate_NonNegativeInteger", "*.validate_PositiveInteger",
              "Morphology.validate_", "Cell.validate_", "NeuroMLDocument.validate_", "Segment.validate_",
              # second pass: the writer's escaping, the scalar formats, the export methods of the types the directed
              # cases use, every remaining simple-type validator
              "quote_attrib", "quote_xml", "quote_xml_aux", "GeneratedsSuper.gds_format_string", "GeneratedsSuper.gds_format_integer",
              "GeneratedsSuper.gds_format_float", "GeneratedsSuper.gds_format_double", "GeneratedsSuper.gds_format_boolean",
              "Point3DWithDiam.export", "Segment.export", "Segment._exportChildren", "Morphology._exportChildren",
              "Property.export", "Property._exportAttributes", "*.validate_MetaId", "*.validate_NeuroLexId",
              "*.validate_ZeroOrOne", "*.validate_DoubleGreaterThanZero", "*.validate_TrueOrFalse", "*.validate_Notes",
              "*.validate_*Types", "*.validate_Metric", "*.validate_allowedSpaces"],
        "neuroml/writers.py": ["NeuroMLWriter.write"],
    },
    "C03": {
        GSS: ["GeneratedsSuperSuper.validate", "GeneratedsSuperSuper._GeneratedsSuperSuper__validate_with_ancestors"],
        NML: ["GeneratedsSuper.gds_validate_*", "GeneratedsSuper.gds_check_cardinality_", "Morphology.validate_",
              "Cell.validate_", "NeuroMLDocument.validate_", "Segment.validate_", "Network.validate_",
              "Population.validate_",
              # second pass: every simple-type validator (214 methods)
              "*.validate_Nml*", "*.validate_ZeroToOne", "*.validate_NonNegativeInteger", "*.validate_PositiveInteger",
              "*.validate_MetaId", "*.validate_NeuroLexId", "*.validate_ZeroOrOne", "*.validate_DoubleGreaterThanZero",
              "*.validate_TrueOrFalse", "*.validate_Notes", "*.validate_*Types", "*.validate_Metric", "*.validate_allowedSpaces"],
        "neuroml/utils.py": ["validate_neuroml2", "is_valid_neuroml2"],
    },
    "C04": {
        NML: ["find_attr_value_", "parsexml_", "parse", "SegmentParent.__init__", "SegmentParent._exportAttributes",
              "SegmentParent._buildAttributes", "Annotation.*", "GeneratedsSuper.gds_build_any"],
        "neuroml/writers.py": ["NeuroMLWriter.write"],
        "neuroml/loaders.py": ["NeuroMLLoader.*", "read_neuroml2_file", "_read_neuroml2"],
    },
    "C05": {
        "neuroml/writers.py": ["NeuroMLHdf5Writer.*"],
        NML: ["Network.exportHdf5", "Population.exportHdf5", "Projection.exportHdf5", "ElectricalProjection.exportHdf5",
              "ContinuousProjection.exportHdf5", "InputList.exportHdf5", "*.get_*_cell_id", "*._get_cell_id"],
        "neuroml/hdf5/NeuroMLHdf5Parser.py": ["NeuroMLHdf5Parser.*"],
        "neuroml/hdf5/NetworkBuilder.py": ["NetworkBuilder.*"],
        "neuroml/hdf5/NetworkContainer.py": ["OptimizedList.*", "InstanceList.__getitem__", "ConnectionList.__getitem__",
                                             "InputsList.__getitem__", "*Container.__init__"],
        "neuroml/hdf5/__init__.py": ["get_str_attribute_group"],
        "neuroml/loaders.py": ["NeuroMLHdf5Loader.*", "read_neuroml2_file", "_read_neuroml2"],
        "neuroml/utils.py": ["add_all_to_document", "append_to_element", "has_segment_fraction_info"],
    },
    "C06": {
        "neuroml/loaders.py": ["_read_neuroml2", "read_neuroml2_file", "read_neuroml2_string", "NeuroMLLoader.*",
                               "NeuroMLHdf5Loader.*"],
        "neuroml/utils.py": ["add_all_to_document"],
        "neuroml/hdf5/NeuroMLHdf5Parser.py": ["NeuroMLHdf5Parser.parse", "NeuroMLHdf5Parser.get_nml_doc"],
    },
    "C07": {
        "neuroml/loaders.py": ["*"],
        "neuroml/hdf5/NetworkBuilder.py": ["NetworkBuilder.*"],
        "neuroml/hdf5/NeuroMLHdf5Parser.py": ["NeuroMLHdf5Parser.*"],
        "neuroml/hdf5/NeuroMLXMLParser.py": ["NeuroMLXMLParser.*"],
        "neuroml/hdf5/NetworkContainer.py": ["*"],
        "neuroml/utils.py": ["add_all_to_document"],
        "neuroml/hdf5/__init__.py": ["get_str_attribute_group"],
        "neuroml/__init__.py": ["*"],
        "neuroml/nml/generatedssupersuper.py": ["GeneratedsSuperSuper.add", "GeneratedsSuperSuper._get_members",
                                                "GeneratedsSuperSuper.get_nml2_class_hierarchy"],
    },
    "C08": {
        "neuroml/writers.py": ["NeuroMLWriter.*", "NeuroMLHdf5Writer.*", "ArrayMorphWriter.*"],
        "neuroml/loaders.py": ["NeuroMLLoader.*", "NeuroMLHdf5Loader.*", "ArrayMorphLoader.*",
                               # second pass: the module-level readers are entry points of the fault model too
                               "read_neuroml2_file", "read_neuroml2_string", "_read_neuroml2"],
        "neuroml/hdf5/NeuroMLHdf5Parser.py": ["NeuroMLHdf5Parser.parse", "NeuroMLHdf5Parser.parse_group",
                                              "NeuroMLHdf5Parser.parse_dataset", "NeuroMLHdf5Parser._is_dataset",
                                              "NeuroMLHdf5Parser._get_node_size",
                                              # second pass: expanded in the skeletons (every read is a fault point)
                                              "NeuroMLHdf5Parser.start_group", "NeuroMLHdf5Parser.end_group",
                                              "NeuroMLHdf5Parser._extract_named_indices"],
        "neuroml/hdf5/__init__.py": ["get_str_attribute_group"],
        "neuroml/hdf5/NetworkContainer.py": ["PopulationContainer.exportHdf5", "ProjectionContainer.exportHdf5",
                                             "InputListContainer.exportHdf5", "OptimizedList._add_index_information"],
        NML: ["Network.exportHdf5", "Population.exportHdf5", "Projection.exportHdf5", "ElectricalProjection.exportHdf5",
              "ContinuousProjection.exportHdf5", "InputList.exportHdf5"],
    },
    "C09": {
        GSS: ["GeneratedsSuperSuper.add", "GeneratedsSuperSuper.component_factory", "GeneratedsSuperSuper._check_arg_list",
              "GeneratedsSuperSuper.validate"],
        "neuroml/__init__.py": ["enable_build_time_validation", "disable_build_time_validation", "get_build_time_validation"],
        "neuroml/utils.py": ["component_factory"],
        # second pass: the helper methods that call the factory / add() (every call site of the regenerated table);
        # `print_` of neuroml/__init__.py is not C09's and was dropped from the list
        NML: ["Cell.setup_nml_cell", "Cell.add_membrane_property", "Cell.add_intracellular_property",
              "Cell.add_segment_group", "Cell.add_channel_density", "Cell.add_channel_density_v", "NeuroMLDocument.append"],
    },
    "C10": {
        GSS: ["GeneratedsSuperSuper.add", "GeneratedsSuperSuper._GeneratedsSuperSuper__add",
              "GeneratedsSuperSuper.__add", "GeneratedsSuperSuper.__same_contents",
              "GeneratedsSuperSuper._get_members"],
        NML: ["GeneratedsSuper.__eq__", "GeneratedsSuper.__ne__"],
    },
    "C11": {
        GSS: ["GeneratedsSuperSuper.info", "GeneratedsSuperSuper.parentinfo", "GeneratedsSuperSuper._check_arg_list",
              "GeneratedsSuperSuper.get_class_hierarchy", "GeneratedsSuperSuper._get_members",
              "GeneratedsSuperSuper.get_nml2_class_hierarchy", "GeneratedsSuperSuper._sort_members*"],
        NML: ["NeuroMLDocument.get_by_id", "Network.get_by_id", "MemberSpec_.*"],
    },
    "C12": {
        NML: ["Segment.length", "Segment.volume", "Segment.surface_area", "Cell.get_segment_length",
              "Cell.get_segment_surface_area", "Cell.get_segment_volume", "Cell.get_actual_proximal", "Cell.get_segment",
              "Point3DWithDiam.distance_to"],
    },
    "C13": {
        NML: ["Cell.get_actual_proximal", "Cell.get_ordered_segments_in_groups", "Cell.get_segment_adjacency_list",
              "Cell.get_graph", "Cell.get_distance", "Cell.get_all_distances_from_segment", "Cell.get_segments_at_distance",
              "Cell.get_branching_points", "Cell.get_extremeties", "Cell.get_morphology_root",
              "Cell.get_segment_location_info", "Cell.get_segment_children", "Cell.get_segment_ids_vs_segments",
              # second pass: the two helpers every edge weight / path length goes through
              "Cell.get_segment_length", "Cell.get_segment"],
    },
    "C14": {
        NML: ["Cell.get_all_segments_in_group", "Cell.optimise_segment_group", "Cell.optimise_segment_groups",
              "Cell.get_segment_group"],
    },
    "C15": {
        NML: ["Cell.add_segment", "Cell.add_segment_group", "Cell.add_unbranched_segment_group",
              "Cell.setup_default_segment_groups", "Cell.reorder_segment_groups", "Cell.setup_nml_cell",
              "Cell.add_unbranched_segments", "Cell.add_membrane_property", "Cell.add_intracellular_property",
              "Cell.set_spike_thresh", "Cell.set_init_memb_potential", "Cell.set_resistivity",
              "Cell.set_specific_capacitance", "Cell.optimise_segment_group", "Cell.optimise_segment_groups",
              "Cell.get_segment_group", "Cell.setup_nml_cell",
              # second pass: the channel-density helpers and the id lookup add_segment's duplicate check goes through
              "Cell.add_channel_density", "Cell.add_channel_density_v", "Cell.get_segment"],
    },
    "C16": {
        # the private sectioniser is `Cell.__sectionise` in the source (name mangling only changes the attribute name,
        # not the `def`), the earlier entry `Cell._Cell__sectionise` matched nothing
        NML: ["Cell.create_unbranched_segment_group_branches", "Cell.__sectionise", "Cell.add_unbranched_segment_group",
              "Cell.add_segment_group", "Cell.get_segment_group", "Cell.get_segment_adjacency_list", "Cell.get_segment",
              "Cell.get_actual_proximal", "Cell.reorder_segment_groups", "Cell.optimise_segment_groups"],
    },
    "C17": {
        "neuroml/utils.py": ["fix_external_morphs_biophys_in_cell", "_deepcopy_into"],
        "neuroml/hdf5/NeuroMLXMLParser.py": ["NeuroMLXMLParser.parse"],
    },
    "C18": {
        "neuroml/arraymorph.py": ["ArrayMorphology.*", "SegmentList.*"],
        "neuroml/writers.py": ["ArrayMorphWriter.*"],
        "neuroml/loaders.py": ["ArrayMorphLoader.*"],
    },
    "C19": {
        NML: ["*._get_cell_id", "*.get_pre_cell_id", "*.get_post_cell_id", "*.get_pre_segment_id", "*.get_post_segment_id",
              "*.get_pre_fraction_along", "*.get_post_fraction_along", "*.get_weight", "*.get_delay_in_ms",
              "*.get_target_cell_id", "*.get_target_population", "*.get_segment_id", "*.get_fraction_along",
              "*.get_pre_info", "*.get_post_info", "NeuroMLDocument.summary", "Population.get_size"],
        "neuroml/hdf5/NeuroMLXMLParser.py": ["NeuroMLXMLParser._parse_delay"],
        "neuroml/utils.py": ["print_summary", "get_summary", "has_segment_fraction_info"],
    },
    # C20 (second pass): besides comparing source files, the tie now EXECUTES the shipped bindings against the freshly
    # regenerated ones (differential stream `behaviour-null`): every helper method of nml.py, MethodSpec in the helper source
    # (loaded by path), and the writer's schemaLocation. (The generated methods are sampled too but not listed here.)
    "C20": {
        NML: ["*." + n for n in (
            "__sectionise _format _get_cell_id _get_population add_channel_density add_channel_density_v "
            "add_intracellular_property add_membrane_property add_segment add_segment_group add_unbranched_segment_group "
            "add_unbranched_segments append biophysinfo create_unbranched_segment_group_branches distance_to exportHdf5 "
            "get_actual_proximal get_all_distances_from_segment get_all_segments_in_group get_branching_points get_by_id "
            "get_delay_in_ms get_distance get_extremeties get_fraction_along get_graph get_morphology_root "
            "get_ordered_segments_in_groups get_post_cell_id get_post_fraction_along get_post_info get_post_segment_id "
            "get_pre_cell_id get_pre_fraction_along get_pre_info get_pre_segment_id get_segment get_segment_adjacency_list "
            "get_segment_group get_segment_group_info get_segment_groups_by_substring get_segment_id "
            "get_segment_ids_vs_segments get_segment_length get_segment_location_info get_segment_surface_area "
            "get_segment_volume get_segments_at_distance get_segments_by_substring get_size get_target_cell_id "
            "get_target_population get_weight length morphinfo num_segments optimise_segment_group optimise_segment_groups "
            "reorder_segment_groups set_init_memb_potential set_resistivity set_specific_capacitance set_spike_thresh "
            "setup_default_segment_groups setup_nml_cell summary surface_area volume").split()],
        "neuroml/nml/helper_methods.py": ["MethodSpec.*"],
        "neuroml/writers.py": ["NeuroMLWriter.write"],
    },
}
