"""Shared machinery for the binding-table properties (C01-C04, C11): Python-side view of the extracted IR, random
object generation through the real constructors, member-wise dumps, XML <-> canonical tree, Lean-driver encoding.

Object description ("desc"): {"cls": name, "attrs": {member: lexical | None}, "text": str | None,
"kids": {member: [desc, ...]}}; a text child is {"cls": "#text", "attrs": {}, "text": s, "kids": {}}.
Scalars are given in canonical lexical form, i.e. what the real gds_format_* writes for the value.
"""
import io
import json
import math
import os
import sys

import fw

sys.path.insert(0, os.path.join(fw.VERIF, "translators"))
import emit_bindings  # noqa
import emit_xsd  # noqa
import nml_extract  # noqa

SPECIAL = ["<", ">", "&", '"', "'", "\n", "]]>", "<![CDATA[", " ", "  ", "&amp;", "&#10;", "é", "µ", "\\", "%s", "{", "/>", "</a>"]
PLAIN = list("abcXYZ019_-.:")


class IR:
    def __init__(self, repo=None):
        self.table, self.N, self.gaps = emit_bindings.regenerate(repo or fw.REPO, fw.LEAN)
        try:
            self.X, xg = emit_xsd.regenerate(repo or fw.REPO, fw.LEAN, self.table, self.N)
            self.gaps = list(self.gaps) + xg
        except Exception as e:   # the schema could not be read at all
            self.X = None
            self.gaps = list(self.gaps) + ["xsd translator crashed: %r" % (e,)]
        self.C = {c["name"]: c for c in self.table["classes"]}
        self.names = self.N.names
        self.ix = self.N.ix
        self._flat = {}

    def chain(self, cls):
        out = []
        while cls:
            out.append(self.C[cls])
            cls = self.C[cls]["base"]
        return out

    def flat(self, cls):
        """(attrs, kids) base-first, mirroring Lean `flatten`"""
        if cls in self._flat:
            return self._flat[cls]
        ks = list(reversed(self.chain(cls)))
        attrs, kids = [], []
        for k in ks:
            ctor = {}
            for a in k["expAttrs"]:
                if a["fmt"] == "xsitype":
                    continue
                attrs.append({"member": a["member"], "xml": a["xml"], "prim": a["fmt"], "guard": a["guard"],
                              "range": next((b["range"] for b in k["bldAttrs"] if b["xml"] == a["xml"]), None),
                              "validator": next((b["validator"] for b in k["bldAttrs"] if b["xml"] == a["xml"]), None),
                              "cls": k["name"]})
            for c in k["expChildren"]:
                if c["kind"] == "any":
                    continue
                b = next((b for b in k["bldChildren"] if b["tag"] == c["tag"]), None)
                kids.append({"member": c["member"], "tag": c["tag"], "text": c["kind"] == "text",
                             "container": c["container"], "cls": b["cls"] if b else None, "poly": bool(b and b["poly"]),
                             "owner": k["name"]})
        self._flat[cls] = (attrs, kids)
        return attrs, kids

    def has_any(self, cls):
        return any(c["kind"] == "any" for k in self.chain(cls) for c in k["expChildren"])


def rand_string(rng, attr=True, special=True):
    n = rng.choice([0, 1, 1, 2, 3, 5, 9])
    out = []
    for _ in range(n):
        if special and rng.random() < 0.45:
            out.append(rng.choice(SPECIAL))
        else:
            out.append(rng.choice(PLAIN))
    return "".join(out)


def rand_float(rng):
    r = rng.random()
    if r < 0.15:
        return float(rng.choice([0, 1, -1, 0.5, 2, 10, 0.25, 1e-3]))
    if r < 0.3:
        return rng.randint(-1000, 1000) / 8.0
    m = rng.uniform(-10, 10)
    e = rng.choice([-12, -9, -7, -3, 0, 0, 1, 3, 8, 15, 22, 40])
    v = m * 10.0 ** e
    # schema-float members carry 15 decimals: the model identifies a float with its 15-decimal lexical form, so
    # non-zero values below that resolution (which print as 0.0) are not generated
    return 0.0 if abs(v) < 1e-14 else v


def rand_int(rng, rangek):
    v = rng.choice([0, 1, 2, 3, 7, 10, 255, 10 ** 6, 2 ** 40, 10 ** 19])
    if rangek == "pos":
        return max(1, v)
    if rangek == "nonneg":
        return v
    return v if rng.random() < 0.7 else -v


def lexical(mod, prim, v):
    """what the real support code writes for v"""
    g = mod.GeneratedsSuper()
    if prim == "int":
        return g.gds_format_integer(v)
    if prim == "float":
        return g.gds_format_float(v)
    if prim == "double":
        return g.gds_format_double(v)
    if prim == "bool":
        return g.gds_format_boolean(v)
    return v


class Gen:
    """random objects built through the real constructors, with their descriptions"""

    def __init__(self, ir, rng, special=True, max_depth=3, max_list=2, p_attr=0.7, p_kid=0.5):
        import neuroml.nml.nml as mod
        self.mod, self.ir, self.rng = mod, ir, rng
        self.special, self.max_depth, self.max_list, self.p_attr, self.p_kid = special, max_depth, max_list, p_attr, p_kid

    def value(self, a):
        rng = self.rng
        if a["prim"] == "str":
            return rand_string(rng, True, self.special)
        if a["prim"] == "int":
            return rand_int(rng, a["range"])
        if a["prim"] in ("float", "double"):
            return rand_float(rng)
        if a["prim"] == "bool":
            return rng.random() < 0.5
        return rand_string(rng)

    def obj(self, cls, depth=0, force=None):
        """-> (real object, desc). `force`: member name that must be set."""
        rng = self.rng
        attrs, kids = self.ir.flat(cls)
        kw, d_attrs, d_kids = {}, {}, {}
        for a in attrs:
            if a["guard"][0] == "ne":
                # constructor default applies when not given; the member can never be None
                if rng.random() < self.p_attr or force == a["member"]:
                    v = self.value(a)
                    kw[a["member"]] = v
                # else: leave the default
            else:
                if rng.random() < self.p_attr or force == a["member"]:
                    kw[a["member"]] = self.value(a)
        for k in kids:
            want = (rng.random() < self.p_kid and depth < self.max_depth) or force == k["member"]
            if k["text"]:
                if want:
                    s = rand_string(rng, False, self.special)
                    kw[k["member"]] = s
                continue
            if not want or k["cls"] is None:
                continue
            n = rng.randint(1, self.max_list) if k["container"] else 1
            objs = [self.obj(k["cls"], depth + 1)[0] for _ in range(n)]
            kw[k["member"]] = objs if k["container"] else objs[0]
        o = getattr(self.mod, cls)(**kw)
        return o, dump(self.ir, self.mod, o, cls)


def dump(ir, mod, o, cls=None):
    """member-wise description of a real object through the extracted flat class"""
    cls = cls or type(o).__name__
    attrs, kids = ir.flat(cls)
    d = {"cls": cls, "attrs": {}, "text": None, "kids": {}}
    for a in attrs:
        v = getattr(o, a["member"])
        d["attrs"][a["member"]] = None if v is None else lexical(mod, a["prim"], v)
    for k in kids:
        v = getattr(o, k["member"])
        if k["text"]:
            d["kids"][k["member"]] = [] if v is None else [{"cls": "#text", "attrs": {}, "text": v, "kids": {}}]
        elif k["container"]:
            d["kids"][k["member"]] = [dump(ir, mod, x, type(x).__name__) for x in v]
        else:
            d["kids"][k["member"]] = [] if v is None else [dump(ir, mod, v, type(v).__name__)]
    return d


def export_text(o, tag):
    f = io.StringIO()
    o.export(f, 0, name_=tag, namespacedef_='xmlns="http://www.neuroml.org/schema/neuroml2"')
    return f.getvalue()


def localname(t):
    return t.split("}")[-1] if isinstance(t, str) else str(t)


def xml_to_tree(ir, el, cls):
    """lxml element -> canonical tree {"tag","attrs":[[name,val]...],"text","children":[...]} guided by the class"""
    from lxml import etree
    if cls == "#text":
        return {"tag": localname(el.tag), "attrs": [], "text": el.text if el.text is not None else "", "children": []}
    attrs, kids = ir.flat(cls)
    bytag = {k["tag"]: k for k in kids}
    out = {"tag": localname(el.tag), "attrs": [], "text": None, "children": []}
    for k, v in el.attrib.items():
        out["attrs"].append([localname(k) if not k.startswith("{http://www.w3.org/2001/XMLSchema-instance}") else "xsi:" + localname(k), v])
    for ch in el:
        if not isinstance(ch.tag, str):
            continue   # comments / PIs
        t = localname(ch.tag)
        k = bytag.get(t)
        if k is None:
            out["children"].append({"tag": t, "attrs": [], "text": None, "children": [], "unknown": True})
        else:
            out["children"].append(xml_to_tree(ir, ch, "#text" if k["text"] else k["cls"]))
    return out


# ------------------------------------------------------------ Lean driver encoding
def enc_obj(ir, d):
    if d["cls"] == "#text":
        return {"c": 0, "a": [], "t": d["text"], "k": []}
    attrs, kids = ir.flat(d["cls"])
    return {"c": ir.ix[d["cls"]],
            "a": [[ir.ix[a["member"]], d["attrs"].get(a["member"])] for a in attrs],
            "t": None,
            "k": [[ir.ix[k["member"]], [enc_obj(ir, x) for x in d["kids"].get(k["member"], [])]] for k in kids]}


def dec_obj(ir, j):
    if j["c"] == 0:
        return {"cls": "#text", "attrs": {}, "text": j["t"] if j["t"] is not None else "", "kids": {}}
    return {"cls": ir.names[j["c"]], "attrs": {ir.names[m]: v for m, v in j["a"]}, "text": None,
            "kids": {ir.names[m]: [dec_obj(ir, x) for x in xs] for m, xs in j["k"]}}


def enc_tree(ir, t):
    # unknown tags are interned on the fly at an index outside the table (never matches)
    def ix(s):
        return ir.ix.get(s, 10 ** 6 + (hash(s) % 1000))
    return {"g": ix(t["tag"]), "a": [[ix(k), v] for k, v in t["attrs"]], "t": t["text"],
            "c": [enc_tree(ir, c) for c in t["children"]]}


def dec_tree(ir, j):
    def nm(i):
        return ir.names[i] if i < len(ir.names) else "?%d" % i
    return {"tag": nm(j["g"]), "attrs": [[nm(k), v] for k, v in j["a"]], "text": j["t"],
            "children": [dec_tree(ir, c) for c in j["c"]]}


def norm_text(t):
    """text of a text-kid: absent and empty coincide in XML"""
    if t.get("text") is None and not t["children"] and t.get("_textkid"):
        t["text"] = ""
    return t


# ------------------------------------------------------------ translator-independent oracle dump (MemberSpec metadata)
_FLOAT_TYPES = None


def schema_float_types():
    """simple types of the bundled XSD whose primitive base is xs:float (15-decimal members); everything else that
    holds a Python float is an xs:double member and must round-trip exactly"""
    global _FLOAT_TYPES
    if _FLOAT_TYPES is None:
        import glob
        import re
        from lxml import etree
        ver = None
        try:
            ns = {}
            exec(open(os.path.join(fw.REPO, "neuroml", "__version__.py")).read(), ns)
            ver = ns.get("current_neuroml_version")
        except Exception:
            pass
        cand = os.path.join(fw.REPO, "neuroml", "nml", "NeuroML_%s.xsd" % ver)
        if not os.path.exists(cand):
            cand = sorted(glob.glob(os.path.join(fw.REPO, "neuroml", "nml", "NeuroML_v2*.xsd")))[-1]
        t = etree.parse(cand)
        XS = "{http://www.w3.org/2001/XMLSchema}"
        base = {}
        for st in t.getroot().iter(XS + "simpleType"):
            r = st.find(XS + "restriction")
            if st.get("name") and r is not None:
                base[st.get("name")] = r.get("base")
        out = {"xs:float"}
        for n in base:
            b, k = n, 0
            while b in base and k < 10:
                b, k = base[b], k + 1
            if b == "xs:float":
                out.add(n)
        _FLOAT_TYPES = out
    return _FLOAT_TYPES


def meta_dump(o):
    """member-wise dump driven by the classes' own MemberSpec_ metadata (own and inherited members)"""
    if not hasattr(type(o), "member_data_items_"):
        return ["v", type(o).__name__, repr(o)]
    out = {"cls": type(o).__name__, "m": []}
    seen = set()
    for k in reversed(type(o).__mro__):
        items = k.__dict__.get("member_data_items_")
        if not items:
            continue
        if isinstance(items, dict):
            items = list(items.values())
        for sp in items:
            name = sp.get_name()
            if name in seen or name == "__ANY__":
                continue
            seen.add(name)
            v = getattr(o, name, None)
            dt = sp.get_data_type()
            if isinstance(v, list):
                out["m"].append([name, dt, [meta_dump(x) for x in v]])
            else:
                out["m"].append([name, dt, None if v is None else meta_dump(v)])
    return out


def meta_diff(a, b, path=""):
    """first difference, honouring the 15-decimal rule for schema-float members; None when equal"""
    if isinstance(a, list) and a and a[0] == "v":
        return None if a == b else (path, a, b)
    if not isinstance(b, dict) or a["cls"] != b["cls"]:
        return (path, "class " + str(a.get("cls")), "class " + str(b.get("cls") if isinstance(b, dict) else b))
    fl = schema_float_types()
    bm = {m[0]: m for m in b["m"]}
    for name, dt, v in a["m"]:
        w = bm.get(name, [name, dt, None])[2]
        p = "%s.%s" % (path, name)
        if isinstance(v, list) and not (v and v[0] == "v"):
            if not isinstance(w, list) or len(v) != len(w):
                return (p, "%d children" % len(v), "%s children" % (len(w) if isinstance(w, list) else w))
            for i, (x, y) in enumerate(zip(v, w)):
                d = meta_diff(x, y, "%s[%d]" % (p, i))
                if d:
                    return d
        elif isinstance(v, dict):
            if not isinstance(w, dict):
                return (p, "object", w)
            d = meta_diff(v, w, p)
            if d:
                return d
        else:
            if v == w:
                continue
            if (v is not None and w is not None and v[1] == "float" and w[1] == "float" and dt in fl
                    and "%.15f" % float(v[2]) == "%.15f" % float(w[2])):
                continue
            return (p, v, w)
    return None


def cdata_unwrap(s):
    """what an XML parser reads back from text in which CDATA sections were left unescaped"""
    import re
    return re.sub(r"<!\[CDATA\[(.*?)\]\]>", lambda m: m.group(1), s, flags=re.S)


# ------------------------------------------------------------ schema-conforming objects (C02/C03)
def regex_sample(rng, pattern, tries=40):
    """a random string matching an XSD pattern (the dialect used by the NeuroML schema), via sre_parse"""
    import re
    try:
        import re._parser as sre_parse
    except ImportError:     # pragma: no cover
        import sre_parse

    def gen(items):
        out = []
        for op, arg in items:
            op = str(op)
            if op == "LITERAL":
                out.append(chr(arg))
            elif op == "NOT_LITERAL":
                out.append("x" if chr(arg) != "x" else "y")
            elif op == "IN":
                choices = []
                neg = False
                for o2, a2 in arg:
                    o2 = str(o2)
                    if o2 == "LITERAL":
                        choices.append(chr(a2))
                    elif o2 == "RANGE":
                        choices += [chr(c) for c in range(a2[0], min(a2[1], a2[0] + 40) + 1)]
                    elif o2 == "CATEGORY":
                        c = str(a2)
                        choices += {"CATEGORY_SPACE": [" "], "CATEGORY_DIGIT": list("0123456789"),
                                    "CATEGORY_WORD": list("abcXYZ019_")}.get(c, ["a"])
                    elif o2 == "NEGATE":
                        neg = True
                out.append(rng.choice(choices) if choices and not neg else "a")
            elif op == "ANY":
                out.append(rng.choice("abc1_"))
            elif op in ("MAX_REPEAT", "MIN_REPEAT"):
                lo, hi, sub = arg
                hi = min(hi, lo + 3) if hi < 100000 else lo + 3
                for _ in range(rng.randint(lo, hi)):
                    out.append(gen(sub))
            elif op == "SUBPATTERN":
                out.append(gen(arg[-1]))
            elif op == "BRANCH":
                out.append(gen(rng.choice(arg[1])))
            elif op == "CATEGORY":
                c = str(arg)
                out.append({"CATEGORY_SPACE": " ", "CATEGORY_DIGIT": rng.choice("0123456789")}.get(c, "a"))
            elif op == "AT":
                pass
            else:
                out.append("")
        return "".join(out)
    parsed = sre_parse.parse(pattern)
    for _ in range(tries):
        s = gen(parsed)
        if re.fullmatch(pattern, s):
            return s
    return None


class ValidGen:
    """objects whose every member value is drawn from the value spaces the bundled XSD defines"""

    def __init__(self, ir, rng, max_depth=3):
        import neuroml.nml.nml as mod
        self.mod, self.ir, self.rng, self.max_depth = mod, ir, rng, max_depth
        self.XT = {t["name"]: t for t in ir.X["ctypes"]}
        self.ST = {s["name"]: s for s in ir.X["stypes"]}

    def xchain(self, t):
        out = []
        while t:
            out.append(self.XT[t])
            t = self.XT[t]["base"]
        return list(reversed(out))

    def simple_value(self, tname):
        """-> python value for a simple type (schema simple type or xs:* builtin)"""
        rng = self.rng
        st = self.ST.get(tname)
        base = tname
        k = 0
        while base in self.ST and k < 10:
            base, k = self.ST[base]["base"], k + 1
        if st is not None:
            if st["enums"]:
                v = rng.choice(st["enums"])
                return float(v) if base in ("xs:double", "xs:float") else v
            if st["patterns"]:
                s = regex_sample(rng, rng.choice(st["patterns"]))
                if s is not None:
                    return s
            if base in ("xs:double", "xs:float"):
                lo = float(st["bounds"].get("minInclusive", st["bounds"].get("minExclusive", -5)))
                hi = float(st["bounds"].get("maxInclusive", st["bounds"].get("maxExclusive", lo + 10)))
                v = rng.choice([lo + (hi - lo) * f for f in (0.25, 0.5, 0.75, 1.0)])
                if "minExclusive" in st["bounds"] and v <= lo:
                    v = lo + 1.0
                return v
        if base in ("xs:nonNegativeInteger", "xs:unsignedInt"):
            return rng.choice([0, 1, 2, 7, 100])
        if base == "xs:positiveInteger":
            return rng.choice([1, 2, 7, 100])
        if base in ("xs:integer", "xs:int"):
            return rng.choice([-3, 0, 1, 12])
        if base in ("xs:double", "xs:float", "xs:decimal"):
            return rng.choice([0.0, 1.0, -2.5, 0.125, 100.0])
        if base == "xs:boolean":
            return rng.choice([True, False])
        return rng.choice(["a", "abc_1", "x y", "Z9"])

    def counts(self, p, depth, acc, required_only):
        """choose child counts per tag for a particle: acc[tag] += n"""
        rng = self.rng
        if p is None:
            return
        if p["k"] == "elem":
            lo = p["lo"]
            hi = lo if required_only else (lo + 2 if p["hi"] is None else min(p["hi"], lo + 2))
            n = rng.randint(lo, max(lo, hi))
            acc[p["tag"]] = acc.get(p["tag"], 0) + n
            acc.setdefault("_types", {})[p["tag"]] = p["type"]
        elif p["k"] == "any":
            return
        elif p["k"] in ("seq", "all"):
            reps = 1 if p["lo"] >= 1 else (0 if required_only else rng.randint(0, 1))
            for _ in range(reps):
                for q in p["ps"]:
                    self.counts(q, depth, acc, required_only)
        elif p["k"] == "choice":
            reps = p["lo"] if (required_only or p["hi"] == p["lo"]) else max(p["lo"], rng.randint(0, 1))
            reps = min(reps, 1)       # member-grouped export cannot interleave repeated choices (C02 finding)
            for _ in range(reps):
                self.counts(rng.choice(p["ps"]), depth, acc, required_only)

    def obj(self, tname, depth=0):
        rng = self.rng
        attrs, kids = self.ir.flat(tname)
        byxml = {a["xml"]: a for a in attrs}
        bytag = {k["tag"]: k for k in kids}
        kw = {}
        for t in self.xchain(tname):
            for a in t["attrs"]:
                fa = byxml.get(a["name"])
                if fa is None:
                    continue
                if a["use"] == "required" or rng.random() < 0.5:
                    v = self.simple_value(a["type"])
                    if a.get("fixed") is not None:
                        v = a["fixed"]
                    kw[fa["member"]] = v
            acc = {}
            self.counts(t["content"], depth, acc, required_only=(depth >= self.max_depth))
            types = acc.pop("_types", {})
            for tag, n in acc.items():
                fk = bytag.get(tag)
                if fk is None or n == 0:
                    continue
                if fk["text"]:
                    kw[fk["member"]] = self.simple_value(types[tag])
                    continue
                objs = [self.obj(types[tag], depth + 1) for _ in range(n)]
                kw[fk["member"]] = objs if fk["container"] else objs[0]
        return getattr(self.mod, tname)(**kw)


_SCHEMA = {}


def probe_schema():
    """lxml XMLSchema of the bundled XSD plus one global element `probe_<Type>` per complex type"""
    from lxml import etree
    path, _ = emit_xsd.xsd_extract.current_xsd(fw.REPO)
    key = (path, os.path.getmtime(path))
    if key not in _SCHEMA:
        doc = etree.parse(path)
        root = doc.getroot()
        XS = "{http://www.w3.org/2001/XMLSchema}"
        for ct in root.findall(XS + "complexType"):
            e = etree.SubElement(root, XS + "element")
            e.set("name", "probe_" + ct.get("name"))
            e.set("type", ct.get("name"))
        _SCHEMA[key] = etree.XMLSchema(doc)
    return _SCHEMA[key]


def xsd_verdict(o, tname):
    """(valid?, message) of libxml2 on the component written on its own as <probe_Type>"""
    from lxml import etree
    text = export_text(o, "probe_" + tname)
    try:
        root = etree.fromstring(text.encode("utf-8"))
    except Exception as e:
        return False, "not well-formed: %r" % (e,), text
    sch = probe_schema()
    ok = sch.validate(root)
    return ok, (str(sch.error_log.last_error) if not ok else ""), text
