"""C20 (second pass): differential execution of two versions of the bindings module.

`shipped` is the imported `neuroml.nml.nml` of the tree under test, `regen` the file the regeneration produces now,
loaded as a sibling module of the same package (`neuroml.nml._c20_regenerated_<n>`: its relative imports resolve to the
same `generatedssupersuper` / `generatedscollector`). For a (class, member) pair whose statements differ textually the
search builds THE SAME object in both modules (a nested recipe over `member_data_items_`: boundary values 0 / 0.0 /
None / "0", typical values, small child lists), calls the member with the same arguments and compares outcome, raised
exception type and the state of the object afterwards. The first input on which the two versions BEHAVE differently is
the witness recorded in the replay. The same machinery, run on pairs that do NOT differ textually, is a correspondence
stream: it must never find a difference.
"""
import importlib.util
import inspect
import io
import os
import shutil
import signal
import sys
import tempfile
import threading

SKIP_ATTRS = {"parent_object_", "gds_collector_", "gds_elementtree_node_", "ns_prefix_", "original_tagname_"}
INT_TYPES = {"xs:integer", "xs:int", "xs:long", "xs:nonNegativeInteger", "xs:positiveInteger", "NonNegativeInteger",
             "PositiveInteger", "xs:short", "xs:unsignedInt"}
FLOAT_TYPES = {"xs:float", "xs:double", "xs:decimal", "ZeroToOne", "DoubleGreaterThanZero"}
BOOL_TYPES = {"xs:boolean"}
_COUNTER = [0]


def load_module_from_text(text, like_module):
    """exec `text` as a sibling module of `like_module` (same package); returns (module, cleanup)"""
    d = tempfile.mkdtemp(prefix="verif_c20_mod_")
    _COUNTER[0] += 1
    name = like_module.__name__.rsplit(".", 1)[0] + "._c20_regenerated_%d" % _COUNTER[0]
    path = os.path.join(d, "nml_regenerated.py")
    with open(path, "w") as fh:
        fh.write(text)
    spec = importlib.util.spec_from_file_location(name, path)
    mod = importlib.util.module_from_spec(spec)
    sys.modules[name] = mod
    old = sys.dont_write_bytecode
    sys.dont_write_bytecode = True
    try:
        spec.loader.exec_module(mod)
    finally:
        sys.dont_write_bytecode = old

    def cleanup():
        sys.modules.pop(name, None)
        shutil.rmtree(d, ignore_errors=True)
    return mod, cleanup


# ------------------------------------------------------------------------------------------------ recipes
def member_specs(cls):
    out, seen = [], set()
    for k in cls.__mro__:
        for m in k.__dict__.get("member_data_items_", []) or []:
            try:
                nm = m.get_name()
            except Exception:  # noqa
                continue
            if nm not in seen:
                seen.add(nm)
                out.append(m)
    return out


def scalar_value(rng, dtype, name, style):
    """style: 'zero' | 'typical' | 'mixed'"""
    if style == "mixed":
        style = rng.choice(["zero", "typical", "typical", "none"])
    if style == "none":
        return None
    if style == "required":
        style = "typical"
    if str(dtype) in ("NmlId", "xs:ID", "xs:NCName"):
        return "a0" if style == "zero" else rng.choice(["a", "b0", "pop0", "x_1"])
    if dtype in INT_TYPES or name in ("id", "segment_id", "pre_segment_id", "post_segment_id", "size", "segments"):
        return 0 if style == "zero" else rng.choice([1, 2, 3, 7])
    if dtype in FLOAT_TYPES or name.endswith("fraction_along") or name in ("weight", "x", "y", "z", "diameter"):
        return 0.0 if style == "zero" else rng.choice([0.5, 1.0, 2.0, 0.25])
    if dtype in BOOL_TYPES:
        return False if style == "zero" else True
    if "Nml2Quantity" in str(dtype):
        unit = {"Nml2Quantity_time": "ms", "Nml2Quantity_voltage": "mV", "Nml2Quantity_length": "um",
                "Nml2Quantity_conductance": "nS", "Nml2Quantity_current": "nA", "Nml2Quantity_none": "",
                "Nml2Quantity_capacitance": "pF"}.get(str(dtype), "")
        v = "0" if style == "zero" else rng.choice(["1", "2.5", "10", "1e-3"])
        return (v + " " + unit).strip() if unit else v
    if name in ("pre_cell_id", "post_cell_id", "target", "pre_cell", "post_cell"):
        return rng.choice(["../pop0/0/cellA", "../pop0/3/cellA", "pop0[2]", "../pop1/0/c", "pop0/3/cellA", "pop1/5"]) \
            if style != "zero" else "../pop0/0/cellA"
    if name in ("populations", "population", "presynaptic_population", "postsynaptic_population", "component", "synapse"):
        return "pop0" if style == "zero" else rng.choice(["pop0", "pop1", "syn0"])
    return "0" if style == "zero" else rng.choice(["a", "b0", "soma_group", "x_1"])


def make_recipe(rng, mod, cls_name, style, depth):
    cls = getattr(mod, cls_name, None)
    rec = {"cls": cls_name, "kw": {}}
    if cls is None or not isinstance(cls, type):
        return rec
    for m in member_specs(cls):
        nm, dt = m.get_name(), m.get_data_type()
        if nm in ("anytypeobjs_", "valueOf_"):
            continue
        sub = getattr(mod, str(dt), None)
        is_cls = isinstance(sub, type) and "member_data_items_" in sub.__dict__
        if style == "required" and m.get_optional():
            continue
        if is_cls and style == "required":
            if depth > 0:
                one = make_recipe(rng, mod, str(dt), style, depth - 1)
                rec["kw"][nm] = [one] if m.get_container() else one
            continue
        if is_cls:
            if depth <= 0 or (style == "none"):
                continue
            if m.get_container():
                n = 0 if style == "zero" else rng.choice([0, 1, 2, 2])
                if depth >= 2 and style != "zero" and nm in ("segments", "segment_groups", "members", "includes", "populations",
                                                             "instances", "connections", "connection_wds", "input"):
                    n = max(n, 1)
                rec["kw"][nm] = [make_recipe(rng, mod, str(dt), style, depth - 1) for _ in range(n)]
            elif rng.random() < (0.8 if not m.get_optional() else 0.55):
                rec["kw"][nm] = make_recipe(rng, mod, str(dt), style, depth - 1)
        else:
            v = scalar_value(rng, dt, nm, style)
            if m.get_container():
                v = [] if v is None else [v]
            if v is not None:
                rec["kw"][nm] = v
    return rec


def build(mod, rec):
    if isinstance(rec, dict) and "cls" in rec and "kw" in rec:
        kw = {k: build(mod, v) for k, v in rec["kw"].items()}
        return getattr(mod, rec["cls"])(**kw)
    if isinstance(rec, list):
        return [build(mod, x) for x in rec]
    return rec


def short_recipe(rec, depth=0):
    if isinstance(rec, dict) and "cls" in rec:
        if depth >= 3:
            return rec["cls"] + "(…)"
        return "%s(%s)" % (rec["cls"], ", ".join("%s=%s" % (k, short_recipe(v, depth + 1)) for k, v in rec["kw"].items()))
    if isinstance(rec, list):
        return "[" + ", ".join(short_recipe(x, depth + 1) for x in rec[:3]) + (", …" if len(rec) > 3 else "") + "]"
    return repr(rec)


# ------------------------------------------------------------------------------------------------ canonical outcomes
def canon(x, depth=0, seen=None):
    seen = seen if seen is not None else set()
    if x is None or isinstance(x, (bool, int, str, bytes)):
        return repr(x)
    if isinstance(x, float):
        return repr(x)
    if isinstance(x, (list, tuple)):
        return [type(x).__name__] + [canon(y, depth + 1, seen) for y in x[:60]]
    if isinstance(x, (set, frozenset)):
        return ["set"] + sorted(str(canon(y, depth + 1, seen)) for y in x)
    if isinstance(x, dict):
        return ["dict"] + sorted((str(canon(k, depth + 1, seen)), str(canon(v, depth + 1, seen))) for k, v in list(x.items())[:60])
    if isinstance(x, type):
        return "<class %s>" % x.__name__
    if isinstance(x, (staticmethod, classmethod)) or inspect.isroutine(x):
        return "<routine %s>" % getattr(x, "__name__", getattr(getattr(x, "__func__", None), "__name__", "?"))
    if callable(x) and not hasattr(x, "__dict__"):
        return "<callable>"
    if id(x) in seen or depth > 6:
        return "<%s …>" % type(x).__name__
    seen.add(id(x))
    d = getattr(x, "__dict__", None)
    if isinstance(d, dict):
        return ["obj", type(x).__name__] + sorted((k, str(canon(v, depth + 1, seen))) for k, v in d.items() if k not in SKIP_ATTRS and k != "__module__")
    try:
        import numpy
        if isinstance(x, numpy.ndarray):
            return ["ndarray", list(x.shape), [repr(float(v)) for v in x.ravel()[:40]]]
        if isinstance(x, numpy.generic):
            return repr(x.item())
    except Exception:  # noqa
        pass
    return "<%s>" % type(x).__name__


class CallTimeout(BaseException):
    pass


def _on_alarm(signum, frame):
    raise CallTimeout()


CALL_SECONDS = 2.0
TIMEOUTS = [0]


def outcome(fn):
    """("ok", value) | ("raise", exception type name); a call that runs longer than CALL_SECONDS (a helper looping on a
    generated object) is cut off and counts as ("raise", "CallTimeout") on that side"""
    old_out, old_err = sys.stdout, sys.stderr
    sys.stdout, sys.stderr = io.StringIO(), io.StringIO()
    use_alarm = threading.current_thread() is threading.main_thread() and hasattr(signal, "setitimer")
    if use_alarm:
        old_h = signal.signal(signal.SIGALRM, _on_alarm)
        signal.setitimer(signal.ITIMER_REAL, CALL_SECONDS)
    try:
        try:
            r = fn()
            return ("ok", r)
        except CallTimeout:
            TIMEOUTS[0] += 1
            return ("raise", "CallTimeout")
        except RecursionError:
            return ("raise", "RecursionError")
        except KeyboardInterrupt:
            raise
        except BaseException as e:  # noqa
            return ("raise", type(e).__name__)
    finally:
        if use_alarm:
            signal.setitimer(signal.ITIMER_REAL, 0)
            signal.signal(signal.SIGALRM, old_h)
        sys.stdout, sys.stderr = old_out, old_err


ARG_VALUES = [0, 1, None, "a", 0.5, "0", "soma_group", True, 2, -1, "../pop0/0/cellA", [], "x y", "pop0/3/cellA", "pop0[4]"]
STR_VALUES = [None, "", "a", "0", "1 mV", "-1.5e3 mV", "x y", "<&>\"'", "A_b1", "1e-3", " 5 ", "0.5"]


def arg_sets(rng, sig_params, n):
    """argument tuples/dicts for a bound call, from the signature of the SHIPPED version"""
    req = [p for p in sig_params if p.default is inspect._empty and p.kind in (p.POSITIONAL_ONLY, p.POSITIONAL_OR_KEYWORD)]
    opt = [p for p in sig_params if p.default is not inspect._empty and p.kind in (p.POSITIONAL_OR_KEYWORD, p.KEYWORD_ONLY)]
    out = []
    if not req:
        out.append(((), {}))
    for _ in range(n):
        a = tuple(rng.choice(ARG_VALUES) for _ in req)
        kw = {}
        for p in opt:
            if rng.random() < 0.3:
                kw[p.name] = rng.choice(ARG_VALUES)
        if (a, tuple(sorted(kw))) not in [(x, tuple(sorted(y))) for x, y in out]:
            out.append((a, kw))
    return out


GENERATED_CALLS = ("export", "_exportAttributes", "_exportChildren", "validate_", "build", "_buildAttributes", "_buildChildren",
                   "__init__", "factory", "has__content")


def call_plan(rng, mod, cls_name, member, n_args):
    """-> list of (description, function(mod, obj) -> value) to run on an instance of cls_name of module `mod`"""
    plans = []
    if member in ("__init__", "factory", "<assign member_data_items_>", "<assign subclass>", "<assign superclass>", "<Expr>",
                  "<assign __hash__>"):
        plans.append(("construct", lambda m, o: o))
        plans.append(("member_data_items_", lambda m, o: [(x.get_name(), x.get_data_type(), x.get_container(), x.get_optional())
                                                          for x in type(o).__dict__.get("member_data_items_", [])]))
        plans.append(("class attrs", lambda m, o: (type(o).__doc__, getattr(type(o).superclass, "__name__", None),
                                                   [b.__name__ for b in type(o).__mro__][:4])))
        return plans
    if member in ("export", "_exportAttributes", "_exportChildren", "has__content"):
        def exp(m, o, pretty=True):
            f = io.StringIO()
            o.export(f, 0, name_=cls_name, pretty_print=pretty)
            return f.getvalue()
        plans.append(("export(pretty_print=True)", exp))
        plans.append(("export(pretty_print=False)", lambda m, o: exp(m, o, False)))
        plans.append(("has__content()", lambda m, o: o.has__content()))
        return plans
    if member == "validate_":
        def val(m, o, rec):
            c = m.GdsCollector_()
            r = o.validate_(c, recursive=rec)
            return (r, list(c.get_messages()))
        plans.append(("validate_(collector, recursive=True)", lambda m, o: val(m, o, True)))
        plans.append(("validate_(collector, recursive=False)", lambda m, o: val(m, o, False)))
        return plans
    if member in ("build", "_buildAttributes", "_buildChildren"):
        def rt(m, o):
            f = io.StringIO()
            o.export(f, 0, name_=cls_name, namespacedef_='xmlns="http://www.neuroml.org/schema/neuroml2"')
            node = m.parsexmlstring_(f.getvalue().encode("utf-8"))
            node = node.getroot() if hasattr(node, "getroot") else node
            new = getattr(m, cls_name).factory()
            new.build(node)
            return new
        plans.append(("export -> parse -> build", rt))
        return plans
    if member.startswith("validate_") and member != "validate_":
        for v in STR_VALUES + [0, 1.5, -2]:
            def vv(m, o, v=v):
                o.gds_collector_ = m.GdsCollector_()
                r = getattr(o, member)(v)
                return (r, list(o.gds_collector_.get_messages()))
            plans.append(("%s(%r)" % (member, v), vv))
        return plans
    if member.startswith("<assign "):
        nm = member[8:-1]
        plans.append(("class attribute " + nm, lambda m, o: type(o).__dict__.get(nm, "<absent>")))
        return plans
    # a helper (user) method, property or anything else callable by name
    attr = None
    for k in getattr(mod, cls_name).__mro__:
        if member in k.__dict__:
            attr = k.__dict__[member]
            break
    if isinstance(attr, property):
        plans.append(("property %s" % member, lambda m, o: getattr(o, member)))
        return plans
    fn = attr.__func__ if isinstance(attr, (staticmethod, classmethod)) else attr
    try:
        params = list(inspect.signature(fn).parameters.values())
    except (TypeError, ValueError):
        params = []
    if params and not isinstance(attr, staticmethod):
        params = params[1:]
    if member in ("__str__", "__repr__"):
        plans.append(("%s()" % member, lambda m, o: getattr(o, member)()))
        return plans
    for a, kw in arg_sets(rng, params, n_args):
        def call(m, o, a=a, kw=kw):
            return getattr(o, member)(*a, **kw)
        plans.append(("%s(%s)" % (member, ", ".join([repr(x) for x in a] + ["%s=%r" % kv for kv in kw.items()])), call))
    return plans


def signatures_differ(shipped, regen, cls_name, member):
    def sig(mod):
        c = getattr(mod, cls_name, None)
        a = c.__dict__.get(member) if c is not None else None
        if a is None:
            return "<absent>"
        f = a.fget if isinstance(a, property) else getattr(a, "__func__", a)
        try:
            return ("property " if isinstance(a, property) else "") + str(inspect.signature(f))
        except (TypeError, ValueError):
            return "<%s>" % type(a).__name__
    s1, s2 = sig(shipped), sig(regen)
    return (s1, s2) if s1 != s2 else None


def find_witness(rng, shipped, regen, cls_name, member, n_objects=40, n_args=10, max_calls=1500):
    """-> (witness dict | None, #calls compared). The two modules must both define cls_name."""
    calls = 0
    if cls_name is None:
        w = module_level_witness(rng, shipped, regen, member)
        return w, (MODULE_LEVEL_CALLS if callable(getattr(shipped, member, None)) else 1)
    if not isinstance(getattr(shipped, cls_name, None), type) or not isinstance(getattr(regen, cls_name, None), type):
        return ({"kind": "class-exists-on-one-side-only", "class": cls_name,
                 "shipped": hasattr(shipped, cls_name), "regenerated": hasattr(regen, cls_name)}, 0)
    sd = signatures_differ(shipped, regen, cls_name, member)
    if sd and "<absent>" in sd:
        inst = outcome(lambda: build(shipped, {"cls": cls_name, "kw": {}}))
        return ({"kind": "attribute-exists-on-one-side-only", "class": cls_name, "member": member,
                 "object": "class %s" % cls_name, "call": "%r in vars(%s)" % (member, cls_name),
                 "shipped_result": repr(sd[0] != "<absent>"), "regenerated_result": repr(sd[1] != "<absent>")}, 1)
    styles = ["zero", "typical", "mixed", "none", "mixed", "typical", "zero", "mixed"]
    for i in range(n_objects):
        style = styles[i % len(styles)]
        depth = [1, 2, 3, 2][i % 4]
        rec = make_recipe(rng, shipped, cls_name, style, depth)
        plans = call_plan(rng, shipped, cls_name, member, n_args)
        for desc, fn in plans:
            if calls >= max_calls:
                return None, calls
            o1 = outcome(lambda: build(shipped, rec))
            o2 = outcome(lambda: build(regen, rec))
            if o1[0] != "ok" or o2[0] != "ok":
                calls += 1
                c1 = o1[1] if o1[0] == "raise" else "constructed"
                c2 = o2[1] if o2[0] == "raise" else "constructed"
                if c1 != c2:
                    return ({"kind": "constructor", "class": cls_name, "member": member, "object": short_recipe(rec),
                             "call": "construct", "shipped_result": str(c1), "regenerated_result": str(c2)}, calls)
                break
            r1 = outcome(lambda: fn(shipped, o1[1]))
            r2 = outcome(lambda: fn(regen, o2[1]))
            calls += 1
            k1 = (r1[0], canon(r1[1]) if r1[0] == "ok" else r1[1], canon(o1[1]))
            k2 = (r2[0], canon(r2[1]) if r2[0] == "ok" else r2[1], canon(o2[1]))
            if k1 != k2:
                def show(r, k):
                    return ("raises " + r[1]) if r[0] == "raise" else ("returns " + _short(k[1]))
                w = {"kind": "behaviour", "class": cls_name, "member": member, "object": short_recipe(rec)[:600],
                     "call": desc, "shipped_result": show(r1, k1), "regenerated_result": show(r2, k2)}
                if k1[:2] == k2[:2]:
                    w["kind"] = "side-effect"
                    w["shipped_result"] += "; object afterwards: " + _short(_first_state_diff(k1[2], k2[2])[0])
                    w["regenerated_result"] += "; object afterwards: " + _short(_first_state_diff(k1[2], k2[2])[1])
                return w, calls
    return None, calls


def _short(x, n=300):
    s = x if isinstance(x, str) else repr(x)
    return s if len(s) <= n else s[:n] + "…"


def _first_state_diff(a, b):
    if isinstance(a, list) and isinstance(b, list):
        for x, y in zip(a, b):
            if x != y:
                return (x, y)
    return (a, b)


MODULE_LEVEL_CALLS = 120


def module_level_witness(rng, shipped, regen, name):
    f1, f2 = getattr(shipped, name, None), getattr(regen, name, None)
    if f1 is None or f2 is None:
        return {"kind": "module-attribute-on-one-side-only", "member": name, "shipped": f1 is not None, "regenerated": f2 is not None}
    if not callable(f1) or isinstance(f1, type):
        k1, k2 = canon(f1), canon(f2)
        if k1 != k2:
            return {"kind": "module-value", "member": name, "call": name, "shipped_result": _short(k1), "regenerated_result": _short(k2)}
        return None
    try:
        params = list(inspect.signature(f1).parameters.values())
    except (TypeError, ValueError):
        return None
    vals = ["", "a", "a&b", "<x>", 'say "hi"', "it's", "a\nb", "'\"", 0, 1.5, None, b"x", "&amp;", "]]>", "<![CDATA[x]]>"]
    for _ in range(MODULE_LEVEL_CALLS):
        a = tuple(rng.choice(vals) for p in params if p.default is inspect._empty
                  and p.kind in (p.POSITIONAL_ONLY, p.POSITIONAL_OR_KEYWORD))
        r1, r2 = outcome(lambda: f1(*a)), outcome(lambda: f2(*a))
        k1 = (r1[0], canon(r1[1]) if r1[0] == "ok" else r1[1])
        k2 = (r2[0], canon(r2[1]) if r2[0] == "ok" else r2[1])
        if k1 != k2:
            return {"kind": "behaviour", "member": name, "call": "%s(%s)" % (name, ", ".join(map(repr, a))),
                    "shipped_result": _short(k1), "regenerated_result": _short(k2)}
    return None


# ------------------------------------------------------------------------------------------------ document witness
def containment_path(mod, target, root="NeuroMLDocument", limit=6):
    """[(parent class, member name, is_list)] from `root` down to a member whose data type is `target`"""
    seen, todo = {root}, [(root, [])]
    while todo:
        cls_name, path = todo.pop(0)
        cls = getattr(mod, cls_name, None)
        if not isinstance(cls, type) or len(path) >= limit:
            continue
        for m in member_specs(cls):
            dt = str(m.get_data_type())
            sub = getattr(mod, dt, None)
            if not (isinstance(sub, type) and "member_data_items_" in sub.__dict__):
                continue
            step = path + [(cls_name, m.get_name(), bool(m.get_container()))]
            if dt == target:
                return step
            if dt not in seen:
                seen.add(dt)
                todo.append((dt, step))
    return None


def document_witness(rng, shipped, regen, cls_name, xsd_path, tries=60):
    """a whole NeuroML document containing one `cls_name` object on which the bundled schema (lxml) and the SHIPPED
    bindings' `validate(recursive=True)` disagree while the REGENERATED bindings agree with the schema"""
    try:
        from lxml import etree
        schema = etree.XMLSchema(etree.parse(xsd_path))
    except Exception:  # noqa
        return None
    path = containment_path(shipped, cls_name)
    if not path:
        return None

    def doc_recipe(target_rec):
        rec = target_rec
        for parent, member, is_list in reversed(path):
            p = make_recipe(rng, shipped, parent, "required", 3)
            p["kw"][member] = [rec] if is_list else rec
            rec = p
        return rec

    def verdicts(rec):
        out = {}
        for tag, mod in (("shipped", shipped), ("regenerated", regen)):
            o = outcome(lambda: build(mod, rec))
            if o[0] != "ok":
                return None, None
            v = outcome(lambda: o[1].validate(recursive=True))
            out[tag] = "accept" if v[0] == "ok" else "reject (%s)" % v[1]
            if tag == "shipped":
                f = io.StringIO()
                x = outcome(lambda: o[1].export(f, 0, name_="neuroml", namespacedef_='xmlns="http://www.neuroml.org/schema/neuroml2"'))
                if x[0] != "ok":
                    return None, None
                xml = f.getvalue()
        try:
            ok = schema.validate(etree.fromstring(xml.encode("utf-8")))
        except Exception:  # noqa
            return None, None
        out["schema"] = "accept" if ok else "reject (%s)" % (str(schema.error_log.last_error)[:160])
        return out, xml
    for i in range(tries):
        style = ["required", "typical", "mixed", "mixed", "zero", "none"][i % 6]
        target = make_recipe(rng, shipped, cls_name, style, 1)
        v, xml = verdicts(doc_recipe(target))
        if not v:
            continue
        s_ok, b_ok, r_ok = v["schema"] == "accept", v["shipped"] == "accept", v["regenerated"] == "accept"
        if s_ok != b_ok and r_ok == s_ok:
            return {"kind": "document", "class": cls_name, "document": xml[:1500], "bundled_schema": v["schema"],
                    "shipped_bindings_validate": v["shipped"], "regenerated_bindings_validate": v["regenerated"],
                    "path": " -> ".join("%s.%s" % (a, b) for a, b, _ in path)}
    return None
