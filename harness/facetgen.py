"""C02 / C03 second pass: simple-type machinery shared by harness/props/c02.py and c03.py.

* `validators(ctx, ir)`         run translators/validators_extract.py (nml.py + XSD -> Gen/Validators.lean)
* `ValidGen2`                   bindgen.ValidGen drawing free strings with XML-special characters and pattern values
                                with every XSD space character
* `boundary_values`             per simple type: members of the value space and near misses (trailing / leading line
                                feed and blank, empty, very long, non-ASCII digits and spaces, signs, exponents, bound
                                edges, wrong base type)
* `simple_stream`               every boundary value through (a) the REAL `validate_<T>` of a class that carries a copy,
                                (b) the Lean model of that validator, (c) libxml2 on an attribute of that type,
                                (d) the Lean formalisation of the XSD value space
* `st_schema`                   lxml XMLSchema of the bundled XSD + one probe element per complex type (as bindgen) + one
                                element `probest_<T>` with an attribute `v` of type T per simple type
* trees with a past             `rearrange`: objects obtained by READING, moved into a differently named slot of the
                                same type (`child.proximal = parent.distal`)
"""
import copy
import json
import os
import sys
from fractions import Fraction

import bindgen
import fw

sys.path.insert(0, os.path.join(fw.VERIF, "translators"))
import validators_extract  # noqa

NS = "http://www.neuroml.org/schema/neuroml2"
XS = "{http://www.w3.org/2001/XMLSchema}"


def validators(ctx, ir):
    """-> (info, gaps); cached on ctx"""
    if getattr(ctx, "vinfo", None) is None:
        try:
            ctx.vinfo, ctx.vgaps = validators_extract.regenerate(fw.REPO, fw.LEAN, ir.ix)
        except Exception as e:
            ctx.vinfo, ctx.vgaps = None, ["validators translator crashed: %r" % (e,)]
    try:
        ASCII_SHAPE[0] = bool(ctx.vinfo["patcheck"]["ascii"])
    except Exception:
        ASCII_SHAPE[0] = False
    return ctx.vinfo, ctx.vgaps


# ------------------------------------------------------------------------------------------- conforming values
XML_SPECIAL = ['"', "'", "<", ">", "&", "\n", "\t", "]]>", "&amp;", "&#10;", "'\"", "\"'", "é", "µ", "\\", "%s", "%", "{}", "/>", "</a>",
               "<!--", "-->", "<?x?>", " ", "  ", " ", "\U0001F600"]
PLAIN = list("abcXYZ019_-.:")


def free_string(rng):
    """a conforming xs:string: any sequence of XML characters, biased to the ones a serialiser must escape"""
    r = rng.random()
    if r < 0.12:
        return rng.choice(["\"'", "'\"", "a\"b'c", "'<&>\"", "\n", "x\ny", "\"", "'", "&", "<", "a&#10;b", "\"\"''"])
    n = rng.choice([0, 1, 1, 2, 3, 5, 9])
    out = []
    for _ in range(n):
        out.append(rng.choice(XML_SPECIAL) if rng.random() < 0.5 else rng.choice(PLAIN))
    return "".join(out)


def pattern_sample(rng, pattern):
    """a member of the pattern's language; `\\s` positions draw from all four XSD spaces (bindgen.regex_sample only
    uses the blank)"""
    s = bindgen.regex_sample(rng, pattern)
    if s is None:
        return None
    if " " in s and rng.random() < 0.6:
        import re
        t = "".join(rng.choice([" ", "\t", "\n", "\r", " "]) if c == " " else c for c in s)
        if re.fullmatch(pattern, t):
            return t
    return s


class ValidGen2(bindgen.ValidGen):
    """as bindgen.ValidGen; free strings carry XML-special characters (both quote kinds, markup, line feeds), pattern
    values use every XSD space"""

    def __init__(self, ir, rng, max_depth=3, special=True, nonfinite=False):
        super().__init__(ir, rng, max_depth)
        self.special = special
        self.nonfinite = nonfinite      # also draw INF, -INF, NaN for unbounded xs:double / xs:float members (C02)

    def simple_value(self, tname):
        rng = self.rng
        st = self.ST.get(tname)
        base, k = tname, 0
        while base in self.ST and k < 10:
            base, k = self.ST[base]["base"], k + 1
        if st is not None and st["patterns"] and not st["enums"]:
            s = pattern_sample(rng, rng.choice(st["patterns"]))
            if s is not None:
                return s
        if base == "xs:string" and (st is None or not (st["enums"] or st["patterns"])):
            return free_string(rng) if self.special else super().simple_value(tname)
        if base in ("xs:anyURI",):
            return rng.choice(["a", "file.nml", "../x/y.nml"])
        if base in ("xs:float", "xs:double", "xs:decimal") and not (st is not None and st["enums"]) and rng.random() < 0.5:
            # values whose shortest repr is in exponent form with a one-digit mantissa (seeded change C02-4), very large /
            # very small magnitudes; kept inside the type's bounds
            lo = hi = None
            if st is not None:
                b = st["bounds"]
                lo = float(b["minInclusive"]) if "minInclusive" in b else (float(b["minExclusive"]) if "minExclusive" in b else None)
                hi = float(b["maxInclusive"]) if "maxInclusive" in b else (float(b["maxExclusive"]) if "maxExclusive" in b else None)
            cands = [1e-05, 2e-06, 1e-07, 1e16, 3e-09, 1.5e-05, 2.5e-17, 1e22, -1e-05, -2e-06, -1e16, 123456789.125, 7e-12]
            cands = [v for v in cands if (lo is None or v > lo) and (hi is None or v < hi)]
            if self.nonfinite and lo is None and hi is None and base != "xs:decimal" and rng.random() < 0.08:
                return rng.choice([float("inf"), float("-inf"), float("nan")])
            if cands:
                return rng.choice(cands)
        return super().simple_value(tname)


# ------------------------------------------------------------------------------------------- boundary values
def py_base(info, name):
    for v in info["validators"]:
        if v["name"] == name:
            return v["base"]
    return None


def boundary_values(rng, st, info, n_valid=3):
    """[(python value, tag)] for one schema simple type: members and near misses"""
    name = st["name"]
    base = py_base(info, name) or "str"
    out = []
    if base == "str":
        seeds = []
        if st["enums"]:
            seeds = list(st["enums"])
        elif st["patterns"]:
            for _ in range(n_valid):
                s = pattern_sample(rng, st["patterns"][0])
                if s is not None:
                    seeds.append(s)
        else:
            seeds = [free_string(rng) for _ in range(n_valid)]
        for s in seeds:
            out.append((s, "member"))
            for t, tag in ((s + "\n", "trailing-lf"), ("\n" + s, "leading-lf"), (s + " ", "trailing-blank"), (" " + s, "leading-blank"),
                           (s + "\r", "trailing-cr"), (s + "\n\n", "two-trailing-lf"), (s + "\t", "trailing-tab"),
                           (s + "\u00a0", "trailing-nbsp"), (s.upper(), "upper"), (s + s, "doubled")):
                out.append((t, tag))
            trans = str.maketrans("0123456789", "٠١٢٣٤٥٦٧٨٩")
            if s.translate(trans) != s:
                out.append((s.translate(trans), "arabic-indic-digits"))
                out.append((s.translate(str.maketrans("0123456789", "０１２３４５６７８９")), "fullwidth-digits"))
            if s[:1].isalpha():
                out.append(("é" + s[1:], "non-ascii-letter"))
                out.append(("ａ" + s[1:], "fullwidth-letter"))
            for sp, tag in (("\u00a0", "nbsp"), ("\u2003", "em-space"), ("\u0085", "nel"), ("\t", "tab"), ("\n", "lf"), ("\r", "cr"),
                            ("\x0b", "vtab"), ("\x1f", "unit-separator"), ("\u3000", "ideographic-space")):
                if name.startswith("Nml2Quantity"):
                    i = 0
                    while i < len(s) and (s[i] in "-.eE" or s[i].isdigit()):
                        i += 1
                    out.append((s[:i].rstrip() + sp + s[i:].lstrip(), "space:" + tag))
        out += [("", "empty"), ("x" * 3000, "very-long"), ("0" * 400 + "1", "long-digits"), ("+1", "plus-sign"), ("1e+5", "exp-plus"),
                ("1.", "trailing-point"), (".5", "leading-point"), ("-", "minus-only"), ("1e5", "exponent"), ("1E-5", "neg-exponent"),
                ("_", "underscore"), ("9a", "digit-first"), ("a:b", "colon"), ("\n", "lf-only"), (" ", "blank-only")]
        if name.startswith("Nml2Quantity_"):
            unit = st["patterns"][0].rsplit("(", 1)[1].rstrip(")").split("|")[0]
            out += [("1" + unit, "member"), ("1 " + unit, "member"), ("1" + unit + "\n", "trailing-lf"), ("1\n" + unit, "lf-before-unit"),
                    ("1\u00a0" + unit, "space:nbsp"), ("-.5e-3\t" + unit, "member"), (unit, "unit-only"), ("1" + unit + unit, "unit-twice"),
                    ("١" + unit, "arabic-indic-digits"), ("1 " + unit.swapcase(), "unit-case")]
        if name == "Nml2Quantity":
            out += [("1\n", "number-then-lf"), ("1 \n", "number-blank-lf"), ("1", "member"), ("1 mV\n", "trailing-lf"), ("\n", "lf-only"),
                    ("1\n\n", "two-trailing-lf"), ("1 m\nV", "inner-lf")]
        out += [(5, "wrong-base:int"), (1.5, "wrong-base:float")]
    elif base == "float":
        b = {k: float(v) for k, v in st["bounds"].items()}
        pts = [0.0, 1.0, -1.0, 0.5, 2.0, 0.25, 1.0 + 2.0 ** -20, 1.0 - 2.0 ** -20, 2.0 ** -30, -(2.0 ** -30), -0.0, 1e9, -1e9, 0.125,
               1e-05, 2e-06, 1e-07, 1e16, 2.5e-17, -1e-07]
        for v in b.values():
            pts += [v, v + 2.0 ** -10, v - 2.0 ** -10, v + 1.0, v - 1.0]
        for e in st["enums"]:
            pts += [float(e), float(e) + 0.5]
        for v in pts:
            out.append((float(v), "float"))
        out += [(0, "wrong-base:int"), (1, "wrong-base:int"), ("0.5", "wrong-base:str")]
    elif base == "int":
        for v in [0, 1, 2, -1, -2, 7, 10 ** 19, -(10 ** 19), 255]:
            out.append((v, "int"))
        out += [(1.0, "wrong-base:float"), ("1", "wrong-base:str")]
    seen, res = set(), []
    for v, tag in out:
        k = (type(v).__name__, v)
        if k not in seen:
            seen.add(k)
            res.append((v, tag))
    return res


def space_class(v):
    """which reading of \\s a string needs to be taken for white space: None (XSD spaces only), "vt-ff" (only \\v / \\f
    besides: still Python spaces under re.ASCII), "unicode" (a space of str.isspace outside ASCII \\s)"""
    if not isinstance(v, str):
        return None
    odd = [c for c in v if c.isspace() and c not in " \t\n\r"]
    if not odd:
        return None
    return "vt-ff" if all(c in "\x0b\x0c" for c in odd) else "unicode"


ASCII_SHAPE = [False]     # does gds_validate_simple_patterns pass re.ASCII (set by `validators` from the extracted shape)


def space_key(v):
    """finding a non-XSD space belongs to.  On today's tree (no re.ASCII) every such value, \\v and \\f included, is
    C03:pattern-unicode-space; C03:pattern-ascii-vt-ff is what would remain after the proposed repair and is only keyed
    on a tree whose call carries re.ASCII"""
    k = space_class(v)
    if k is None:
        return None
    if k == "vt-ff" and ASCII_SHAPE[0]:
        return "C03:pattern-ascii-vt-ff"
    return "C03:pattern-unicode-space"


def is_xml_text(s):
    return all(c in "\t\n\r" or 0x20 <= ord(c) <= 0xD7FF or 0xE000 <= ord(c) <= 0xFFFD or 0x10000 <= ord(c) <= 0x10FFFF for c in s)


# ------------------------------------------------------------------------------------------- libxml2 on one simple type
_ST_SCHEMA = {}


def st_schema():
    """bindgen.probe_schema() + one global element `probest_<T>` (attribute `v` of type T) per simple type"""
    from lxml import etree
    path, _ = bindgen.emit_xsd.xsd_extract.current_xsd(fw.REPO)
    key = (path, os.path.getmtime(path))
    if key not in _ST_SCHEMA:
        doc = etree.parse(path)
        root = doc.getroot()
        for ct in root.findall(XS + "complexType"):
            e = etree.SubElement(root, XS + "element")
            e.set("name", "probe_" + ct.get("name"))
            e.set("type", ct.get("name"))
        for st in root.findall(XS + "simpleType"):
            e = etree.SubElement(root, XS + "element")
            e.set("name", "probest_" + st.get("name"))
            c = etree.SubElement(e, XS + "complexType")
            a = etree.SubElement(c, XS + "attribute")
            a.set("name", "v")
            a.set("type", st.get("name"))
        _ST_SCHEMA[key] = etree.XMLSchema(doc)
    return _ST_SCHEMA[key]


def xsd_value_verdict(tname, lexical):
    """libxml2: is `lexical` (exactly these characters, no attribute-value normalisation: the tree is validated in
    memory) in the value space of simple type tname?  None when the string cannot be put into an XML document."""
    from lxml import etree
    try:
        el = etree.Element("{%s}probest_%s" % (NS, tname))
        el.set("v", lexical)
    except ValueError:
        return None
    return bool(st_schema().validate(el))


def lexical_of(mod, st_base, v):
    """what the writer puts into the document for python value v of a simple type with this builtin base"""
    g = mod.GeneratedsSuper()
    if isinstance(v, str):
        return v
    if isinstance(v, bool):
        return g.gds_format_boolean(v)
    if isinstance(v, int) and st_base not in ("xs:float", "xs:double"):
        return g.gds_format_integer(v)
    if st_base == "xs:float":
        return g.gds_format_float(v)
    if st_base == "xs:double":
        return g.gds_format_double(v)
    return str(v)


def real_simple(mod, holder, name, v):
    """run the REAL validate_<name>(v) of class `holder`; True = no message added"""
    from neuroml.nml.generatedscollector import GdsCollector
    o = getattr(mod, holder)()
    col = GdsCollector()
    o.gds_collector_ = col
    getattr(o, "validate_" + name)(v)
    return not col.get_messages()


def enc_val(v):
    if isinstance(v, str):
        return {"base": "str", "s": v}
    if isinstance(v, bool) or isinstance(v, int):
        return {"base": "int", "i": int(v)}
    f = Fraction(v)
    return {"base": "float", "num": f.numerator, "den": f.denominator}


def json_safe(s):
    """the driver reads JSON; lone surrogates cannot travel"""
    try:
        s.encode("utf-8")
        return True
    except Exception:
        return False


def simple_stream(ctx, ir, mod, info, pid, n_valid=3, holders_per_type=2):
    """boundary values of every simple type: real validator vs model, libxml2 vs model, and the property itself
    (real validator vs libxml2).  `pid` in ("C02", "C03") selects which direction is a failure of THIS property."""
    lines, pending = [], []
    stmap = {s["name"]: s for s in info["stypes"]}
    for name, st in sorted(stmap.items()):
        holders = info["copies"].get(name, [])
        if not holders:
            ctx.disagree("simple-validator", {"type": name}, "no validate_%s in nml.py" % name, None)
            continue
        hs = [holders[0]] + ([holders[-1]] if len(holders) > 1 and holders_per_type > 1 else [])
        if ctx.tier == "thorough" or getattr(ctx, "broken", None):
            hs = holders          # every copy (an obligation is broken: one copy may differ from the others)
        vals = boundary_values(ctx.rng, st, info, n_valid)
        for hi, holder in enumerate(hs):
            for v, tag in (vals if hi == 0 else vals[:12]):
                if isinstance(v, str) and not json_safe(v):
                    continue
                try:
                    real = real_simple(mod, holder, name, v)
                except Exception as e:
                    real = "raised:%s" % type(e).__name__
                lex = lexical_of(mod, st["base"], v)
                xv = xsd_value_verdict(name, lex) if hi == 0 else None
                d = {"op": "simple", "t": ir.ix[name]}
                d.update(enc_val(v))
                lines.append(json.dumps(d))
                pending.append({"type": name, "holder": holder, "value": v, "tag": tag, "real": real, "libxml2": xv, "lexical": lex})
                ctx.count("simple:%s" % tag.split(":")[0])
    rc, out = fw.run_driver("C03", lines)
    if rc != 0 or len(out) != len(lines):
        ctx.disagree("driver", "simple stream: driver failed rc=%s" % rc, "\n".join(out[-3:])[:500], None)
        return
    for p, l in zip(pending, out):
        r = json.loads(l)
        case = {"stream": "simple", "type": p["type"], "holder": p["holder"], "value": p["value"], "tag": p["tag"]}
        wrong_base = p["tag"].startswith("wrong-base")
        ctx.seen(("simple", p["type"], repr(p["value"])), nontrivial=(p["real"] is False or p["tag"] != "member"))
        # (a) real validator vs its model
        ctx.corr_evals += 1
        if r.get("py") != p["real"]:
            ctx.disagree("simple-validator", case, p["real"], r)
        # (b) libxml2 vs my formalisation of the value space (same base type only: a wrong-base value has no lexical
        #     form of its own)
        if p["libxml2"] is not None and not wrong_base:
            ctx.corr_evals += 1
            if r.get("xsd") != p["libxml2"]:
                ctx.disagree("xsd-value-space", case, p["libxml2"], r)
        # (c) the property on the real code
        if wrong_base or p["real"] not in (True, False):
            continue
        if p["libxml2"] is None:
            # a string no XML document can carry (\\v, \\f, U+001C..): the Lean value space is the oracle
            if pid == "C03" and isinstance(p["value"], str) and p["real"] is True and r.get("xsd") is False:
                ctx.fail(space_key(p["value"]) or "C03:facet-accepted:%s:%s" % (p["type"], p["tag"].split(":")[0]),
                         "validate_%s accepts %r, which is outside the value space of %s (not even an XML string)"
                         % (p["type"], p["value"], p["type"]), case)
            continue
        if pid == "C03" and p["libxml2"] is False and p["real"] is True:
            if space_key(p["value"]):
                key = space_key(p["value"])
            elif not r.get("range", True):
                key = "C03:builtin-int-range"
            else:
                key = "C03:facet-accepted:%s:%s" % (p["type"], p["tag"].split(":")[0])
            ctx.fail(key, "validate_%s accepts %r, which libxml2 rejects for simple type %s (lexical %r)"
                     % (p["type"], p["value"], p["type"], p["lexical"]), case)
        if pid == "C02" and p["libxml2"] is True and p["real"] is False:
            ctx.fail("C02:validator-rejects-member:%s:%s" % (p["type"], p["tag"].split(":")[0]),
                     "validate_%s rejects %r, which libxml2 accepts for simple type %s" % (p["type"], p["value"], p["type"]), case)


def replay_simple(mod, case, pid):
    real = real_simple(mod, case["holder"], case["type"], case["value"])
    stb = None
    from lxml import etree
    path, _ = bindgen.emit_xsd.xsd_extract.current_xsd(fw.REPO)
    for st in etree.parse(path).getroot().findall(XS + "simpleType"):
        if st.get("name") == case["type"]:
            stb = st.find(XS + "restriction").get("base")
    xv = xsd_value_verdict(case["type"], lexical_of(mod, stb, case["value"]))
    fails = (xv is False and real is True) if pid == "C03" else (xv is True and real is False)
    return {"fails": bool(fails), "validate_accepts_value": real, "libxml2_accepts_value": xv, "value": case["value"],
            "type": case["type"]}


# ------------------------------------------------------------------------------------------- trees with a past
def slots(ir, o, cls=None, path=()):
    """[(parent object, kid descriptor, index or None, child object, path)] over the whole tree"""
    cls = cls or type(o).__name__
    out = []
    _, kids = ir.flat(cls)
    for k in kids:
        if k["text"] or k["cls"] is None:
            continue
        v = getattr(o, k["member"], None)
        vs = list(enumerate(v)) if isinstance(v, list) else ([] if v is None else [(None, v)])
        for i, c in vs:
            p = path + ((k["member"], i),)
            out.append((o, k, i, c, p))
            out += slots(ir, c, type(c).__name__, p)
    return out


def empty_slots(ir, o, cls=None, path=()):
    """[(parent, kid descriptor, path of parent)] for every object-valued member of every component (filled or not)"""
    cls = cls or type(o).__name__
    out = []
    _, kids = ir.flat(cls)
    for k in kids:
        if k["text"] or k["cls"] is None:
            continue
        out.append((o, k, path))
        v = getattr(o, k["member"], None)
        vs = list(enumerate(v)) if isinstance(v, list) else ([] if v is None else [(None, v)])
        for i, c in vs:
            out += empty_slots(ir, c, type(c).__name__, path + ((k["member"], i),))
    return out


def follow(o, path):
    for m, i in path:
        o = getattr(o, m)
        if i is not None:
            o = o[i]
    return o


def apply_move(root, move):
    """move = {"src": path of the object, "dst": path of the receiving parent, "member": name, "mode": "set"|"replace0"|"append"}"""
    c = follow(root, [tuple(x) for x in move["src"]])
    parent = follow(root, [tuple(x) for x in move["dst"]])
    cur = getattr(parent, move["member"])
    if move["mode"] == "set":
        setattr(parent, move["member"], c)
    elif move["mode"] == "replace0":
        cur[0] = c
    else:
        cur.append(c)


def rearrange(ir, rng, root, cls, slot_tab, tries=30):
    """re-use one component, obtained by READING, in a differently named slot of the same declared type (the object is
    shared, as in `child.proximal = parent.distal`).  -> move description or None.  `slot_tab[(owner class, tag)]` =
    (maxOccurs of the slot (None = unbounded), the slot is a branch of a choice).  Empty choice branches are never
    filled (that could put two branches of one choice side by side)."""
    filled = slots(ir, root, cls)
    places = empty_slots(ir, root, cls)
    if not filled:
        return None
    for _ in range(tries):
        parent, k, i, c, p = rng.choice(filled)
        ccls = type(c).__name__
        cands = [(q, k2, pp) for (q, k2, pp) in places
                 if k2["cls"] == ccls and k2["tag"] != k["tag"] and not k2.get("poly_only")
                 and not _is_inside(pp, p)]
        if not cands:
            continue
        q, k2, pp = rng.choice(cands)
        cur = getattr(q, k2["member"], None)
        hi, in_choice = slot_tab.get((k2["owner"], k2["tag"]), (1, True))
        if in_choice and not cur:
            continue
        if k2["container"]:
            if cur:
                mode = "replace0"
            elif hi is None or hi >= 1:
                mode = "append"
            else:
                continue
        else:
            mode = "set"
        mv = {"src": [list(x) for x in p], "dst": [list(x) for x in pp], "member": k2["member"], "mode": mode,
              "from_tag": k["tag"], "to_tag": k2["tag"], "cls": ccls}
        apply_move(root, mv)
        return mv
    return None


def _is_inside(dst_parent_path, src_path):
    """the receiving parent lies inside the moved object (would create a cycle)"""
    return len(dst_parent_path) >= len(src_path) and tuple(dst_parent_path[:len(src_path)]) == tuple(src_path)


# ------------------------------------------------------------------------------------------- objects from descriptions
def _parse_lex(prim, lex):
    if prim == "int":
        return int(lex)
    if prim in ("float", "double"):
        return float(lex)
    if prim == "bool":
        return lex in ("true", "1", True)
    return lex


def obj_from_desc(ir, mod, d):
    """rebuild a real object from a bindgen description (replay of cases whose written XML is not well-formed)"""
    attrs, kids = ir.flat(d["cls"])
    kw = {}
    for a in attrs:
        lex = d["attrs"].get(a["member"])
        if lex is not None:
            kw[a["member"]] = _parse_lex(a["prim"], lex)
    for k in kids:
        xs = d["kids"].get(k["member"], [])
        if k["text"]:
            if xs:
                kw[k["member"]] = xs[0]["text"]
            continue
        objs = [obj_from_desc(ir, mod, x) for x in xs]
        if k["container"]:
            kw[k["member"]] = objs
        elif objs:
            kw[k["member"]] = objs[0]
    return getattr(mod, d["cls"])(**kw)


def slot_table(gen):
    """{(owner type, tag): (maxOccurs or None, inside a choice?)} from the schema"""
    out = {}
    for t in gen.XT.values():
        for e in bindgen.emit_xsd.xsd_extract.effective_elems(t["content"]):
            out[(t["name"], e["tag"])] = (e["hi"], bool(e["choice"]))
    return out
