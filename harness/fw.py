"""Shared check framework: regenerate -> build -> audit -> correspondence/oracle -> classify -> evidence.

Run with /venv/bin/python (has the real `neuroml` from /repo installed in development mode).
"""
import fcntl
import hashlib
import importlib
import json
import os
import random
import re
import subprocess
import sys
import time
import traceback

VERIF = os.path.dirname(os.path.dirname(os.path.abspath(__file__)))
LEAN = os.path.join(VERIF, "lean")
REPO = os.environ.get("VERIF_REPO", "/repo")
EVID = os.path.join(VERIF, "evidence")
REPLAY = os.path.join(EVID, "replay")
KNOWN = os.path.join(VERIF, "known_findings.json")
GUARD = "LIBNEUROML_VERIF"

STD_AXIOMS = {"propext", "Classical.choice", "Quot.sound"}
FORBIDDEN = re.compile(
    r"\bsorry\b|\badmit\b|^\s*axiom\s|native_decide|bv_decide|implemented_by|\bunsafe\s|maxHeartbeats\s+0\b"
)

GLOBAL_TRUST = [
    "Lean 4.33.0 kernel (lake build; thorough tier re-checks the .olean files with leanchecker)",
    "axioms allowed: propext, Classical.choice, Quot.sound only (audited with #print axioms every run)",
    "the correspondence harness (canonical dumps, generators, oracles) and the Python translators are validated, not verified",
    "CPython, lxml/libxml2, PyTables/HDF5, numpy are modelled as parameters and only sampled",
]


def sh(cmd, cwd=None, timeout=None, env=None, inp=None):
    e = dict(os.environ)
    if env:
        e.update(env)
    p = subprocess.run(cmd, cwd=cwd, shell=isinstance(cmd, str), input=inp, env=e,
                       stdout=subprocess.PIPE, stderr=subprocess.STDOUT, text=True, timeout=timeout)
    return p.returncode, p.stdout


class Lock:
    """Serialise lake invocations (parallel check runs share one .lake directory)."""

    def __enter__(self):
        os.makedirs(os.path.join(LEAN, ".lake"), exist_ok=True)
        self.f = open(os.path.join(LEAN, ".lake", "verif.lock"), "w")
        fcntl.flock(self.f, fcntl.LOCK_EX)
        return self

    def __exit__(self, *a):
        fcntl.flock(self.f, fcntl.LOCK_UN)
        self.f.close()


def strip_comments(src):
    """Remove Lean block and line comments (nesting-aware) so greps see code only."""
    out = []
    i, n, depth = 0, len(src), 0
    while i < n:
        if src.startswith("/-", i):
            depth += 1
            i += 2
        elif depth and src.startswith("-/", i):
            depth -= 1
            i += 2
        elif depth:
            if src[i] == "\n":
                out.append("\n")
            i += 1
        elif src.startswith("--", i):
            while i < n and src[i] != "\n":
                i += 1
        elif src[i] == '"':
            j = i + 1
            while j < n and src[j] != '"':
                j += 2 if src[j] == "\\" else 1
            out.append('""')
            i = j + 1
        else:
            out.append(src[i])
            i += 1
    return "".join(out)


def module_path(mod):
    return os.path.join(LEAN, *mod.split(".")) + ".lean"


def imports_closure(mods):
    """Local (NmlVerif.*) modules transitively imported by `mods`."""
    seen, todo = [], list(mods)
    while todo:
        m = todo.pop()
        if m in seen or not m.startswith("NmlVerif"):
            continue
        p = module_path(m)
        if not os.path.exists(p):
            continue
        seen.append(m)
        for line in open(p):
            mm = re.match(r"\s*(?:public\s+)?import\s+([\w.]+)", line)
            if mm:
                todo.append(mm.group(1))
    return sorted(seen)


def theorems_in(mod):
    """fully qualified names of the theorems declared in a module (tracks `namespace` / `end`)."""
    src = strip_comments(open(module_path(mod)).read())
    ns, out = [], []
    for line in src.split("\n"):
        m = re.match(r"\s*namespace\s+([\w.]+)", line)
        if m:
            ns.append(m.group(1))
            continue
        m = re.match(r"\s*end\s+([\w.]+)\s*$", line)
        if m and ns and ns[-1] == m.group(1):
            ns.pop()
            continue
        m = re.match(r"\s*(?:@\[[^\]]*\]\s*)?(?:protected\s+|private\s+)?theorem\s+([^\s:({\[]+)", line)
        if m:
            out.append(".".join(ns + [m.group(1)]))
    return out


def lake_build(targets, timeout=3000):
    with Lock():
        rc, out = sh(["lake", "build"] + list(targets), cwd=LEAN, timeout=timeout)
    return rc == 0, out


def audit(mods, theorems, tag):
    """#print axioms for every theorem; returns {thm: [axioms] | None (missing)} and raw log."""
    d = os.path.join(LEAN, ".lake", "audit")
    os.makedirs(d, exist_ok=True)
    f = os.path.join(d, "Audit_%s.lean" % tag)
    with open(f, "w") as fh:
        for m in mods:
            fh.write("import %s\n" % m)
        for t in theorems:
            fh.write("#print axioms %s\n" % t)
    with Lock():
        rc, out = sh(["lake", "env", "lean", f], cwd=LEAN, timeout=1800)
    res = {}
    # outputs: "'thm' depends on axioms: [a, b]" or "'thm' does not depend on any axioms"
    flat = re.sub(r"\s+", " ", out)
    for t in theorems:
        m = re.search(r"'%s' depends on axioms: \[([^\]]*)\]" % re.escape(t), flat)
        if m:
            res[t] = [a.strip() for a in m.group(1).split(",") if a.strip()]
        elif re.search(r"'%s' does not depend on any axioms" % re.escape(t), flat):
            res[t] = []
        else:
            res[t] = None
    return res, out


def forbidden_hits(mods):
    hits = []
    for m in mods:
        src = strip_comments(open(module_path(m)).read())
        for ln, line in enumerate(src.split("\n"), 1):
            if FORBIDDEN.search(line):
                hits.append("%s:%d: %s" % (m, ln, line.strip()[:100]))
    return hits


def run_driver(name, lines, timeout=1800):
    """Pipe protocol lines to lean/Drivers/<name>.lean; returns list of output lines."""
    inp = "\n".join(lines) + "\n"
    rc, out = sh(["lake", "env", "lean", "--run", os.path.join("Drivers", name + ".lean")],
                 cwd=LEAN, inp=inp, timeout=timeout)
    res = out.split("\n")
    if res and res[-1] == "":
        res.pop()
    return rc, res


def known_findings(pid):
    """open findings for `pid` from known_findings.json and known_findings.d/*.json (both committed, never written here)"""
    files = [KNOWN] if os.path.exists(KNOWN) else []
    d = os.path.join(VERIF, "known_findings.d")
    if os.path.isdir(d):
        files += [os.path.join(d, f) for f in sorted(os.listdir(d)) if f.endswith(".json")]
    out = {}
    for f in files:
        with open(f) as fh:
            data = json.load(fh)
        for e in data.get("findings", []):
            if e["property"] == pid and e.get("status", "open") == "open":
                out[e["key"]] = e
    return out


def _anchor_functions(path, patterns):
    """{qualname: (first_body_line, last_line)} of the functions in `path` whose qualified name matches a pattern"""
    import ast, fnmatch
    out = {}
    try:
        with open(path) as fh:
            tree = ast.parse(fh.read())
    except Exception:
        return out

    def walk(node, prefix):
        for ch in ast.iter_child_nodes(node):
            if isinstance(ch, (ast.FunctionDef, ast.AsyncFunctionDef)):
                q = ".".join(prefix + [ch.name])
                if any(fnmatch.fnmatchcase(q, pat) for pat in patterns) and ch.body:
                    out[q if q not in out else "%s@%d" % (q, ch.lineno)] = (ch.body[0].lineno, ch.end_lineno)
            elif isinstance(ch, ast.ClassDef):
                walk(ch, prefix + [ch.name])
    walk(tree, [])
    return out


class AnchorCoverage:
    """statement coverage of the anchored implementation functions while the harness drives the real library"""

    def __init__(self, pid):
        self.cov, self.files = None, {}
        try:
            sys.path.insert(0, os.path.join(VERIF, "harness"))
            import anchors
            spec = anchors.ANCHORS.get(pid) or {}
            for rel, pats in spec.items():
                path = os.path.realpath(os.path.join(REPO, rel))
                if os.path.exists(path):
                    self.files[path] = (rel, pats)
            if self.files and not os.environ.get("VERIF_NO_ANCHOR_COV"):
                os.environ.setdefault("COVERAGE_CORE", "sysmon")
                import coverage
                self.cov = coverage.Coverage(data_file=None, include=list(self.files), config_file=False)
        except Exception as e:      # measurement only: never let it break a check
            self.cov, self.err = None, repr(e)

    def start(self):
        if self.cov:
            try:
                self.cov.start()
            except Exception:
                self.cov = None

    def stop(self):
        if not self.cov:
            return None
        try:
            self.cov.stop()
            res, tot, hit = {}, 0, 0
            for path, (rel, pats) in self.files.items():
                funcs = _anchor_functions(path, pats)
                try:
                    _, stmts, _, missing, _ = self.cov.analysis2(path)
                except Exception:
                    continue
                stmts, missing = set(stmts), set(missing)
                for q, (a, b) in sorted(funcs.items()):
                    body = [l for l in stmts if a <= l <= b]
                    if not body:
                        continue
                    miss = sorted(l for l in body if l in missing)
                    tot += len(body)
                    hit += len(body) - len(miss)
                    res["%s::%s" % (rel, q)] = {"statements": len(body), "hit": len(body) - len(miss),
                                                 "missed_lines": miss[:40]}
            untouched = sorted(k for k, v in res.items() if v["hit"] == 0)
            return {"functions": len(res), "statements": tot, "hit": hit,
                    "functions_never_entered": untouched[:60],
                    "per_function": {k: v for k, v in res.items() if v["hit"] and v["hit"] < v["statements"]},
                    "fully_covered": sorted(k for k, v in res.items() if v["hit"] == v["statements"])[:200],
                    "note": "statement coverage (coverage.py, in-process only) of the anchored functions of the real "
                            "library during this run's correspondence/oracle sweep; a measure of generator quality, "
                            "not a verdict"}
        except Exception as e:
            return {"error": repr(e)}


class Ctx:
    def __init__(self, pid, tier, seed):
        self.pid, self.tier, self.seed = pid, tier, seed
        self.rng = random.Random(seed * 1000003 + int(pid[1:]))
        self.failures = []      # {key, what, case}
        self.samples = []
        self.evaluations = 0
        self.nontrivial = set()
        self.dist = {}
        self.corr_evals = 0
        self.corr_disagreements = []
        self.notes = []
        self.extra = {}
        self.t0 = time.time()

    def n(self, quick, thorough):
        return thorough if self.tier == "thorough" else quick

    def count(self, k, by=1):
        self.dist[k] = self.dist.get(k, 0) + by

    def sample(self, s, cap=6):
        if len(self.samples) < cap:
            self.samples.append(s)

    def seen(self, canon, nontrivial=True):
        self.evaluations += 1
        if nontrivial:
            self.nontrivial.add(hashlib.sha1(json.dumps(canon, sort_keys=True, default=str).encode()).hexdigest())

    def fail(self, key, what, case):
        self.failures.append({"key": key, "what": what, "case": case})

    def disagree(self, stream, case, impl, model):
        self.corr_disagreements.append({"stream": stream, "case": case, "impl": impl, "model": model})


def write_replay(pid, payload):
    os.makedirs(REPLAY, exist_ok=True)
    h = hashlib.sha1(json.dumps(payload, sort_keys=True, default=str).encode()).hexdigest()[:12]
    p = os.path.join(REPLAY, "%s-%s.json" % (pid, h))
    with open(p, "w") as fh:
        json.dump(payload, fh, indent=1, default=str)
    return p


def main(argv=None):
    import argparse
    ap = argparse.ArgumentParser()
    ap.add_argument("pid")
    ap.add_argument("--tier", default=os.environ.get("VERIF_TIER", "quick"))
    ap.add_argument("--replay")
    a = ap.parse_args(argv)
    pid = a.pid.upper()
    tier = a.tier if a.tier in ("quick", "thorough") else "quick"
    seed = int(os.environ.get("VERIF_SEED", "0") or 0)
    os.environ[GUARD] = "1"
    sys.path.insert(0, os.path.join(VERIF, "harness"))
    if REPO not in sys.path:
        sys.path.insert(0, REPO)
    mod = importlib.import_module("props.%s" % pid.lower())
    ctx = Ctx(pid, tier, seed)

    if a.replay:
        case = json.load(open(a.replay))
        r = mod.replay(ctx, case)
        print(json.dumps(r, indent=1, default=str))
        return 1 if r.get("fails") else 0

    broken = []      # obligations that do not check: (name, why)
    # 1. regenerate
    gaps = []
    if hasattr(mod, "regenerate"):
        try:
            gaps = mod.regenerate(ctx) or []
        except Exception as e:  # translator could not read the source at all
            gaps = ["translator crashed: %r" % (e,)]
            ctx.notes.append(traceback.format_exc()[-1500:])
    for g in gaps:
        broken.append(("translator", g))
    # 2. build
    targets = list(mod.LEAN_PROPS) + list(getattr(mod, "LEAN_EXTRA", []))
    thorough_extra = list(getattr(mod, "LEAN_THOROUGH", [])) if tier == "thorough" else []
    ok, blog = lake_build(targets + thorough_extra)
    mods = imports_closure(targets + thorough_extra)
    theorems = []
    for m in list(mod.LEAN_PROPS) + thorough_extra:
        theorems += theorems_in(m)
    theorems += list(getattr(mod, "EXTRA_THEOREMS", []))
    discharged = []
    audit_log = ""
    if not ok:
        # find which modules failed; theorems in modules that still build are still audited
        tail = blog[-3000:]
        ctx.notes.append("lake build failed:\n" + tail)
        broken.append(("build", tail[-800:]))
        good = []
        for m in list(mod.LEAN_PROPS) + thorough_extra:
            ok1, _ = lake_build([m])
            if ok1:
                good.append(m)
        aud_mods = good
    else:
        aud_mods = list(mod.LEAN_PROPS) + thorough_extra
    aud_thms = []
    for m in aud_mods:
        aud_thms += theorems_in(m)
    aud_thms += [t for t in getattr(mod, "EXTRA_THEOREMS", []) if ok]
    if aud_thms:
        res, audit_log = audit(aud_mods, aud_thms, pid)
        for t in theorems:
            ax = res.get(t)
            if ax is None:
                broken.append(("theorem:" + t, "does not elaborate"))
            elif not set(ax) <= STD_AXIOMS:
                broken.append(("theorem:" + t, "non-standard axioms %s" % ax))
            else:
                discharged.append(t)
    else:
        for t in theorems:
            broken.append(("theorem:" + t, "module does not build"))
    hits = forbidden_hits(mods)
    for h in hits:
        broken.append(("forbidden-token", h))
    checker_cmd = "cd lean && lake build %s && lake env lean .lake/audit/Audit_%s.lean  # #print axioms" % (
        " ".join(targets + thorough_extra), pid)
    if tier == "thorough" and ok and not getattr(mod, "SKIP_LEANCHECKER", False):
        with Lock():
            rc, out = sh(["lake", "env", "leanchecker"] + list(mod.LEAN_PROPS), cwd=LEAN, timeout=3000)
        ctx.extra["leanchecker_rc"] = rc
        checker_cmd += " && lake env leanchecker %s" % " ".join(mod.LEAN_PROPS)
        if rc != 0:
            broken.append(("leanchecker", out[-500:]))

    # 3. correspondence + oracle sweep (search gets 10x budget when an obligation is broken)
    ctx.broken = broken
    ctx.search_mult = 10 if broken else 1
    acov = AnchorCoverage(pid)
    try:
        import contextlib, io
        sink = io.StringIO()
        esink = io.StringIO()
        acov.start()
        with contextlib.redirect_stdout(sink), contextlib.redirect_stderr(esink):   # the library prints/warns a lot
            mod.run(ctx)
    except Exception:
        tb = traceback.format_exc()
        ctx.notes.append("harness crashed:\n" + tb[-3000:])
        broken.append(("harness", tb[-800:]))
    finally:
        ac = acov.stop()
        if ac:
            ctx.extra["anchor_coverage"] = ac
    if os.environ.get("VERIF_DEBUG"):
        for dgr in ctx.corr_disagreements[:5]:
            print("DISAGREE", json.dumps(dgr, default=str))
    for dgr in ctx.corr_disagreements:
        broken.append(("correspondence:" + dgr["stream"], json.dumps(dgr, default=str)[:600]))

    # 4. classify
    known = known_findings(pid)
    known_seen, viol = {}, []
    for f in ctx.failures:
        if f["key"] in known:
            known_seen.setdefault(f["key"], f)
        else:
            viol.append(f)
    lines = []
    for k, f in sorted(known_seen.items()):
        lines.append("KNOWN-FINDING: property=%s %s [%s]" % (pid, known[k]["what"], k))
    nviol = 0
    if viol:
        bykey = {}
        for f in viol:
            bykey.setdefault(f["key"], f)
        for k, f in sorted(bykey.items()):
            p = write_replay(pid, {"property": pid, "seed": seed, "tier": tier, "key": k, "what": f["what"],
                                   "case": f["case"], "broken_obligations": [b[0] for b in broken]})
            lines.append("VIOLATION property=%s replay=%s" % (pid, p))
            nviol += 1
    elif broken:
        p = write_replay(pid, {"property": pid, "seed": seed, "tier": tier, "key": "obligation-broken",
                               "what": "a proof obligation or correspondence stream no longer checks; no failing input found",
                               "broken_obligations": [{"name": b[0], "detail": b[1]} for b in broken]})
        lines.append("VIOLATION property=%s replay=%s no-failing-input-found" % (pid, p))
        nviol += 1

    # 5. evidence
    level = getattr(mod, "LEVEL", "proof")
    obligations = len(theorems) + len(getattr(mod, "TABLE_OBLIGATIONS", []))
    cov = {
        "obligations": obligations,
        "discharged": len(discharged) + (len(getattr(mod, "TABLE_OBLIGATIONS", [])) if ok else 0),
        "theorems": theorems,
        "broken_obligations": sorted({b[0] for b in broken}),
        "checker_cmd": checker_cmd,
        "trusted_base": GLOBAL_TRUST + list(getattr(mod, "TRUST", [])),
        "axioms_seen": sorted({a for t in discharged for a in (res.get(t) or [])}) if aud_thms else [],
        "evaluations": ctx.evaluations,
        "distinct_nontrivial": len(ctx.nontrivial),
        "rule": getattr(mod, "RULE", ""),
        "samples": ctx.samples or ["(no sample recorded)"],
        "correspondence_evaluations": ctx.corr_evals,
        "correspondence_disagreements": len(ctx.corr_disagreements),
        "input_distribution": ctx.dist,
        "known_findings_reproduced": sorted(known_seen),
        "exhaustive": bool(ctx.extra.get("exhaustive", False)),
    }
    cov.update({k: v for k, v in ctx.extra.items() if k != "exhaustive"})
    ev = {
        "property_id": pid, "tier": tier, "seed": seed, "level": level, "coverage": cov,
        "assumptions": list(getattr(mod, "ASSUMPTIONS", [])),
        "wall_s": round(time.time() - ctx.t0, 2), "violations": nviol,
    }
    if ctx.notes:
        ev["coverage"]["notes"] = [n[-1500:] for n in ctx.notes]
    os.makedirs(EVID, exist_ok=True)
    with open(os.path.join(EVID, pid + ".json"), "w") as fh:
        json.dump(ev, fh, indent=1, default=str)
    for l in lines:
        print(l)
    print("%s tier=%s seed=%d obligations=%d discharged=%d evaluations=%d nontrivial=%d corr=%d known=%d violations=%d wall=%.1fs" % (
        pid, tier, seed, obligations, cov["discharged"], ctx.evaluations, len(ctx.nontrivial), ctx.corr_evals,
        len(known_seen), nviol, time.time() - ctx.t0))
    return 1 if nviol else 0


if __name__ == "__main__":
    sys.exit(main())
