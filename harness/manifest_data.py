NOTES = ("Family: machine-checked proof in Lean 4. Each check = (1) regenerate extracted tables from /repo, (2) lake build the "
         "property's theorems, (3) #print axioms audit + forbidden-token grep, (4) correspondence: real library vs Lean driver "
         "on the same generated inputs, (5) full-property oracle sweep on the real code (failing-input search), "
         "(6) classification against known_findings.json. See DESIGN.md.")

NOT_APPLICABLE = {}

CHECKS = {
 "C06": {
  "category": "proof",
  "technique": "Lean 4 proof (termination by measure, DFS invariant) + model/implementation correspondence",
  "design_ref": "DESIGN.md §5 C06",
  "text": ("Theorems over the include-loop model for every file system/include graph: c06_terminates(_string) (fuel |U|+1 "
           "always suffices: cycles, self loops, diamonds, missing files), c06_union(_string) (keys of the result = keys of the "
           "files reachable through include links), c06_marked_eq_reachable (each reachable file read once), c06_nodup, "
           "c06_cwd_independent; witnesses c06_unfixed_diverges (the repaired defect) and c06_h5cycle_witness (open finding). "
           "The hand model is tied to loaders.py/utils.py by a correspondence run on generated on-disk include graphs."),
  "note": ("Trusted: Lean kernel; axioms propext/Classical.choice/Quot.sound; hand model tied by sampling only; union/termination "
           "theorems assume HDF5 includes are leaves (H5Leaf); path normalisation without symlinks; single-file parsing by "
           "lxml/PyTables not modelled."),
 },
 "C01": {
  "category": "proof",
  "technique": "Lean 4 proof over a binding table regenerated from nml.py (kernel-checked WF) + export/build correspondence",
  "design_ref": "DESIGN.md §4.1, §5 C01",
  "text": ("translators/nml_extract.py reduces the 199 generated classes of nml.py to a binding table (Gen/Bindings.lean, regenerated "
           "every run; any unrecognised statement is a gap). Lean proves, for EVERY table satisfying the decidable predicate WF, that "
           "build(export o) = o for every conforming object tree of any size/depth (roundtrip, c01_roundtrip_any_table); the kernel "
           "re-checks WF on today's table each run (table_wf, decide +kernel) giving c01_roundtrip for all 199 types and all own and "
           "inherited members. The interpreter is tied to the real export/build by a correspondence stream over all 199 classes, and "
           "the full write/read property is evaluated on the real code with a MemberSpec-driven dump independent of the translator."),
  "note": ("Trusted: Lean kernel; the translator (AST shapes, canonical lexical forms of defaults); scalars modelled by their canonical "
           "lexical form so CPython float/int formatting+parsing and lxml entity decoding/attribute normalisation are trusted and sampled; "
           "xsi:type polymorphism and xs:any content outside the model; Conforms excludes out-of-range integers, TAB/CR in strings, None "
           "under a != default guard; text level: open finding C01:cdata-in-text."),
 },
 "C04": {
  "category": "proof",
  "technique": "Lean 4 proof over the regenerated binding table + variant-text correspondence",
  "design_ref": "DESIGN.md §5 C04",
  "text": ("Tree-level theorems for every well-formed table: c04_attr_order (attribute permutation), c04_ignores_text (character "
           "data/comments between children and the element's own tag), c04_explicit_default (an explicitly written default = absent "
           "attribute), c04_unknown_attr, c04_fixpoint (load-then-write reproduces the written tree, any number of cycles) and, on "
           "today's table, c04_export_pure/c04_fixpoint_table (kernel decide). Tied by the C01 translator plus a correspondence "
           "stream that feeds presentation variants of real writer output to the real build and to the model; byte stability over 3 "
           "cycles, double export and in-memory purity are checked on the real code."),
  "note": ("Trusted as C01; numeric respellings are below the tree level (CPython float()/int(), sampled); whitespace/comment handling "
           "by lxml is trusted; xs:any content excluded (open finding C04:any-content-tail-growth); namespace-prefix rewritings are not "
           "among the property's variants and are not modelled."),
 },
 "C11": {
  "category": "proof",
  "technique": "Lean 4 proof over tables regenerated from nml.py and the XSD (pinned kernel-checked obligations) + exhaustive correspondence over 199 classes",
  "design_ref": "DESIGN.md §5 C11",
  "text": ("Generic theorems for every table: c11_parentinfo_inverse ((p, m) is reported by parentinfo of c iff m is a member of p with "
           "type c), c11_info_eq_checkarg (info lists exactly what _check_arg_list accepts), c11_get_sound / c11_get_complete / c11_get_none / "
           "c11_get_empty_id_document for get_by_id on documents and networks. Per-run kernel-checked obligations on the regenerated "
           "tables, stated with the open findings PINNED so that any further disagreement breaks them: c11_info_eq_ctor_partial (info() "
           "member names = public constructor keywords for all classes but exactly the six xs:any holders) and c11_specs_agree_xsd_partial "
           "(every MemberSpec has the schema's type, required/optional status and single/list nature, but for exactly eight pinned entries). "
           "Tied by an exhaustive correspondence of the real info/parentinfo/inspect.signature/_check_arg_list with the model for all 199 "
           "classes and a get_by_id stream."),
  "note": ("Trusted: both translators; class discovery by dir(module) modelled as the list of binding classes; _get_members order-free (set). "
           "Open findings C11:any-holder, C11:choice-member-required, C11:member-type:ComponentType.Property are genuine and pinned in the "
           "theorem statements."),
 },
 "C14": {
  "category": "proof",
  "technique": "Lean 4 proof over an executable hand model + model/implementation correspondence + reference oracle",
  "design_ref": "DESIGN.md §5 C14; notes/C14.md",
  "text": ("For an executable Lean model of Cell.get_all_segments_in_group / optimise_segment_group(s) (repaired code), for ALL cells: "
           "c14_resolve_closure (resolution = transitive closure, each segment once), c14_resolve_terminates (every acyclic cell), "
           "c14_optimise_preserves / c14_optimiseAll_preserves (closure of EVERY group unchanged), c14_optimise_minimal / "
           "c14_optimiseAll_minimal (no duplicate member/include, no member an included group supplies), idempotence as equality of the "
           "whole cell, frame and totality theorems; witnesses for the two repaired defects on the old loop. Tied by an exact-equality "
           "correspondence (in memory and after an XML round trip) and an independent set-reachability oracle on the real code."),
  "note": ("Hand-written model, tie is sampled (about 4000 cases quick / 24000 thorough); natsort modelled as a stable sort by a key "
           "computed by the harness and checked against natsort on every case; lxml/generateDS parsing of member/include sampled; "
           "malformed cells (cycles, duplicate group ids) covered by correspondence only."),
 },
 "C18": {
  "category": "proof",
  "technique": "Lean 4 proof over an executable hand model + model/implementation correspondence + numpy reference oracle",
  "design_ref": "DESIGN.md §5 C18; notes/C18.md",
  "text": ("For a literal model of arraymorph.py (Python negative indexing included) and of the ArrayMorphWriter/Loader file layout: "
           "c18_toRoot / c18_toRoot_one_root / c18_root_unique (for EVERY tree, numbering, old root and new root j: the to_root loop "
           "terminates, keeps the undirected edge set and leaves exactly one root at j), c18_view_count / _endpoints / _ids / "
           "_one_per_vertex (segment view), c18_convert_eq_view (repaired conversion = view), c18_load_write_single (unconditional) and "
           "c18_load_write_doc_partial (documents with any mix of cells and stand-alone morphologies under distinct group names), with "
           "witnesses for the two repaired defects and the two open findings. Tied by a correspondence run over four streams and an "
           "independent numpy oracle on the real code."),
  "note": ("Hand-written model, sampled tie (about 2k cases quick, 23k thorough); PyTables array storage and name-sorted node iteration "
           "trusted; numpy indexing as modelled; document round trip is _partial: open findings C18:doc-cell-and-morphology-share-name "
           "and C18:doc-cell-morphology-named-vertices."),
 },
 "C02": {
  "category": "proof",
  "technique": "Lean 4 proof over tables regenerated from nml.py and the XSD (kernel-checked agreement) + libxml2 correspondence/oracle",
  "design_ref": "DESIGN.md §5 C02",
  "text": ("c02_validate_accepts: a tree every component of which satisfies the items the SCHEMA prescribes (required attributes, "
           "simple-type facets, cardinalities) is accepted by validate(recursive=True) - from the kernel-checked obligation tables_agree "
           "(validate_ checks exactly those items, class by class; same attribute/element names; children in particle order; list-ness = "
           "maxOccurs; child class = element type), facets_agree and content_order_agrees (inherited children first, pairwise distinct "
           "tags). c02_seq_word_valid / c02_children_valid: for every type whose content model is built from sequences of element "
           "particles, the child-tag word export writes for in-range counts is accepted by the sequence matcher (export_child_tags ties "
           "the word to exportObj). Types with choice groups or wildcards are decided by the libxml2 oracle only; GateKS is an open finding."),
  "note": ("Trusted: both translators; libxml2 assumed to implement the formalised subset (sampled by a content-model stream on reordered, "
           "duplicated and deleted children); simple-type validity abstract (facets compared syntactically); attribute-level XSD validity "
           "(undeclared attributes, lexical spaces) is covered by the oracle, not by a theorem; partial: choice/any content models."),
 },
 "C03": {
  "category": "proof",
  "technique": "Lean 4 proof over tables regenerated from nml.py and the XSD (kernel-checked agreement) + validate-walk correspondence + libxml2 oracle",
  "design_ref": "DESIGN.md §5 C03",
  "text": ("Model of the repaired GeneratedsSuperSuper.validate walk over the regenerated binding table. c03_any_depth_any_class: a failing "
           "generated check of ANY class in the MRO of ANY descendant (own or inherited member, any depth) makes validate(recursive=True) "
           "fail; c03_schema/c03_today lift this to every constraint the bundled XSD puts on a member (required attribute, simple-type "
           "facet, child cardinality) through the per-run kernel-checked obligations tables_agree (validate_ checks exactly the items the "
           "schema prescribes, class by class) and facets_agree (every validate_<SimpleType> copy carries the schema's facets). "
           "c03_old_walk_witness documents the repaired defect, c03_choice_required_witness the open finding. Tied by translators + a "
           "correspondence of the model walk with the real verdict on valid and single-violation trees; libxml2 is the oracle."),
  "note": ("Trusted: both translators; simple-type validity abstract in the theorems (facets compared syntactically; Python re vs XSD regex "
           "trusted for the dialect used); libxml2 as oracle; file-level wrappers sampled. Partial: required choice groups are not checked by "
           "the generated code (open finding C03:choice-required), so the full statement C03_full is refuted by a witness and c03_schema is "
           "the part that holds."),
 },
 "C07": {
  "category": "proof",
  "technique": "Lean 4 proof over a shared-state table regenerated from the loader modules (kernel-checked no-read-before-write obligation) + interleaving proof over a hand model of NetworkBuilder + history/interleaving correspondence",
  "design_ref": "DESIGN.md §5 C07; notes/C07.md",
  "text": ("translators/glue_extract.py scans loaders/utils/hdf5/nml modules on every run for shared mutable state (module globals, class "
           "attributes, mutable defaults) and summarises, per loader entry point and builder handler, which shared variables may be read "
           "before written and which may be written (Gen/Glue.lean). c07_table_ok (kernel decide, per run): no entry reads first a variable "
           "any entry writes, outside the reviewed memo cache. Generic theorems for every semantics respecting the summaries: "
           "c07_state_independent, c07_history_independent(_inv), c07_nth_call, c07_all_entries_history_independent, and "
           "c07_loaders_history_independent for today's table (the result of a call is the same after ANY two histories of calls). "
           "c07_interleaving_independent / c07_interleaving_summary / c07_builders_independent / c07_world_private: for EVERY interleaving of "
           "the handler-call sequences of two builders with per-instance tables each builder ends in the state of its solo run; "
           "c07_shared_tables_witness is the repaired defect. Tied by the translator plus a history oracle (every loader entry point, "
           "repeated and after other loads, against the same call in a fresh process) and an interleaving correspondence of real "
           "NetworkBuilder pairs with the Lean model."),
  "note": ("Trusted: the AST scan (name-based resolution, alias/escape analysis, whitelists; validated by the streams and mutation runs, "
           "not verified); that the real code Respects the extracted summaries is the translator's claim; state outside the scanned "
           "modules (warnings, logging, PyTables registry, lxml) not in the table; Model/NetBuilder.lean is a hand model tied by "
           "correspondence; sequential calls in one process, interleaving at handler-call granularity (no threads)."),
 },
 "C08": {
  "category": "proof",
  "technique": "Lean 4 proof of a syntactic protection criterion (induction on derivations) + source-to-skeleton translator + fault injection at every file-layer call of the real library vs the Lean fault semantics",
  "design_ref": "DESIGN.md §5 C08; notes/C08.md",
  "text": ("For the effect skeleton of every reader/writer entry point (NeuroMLWriter.write, NeuroMLHdf5Writer.write incl. the expanded "
           "exportHdf5 methods, ArrayMorphWriter.write, NeuroMLHdf5Loader.load [both modes, incl. NeuroMLHdf5Parser.parse/parse_group], "
           "ArrayMorphLoader.load, NeuroMLLoader.load), extracted from the source on every run, c08_gen_unprotected_subset_known decides "
           "that every unprotected place is a listed finding; c08_protected_sound / c08_gen_clean prove for every fault point k, every "
           "exception class and every data-dependent path (oracle) that a protected skeleton ends with the same open handles, the "
           "document as attached as before, and a raise whenever the fault was delivered; c08_retry: the retried call starts from the "
           "state of a first call. c08_truncated_incomplete: every strict prefix of the token stream of an element tree (also cut "
           "inside a token) is not a complete document."),
  "note": ("Trusted: Lean kernel; the translator (validated: every real file-layer call of every run is labelled with a skeleton site by "
           "stack inspection and the model run on the skeleton must reproduce calls, outcome, handle and document verdicts); un-expanded "
           "code (generateDS export, recursive parse_group, start_group/parse_dataset) is modelled as 'any number of non-opening "
           "file-layer calls, then possibly a raise' - its handle/document neutrality is observed, not proved; handles are a counter, "
           "document modification a nesting depth; 'lxml rejects an incomplete token stream' is trusted and sampled at every cut tried; "
           "OS descriptors observed via /proc/self/fd; entry points at default keyword arguments. Open finding "
           "C08:ArrayMorphWriter.write:doc-changed:id."),
 },
}


# ---- checks built from a property report (notes/Cxx.md, section "Claim"): claim text kept next to the report
import os as _os, re as _re


def _from_notes(pid):
    path = _os.path.join(_os.path.dirname(_os.path.dirname(_os.path.abspath(__file__))), "notes", pid + ".md")
    txt = open(path).read()
    m = _re.search(r"## Claim(.*?)\n## ", txt, _re.S)
    sec = m.group(1) if m else txt

    def bullet(name):
        mm = _re.search(r"\*\s*\*\*%s\*\*\s*:?(.*?)(?=\n\*\s*\*\*|\Z)" % _re.escape(name), sec, _re.S)
        return _re.sub(r"\s+", " ", mm.group(1)).strip(" :") if mm else ""
    level = bullet("level").lower()
    cat = "proof" if "proof" in level else ("translation_validation" if "translation" in level else "other")
    return {"category": cat, "technique": bullet("technique")[:300] or "Lean 4 proof + correspondence",
            "design_ref": "DESIGN.md §5 %s; notes/%s.md" % (pid, pid),
            "text": bullet("level_claimed.text") or bullet("level_claimed"), "note": bullet("level_note")}


# every property whose report has a parseable "## Claim" section takes its claim from there (the report is updated together
# with the check); the dictionary above is the fallback for properties without a report
for _p in ["C%02d" % _i for _i in range(1, 21)]:
    try:
        _c = _from_notes(_p)
        if _c["text"] and _c["note"]:
            CHECKS[_p] = _c
    except Exception as _e:      # no report / a report that cannot be parsed: keep the fallback
        pass
