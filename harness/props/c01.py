"""C01 — XML write then read returns the same component tree, for every component type.

Tie: translator (nml.py -> Gen/Bindings.lean, regenerated every run; `table_wf` re-checked by the kernel) +
correspondence (real export/build vs the table interpreter, all 199 classes) + full-property oracle on the real code.
"""
import json
import os
import shutil
import tempfile

import itertools
import sys

import bindgen
import fw
import textgen

sys.path.insert(0, os.path.join(fw.VERIF, "translators"))
import py2lean_quote  # noqa

LEAN_PROPS = ["NmlVerif.Props.C01", "NmlVerif.Props.C01Text", "NmlVerif.Props.C01Parse", "NmlVerif.Props.C01E2E"]
LEVEL = "proof"
RULE = ("for every one of the 199 binding classes: random objects through the real constructors (every own and inherited "
        "member set at least once per class per run; strings over an alphabet over-representing < > & both quote kinds newline ]]> "
        "CDATA &#10; non-ASCII; numbers over many magnitudes incl. exponent-form floats with integer mantissa, both zeros, integers "
        "beyond 2^53; lists 0-2 (thorough 0-4); depth <= 3), exported under the class's tag and rebuilt through the library's own "
        "parser; for every class and child member an object whose ONLY content is that member; trees with a past (a child obtained "
        "by reading XML moved to another slot, written, read); whole documents through NeuroMLWriter/NeuroMLLoader; escaping: every "
        "string over an 11-letter special alphabet up to length 2 (3 thorough) + corpus + random. Every case is also compared at the "
        "text level: model export+serialise vs the real bytes, model reader vs lxml, parse(serialise(t)) = t. non-trivial = at least "
        "one member set / a special character in the string; distinct = distinct canonical descriptions")
TRUST = [
    "translators translators/nml_extract.py + emit_bindings.py (AST shape recognition of the generated methods incl. export()/build() as a whole; canonical lexical forms of constructor defaults) and translators/py2lean_quote.py (statement/expression translation of quote_xml, quote_xml_aux, quote_attrib and the string/integer/boolean codecs; refuses anything outside its vocabulary)",
    "floats/doubles are modelled by their canonical lexical form: CPython %.15f / repr / float() are trusted and sampled; int() is modelled exactly on ASCII input, '%d' is Lean's Int.repr (trusted)",
    "lxml/libxml2 behaves as the XML reader model of Model/XmlText.lean (XML 1.0 end-of-line handling, tags, references, attribute-value normalisation, CDATA, comments, PIs): sampled on every written text, on hand-mangled variants and on a fixed corpus of well- and ill-formed texts",
    "the name table between the Nat-named binding level and the string-named text level is applied by the harness (bindings_names.json), not proved injective in Lean",
    "xsi:type / extensiontype_ polymorphism and xs:any content are outside the model (objects hold exactly the declared child class, no raw content); namespace prefixes and DOCTYPE are not modelled",
]
ASSUMPTIONS = [
    "Conforms: integer members hold values in the range their loader accepts (NonNegativeInteger >= 0, PositiveInteger > 0); members guarded by `!= default` are not None; text children are strings (not None)",
    "character guard of the text-level theorems: attribute values over XML Chars without TAB and CR (AttrChar), element text over XML Chars without CR (TextChar) and without a CDATA section; why: c01_attr_tab_witness, c01_attr_cr_witness, c01_text_cr_witness, c01_text_cdata_witness",
    "text level: known finding C01:cdata-in-text (a literal CDATA section inside element text is unwrapped)",
]


def regenerate(ctx):
    ctx.ir = bindgen.IR()
    info = {}
    gaps = py2lean_quote.regenerate(fw.REPO, fw.LEAN, info)
    ctx.extra.update(info)
    return list(ctx.ir.gaps) + gaps


def floats_equal_15(a, b):
    return a == b


def compare_desc(a, b, path=""):
    """first difference between two descriptions or None"""
    if a["cls"] != b["cls"]:
        return "%s: class %s vs %s" % (path, a["cls"], b["cls"])
    if a["cls"] == "#text":
        return None if (a["text"] or "") == (b["text"] or "") else "%s: text %r vs %r" % (path, a["text"], b["text"])
    for m in a["attrs"]:
        if a["attrs"][m] != b["attrs"].get(m):
            return "%s.%s: %r vs %r" % (path, m, a["attrs"][m], b["attrs"].get(m))
    for m in a["kids"]:
        xa, xb = a["kids"][m], b["kids"].get(m, [])
        if len(xa) != len(xb):
            return "%s.%s: %d vs %d children" % (path, m, len(xa), len(xb))
        for i, (x, y) in enumerate(zip(xa, xb)):
            d = compare_desc(x, y, "%s.%s[%d]" % (path, m, i))
            if d:
                return d
    return None


def has_cdata_text(d):
    if d["cls"] == "#text":
        return "<![CDATA[" in (d["text"] or "")
    return any(has_cdata_text(x) for xs in d["kids"].values() for x in xs)


def classify(ir, desc, diff):
    """classification key of a failing round trip; diff = (path, before, after)"""
    path, a, b = diff
    if (isinstance(a, list) and isinstance(b, list) and a[:2] == ["v", "str"] and b[:2] == ["v", "str"]
            and "<![CDATA[" in a[2]):
        import ast as _ast
        sa, sb = _ast.literal_eval(a[2]), _ast.literal_eval(b[2])
        if bindgen.cdata_unwrap(sa) == sb:
            return "C01:cdata-in-text"
    return "C01:roundtrip-mismatch:" + desc["cls"]


def dstr(diff):
    return "%s: %r vs %r" % diff


def tag_for(ir, cls):
    c = ir.C[cls]
    n = c.get("exportName") or cls
    return n[0].lower() + n[1:]


def one_case(ctx, ir, gen, cls, force, lines, pending, prebuilt=None):
    from lxml import etree
    mod = gen.mod
    try:
        o, desc = prebuilt if prebuilt is not None else gen.obj(cls, force=force)
    except Exception as e:  # constructor refused (should not happen for generated kwargs)
        ctx.count("ctor-raised")
        return
    tag = tag_for(ir, cls)
    nontriv = any(v is not None for v in desc["attrs"].values()) or any(desc["kids"].values())
    ctx.seen(desc, nontrivial=nontriv)
    ctx.count("cls-cases")
    case = {"cls": cls, "desc": desc}
    try:
        text = bindgen.export_text(o, tag)
    except Exception as e:
        ctx.fail("C01:export-raised:" + cls, "export raised %r" % (e,), case)
        return
    try:
        root = textgen.lib_parse(mod, text)          # the library's own parser configuration (parsexmlstring_)
        tree = bindgen.xml_to_tree(ir, root, cls)
    except Exception as e:
        ctx.fail("C01:not-well-formed:" + cls, "written XML does not parse: %r" % (e,), dict(case, text=text[:500]))
        return
    # real build of what was written
    try:
        o2 = getattr(mod, cls).factory().build(root)
    except Exception as e:
        ctx.fail("C01:build-raised:" + cls, "build of own output raised %r" % (e,), dict(case, text=text[:500]))
        return
    # full-property oracle on the real code: MemberSpec-driven dump, independent of the translator
    d = bindgen.meta_diff(bindgen.meta_dump(o), bindgen.meta_dump(o2), cls)
    if d:
        ctx.fail(classify(ir, desc, d), "write/read changed the tree: " + dstr(d), dict(case, text=text[:800]))
    try:
        desc2 = bindgen.dump(ir, mod, o2, cls)
    except Exception as e:
        ctx.disagree("binding-dump", case, repr(e), None)
        return
    # correspondence: model export vs real export; model build vs real build (tree level: text containing a CDATA
    # section is decoded differently at the text level — known finding — and is not compared here)
    if has_cdata_text(desc):
        ctx.count("skipped-cdata-in-text")
        return
    fuel = 12
    lines.append(json.dumps({"op": "export", "tag": ir.ix.get(tag, 10 ** 6), "fuel": fuel, "obj": bindgen.enc_obj(ir, desc)}))
    try:
        text0 = textgen.real_export(o, tag, "")
    except Exception:
        text0 = None
    pending.append(("export", dict(case, tag=tag, text0=text0), tree))
    lines.append(json.dumps({"op": "build", "cls": ir.ix[cls], "fuel": fuel, "node": bindgen.enc_tree(ir, tree)}))
    pending.append(("build", case, desc2))


def strip_tree(t):
    return {"tag": t["tag"], "attrs": t["attrs"], "text": t["text"] if t["text"] is not None else None,
            "children": [strip_tree(c) for c in t["children"]]}


def norm_tree_text(t):
    # an element holding a text child with no characters: lxml gives None, the model ""
    return {"tag": t["tag"], "attrs": t["attrs"], "text": (t["text"] or "") if not t["children"] and not t["attrs"] and t["text"] is not None else t["text"],
            "children": [norm_tree_text(c) for c in t["children"]]}


def flush(ctx, ir, lines, pending):
    if not lines:
        return
    rc, out = fw.run_driver("C01", lines)
    if rc != 0 or len(out) != len(lines):
        ctx.disagree("driver", "driver failed rc=%s" % rc, "\n".join(out[-3:])[:500], None)
        return
    tb = textgen.Batch("C04")
    for (kind, case, expect), l in zip(pending, out):
        ctx.corr_evals += 1
        r = json.loads(l)
        if "ok" not in r:
            ctx.disagree("binding-" + kind, case, "ok", r)
            continue
        if kind == "export":
            mt = bindgen.dec_tree(ir, r["ok"])
            got = norm_tree_text(mt)
            exp = norm_tree_text(strip_tree(expect))
            if got["tag"].startswith("?"):     # a root tag that is not a name of the table travels as an opaque number
                got["tag"] = exp["tag"]
                mt["tag"] = exp["tag"]
            if got != exp:
                ctx.disagree("binding-export", case, exp, got)
            # text level: model export + model serialiser vs the bytes the real export writes; model reader vs lxml
            if case.get("text0") is not None:
                text_streams(ctx, tb, {"cls": case["cls"], "desc": case["desc"]}, textgen.tnode_of_tree(mt), case["text0"])
                e2e_streams(ctx, ir, tb, case)
        else:
            got = bindgen.dec_obj(ir, r["ok"])
            d = compare_desc(expect, got, case["cls"]) or compare_desc(got, expect, case["cls"])
            if d:
                ctx.disagree("binding-build", case, expect, d)
    tb.flush(ctx)


def e2e_streams(ctx, ir, tb, case):
    """the very functions of the end-to-end theorem `c01_read_write`: `writeObj` (object tree -> characters) must give the
    bytes the real export writes; `readObj` (characters -> object tree, by the XML reader model and the regenerated name
    table) applied to the real text must give the object the real build gives (= the original description)"""
    cls, desc, text, tag = case["cls"], case["desc"], case["text0"], case["tag"]
    short = {"cls": cls, "desc": desc}
    known = getattr(ir, "_xml_names", None)
    if known is None:
        known = {"neuroml"}
        for c in ir.table["classes"]:
            known |= {a["xml"] for a in c.get("expAttrs", []) if a["fmt"] != "xsitype"}
            known |= {k["tag"] for k in c.get("expChildren", []) if k["kind"] != "any"}
        ir._xml_names = known
    if tag not in known or tag not in ir.ix:
        # the name table holds the element names the bindings write; a class's own default name that no parent uses
        # (e.g. basePyNNCell) is not one of them: the end-to-end functions are defined on table names only
        ctx.count("e2e-skipped-root-tag")
        return
    ctx.count("e2e-cases")

    def w(r):
        if "skip" in r:
            ctx.count("e2e-skipped-root-tag")
        elif r.get("r") != text:
            ctx.disagree("e2e-write", short, text[:600], (r.get("r") or str(r))[:600])
    tb.add({"op": "write_obj", "fuel": 12, "tag": ir.ix[tag], "obj": bindgen.enc_obj(ir, desc)}, w)

    def rd(r):
        if "ok" not in r:
            ctx.disagree("e2e-read", short, "ok", r)
            return
        got = bindgen.dec_obj(ir, r["ok"])
        d = compare_desc(desc, got, cls) or compare_desc(got, desc, cls)
        if d:
            ctx.disagree("e2e-read", short, desc, d)
    tb.add({"op": "read_obj", "fuel": 12, "cls": ir.ix[cls], "s": text}, rd)


def text_streams(ctx, tb, case, mtree, text, extra=None):
    """queue: model serialisation of `mtree` must equal `text` byte for byte; model parse of `text` must equal lxml's"""
    ctx.count("text-level-cases")

    def ser(r, case=case, text=text):
        if r.get("r") != text:
            ctx.disagree("text-serialise", case, text[:600], (r.get("r") or "")[:600])
    tb.add({"op": "serialise", "fuel": 40, "tree": mtree, "extra": extra or []}, ser)
    parse_stream(ctx, tb, case, text, expect_tree=None if extra else mtree)


def parse_stream(ctx, tb, case, text, expect_tree=None):
    """model reader vs lxml on one text (well-formed or not); with `expect_tree`: the model reader applied to the
    text must give back the model tree the text was serialised from (parse . serialise = id, sampled)"""
    try:
        lx = textgen.lx_to_tnode(textgen.lx_parse(text))
    except Exception as e:
        lx = None

    def par(r, case=case, text=text, lx=lx):
        mo = textgen.canon_model(r["ok"]) if "ok" in r else None
        if mo != lx:
            ctx.disagree("text-parse", dict(case, text=text[:600]), lx, mo)
        elif expect_tree is not None and mo != textgen.canon_model(expect_tree):
            ctx.disagree("text-roundtrip", dict(case, text=text[:600]), textgen.canon_model(expect_tree), mo)
    tb.add({"op": "parse", "s": text}, par)


def doc_roundtrip(ctx, ir, gen, n):
    """whole documents through NeuroMLWriter / NeuroMLLoader (the property's own wording)"""
    import neuroml.loaders as L
    import neuroml.writers as W
    tmp = tempfile.mkdtemp(prefix="verif_c01_")
    try:
        for i in range(n):
            o, desc = gen.obj("NeuroMLDocument")
            p = os.path.join(tmp, "d%d.nml" % i)
            ctx.seen(desc, nontrivial=any(desc["kids"].values()))
            ctx.count("doc-cases")
            try:
                W.NeuroMLWriter.write(o, p)
                o2 = L.NeuroMLLoader.load(p)
            except Exception as e:
                ctx.fail("C01:doc-raised", "writer/loader raised %r" % (e,), {"cls": "NeuroMLDocument", "desc": desc})
                continue
            d = bindgen.meta_diff(bindgen.meta_dump(o), bindgen.meta_dump(o2), "NeuroMLDocument")
            if d:
                ctx.fail(classify(ir, desc, d), "write/read changed the document: " + dstr(d), {"cls": "NeuroMLDocument", "desc": desc})
    finally:
        shutil.rmtree(tmp, ignore_errors=True)


CORPUS = [
    {"cls": "NeuroMLDocument", "kw": {"id": "d", "notes": "x<![CDATA[zz]]>y"}},      # KNOWN FINDING cdata-in-text
    {"cls": "SegmentParent", "kw": {"segments": 3, "fraction_along": 1.0}},
    {"cls": "SegmentParent", "kw": {"segments": 3, "fraction_along": 0.5}},
    {"cls": "Segment", "kw": {"id": 1, "name": "a\"b'c<&>\nd"}},
    {"cls": "Property", "kw": {"tag": "both \" and '", "value": "first line\nsecond line & more &#10; <x/> ]]>"}},
    {"cls": "NeuroMLDocument", "kw": {"id": "d", "notes": ""}},
    {"cls": "NeuroMLDocument", "kw": {"id": "d", "notes": "  a\n\tb ]]> <![CDATA[ &amp; "}},
    {"cls": "NeuroMLDocument", "kw": {"id": "d", "notes": "   "}},                       # white space only: significant
    {"cls": "Point3DWithDiam", "kw": {"x": 0.0, "y": -0.0, "z": 1e-07, "diameter": 1e16}},
    {"cls": "Point3DWithDiam", "kw": {"x": float("inf"), "y": float("-inf"), "z": float("nan"), "diameter": 1.0}},   # xs:double
    {"cls": "SegmentParent", "kw": {"segments": 0, "fraction_along": float("nan")}},                                # xs:float
    {"cls": "Connection", "kw": {"id": 0, "pre_cell_id": "../p/0/c", "post_cell_id": "../p/1/c", "pre_fraction_along": 1e-07,
                                 "post_fraction_along": 2e-06}},
]

QUOTE_CORPUS = ["", "a", "\"", "'", "\"'", "'\"", "a\"b'c", "<", ">", "&", "\n", "a\nb", "&#10;", "&amp;", "&quot;", "]]>", "<![CDATA[",
                "x<![CDATA[zz]]>y", "<![CDATA[a]]><![CDATA[b]]>", "<![CDATA[]]>", "é", "\U0001F600", " ", "  a  ", "a=b", "%s", "%", "\\",
                "first line\nsecond line & more", "O'Brien's \"fast\" channel", "a\tb", "a\rb", "a\r\nb", "\x7f", "\x85", " "]
Q_ALPHA = ["a", '"', "'", "<", ">", "&", "\n", " ", "]", ";", "#"]


def in_attr_guard(s):
    return all((ord(c) >= 0x20 or c == "\n") and ord(c) not in (0xFFFE, 0xFFFF) for c in s)


def in_text_guard(s):
    return all((ord(c) >= 0x20 or c in "\n\t") and ord(c) not in (0xFFFE, 0xFFFF) for c in s)


def quote_stream(ctx, tb, strings):
    """escaping: real quote_attrib / quote_xml vs the regenerated definitions; lxml reading vs the model reader;
    full-property oracle: what lxml reads back is the original string"""
    import neuroml.nml.nml as mod
    from lxml import etree
    for s in strings:
        ctx.seen({"quote": s}, nontrivial=any(c in s for c in "<>&\"'\n"))
        ctx.count("quote-strings")
        case = {"kind": "quote", "s": s}
        try:
            qa, qx = mod.quote_attrib(s), mod.quote_xml(s)
        except Exception as e:
            ctx.fail("C01:quote-raised", repr(e), case)
            continue

        def cmp(real, stream, case=case):
            def k(r):
                if r.get("r") != real:
                    ctx.disagree(stream, case, real, r.get("r"))
            return k
        tb.add({"op": "quote_attrib", "s": s}, cmp(qa, "gen-quote_attrib"))
        tb.add({"op": "quote_xml", "s": s}, cmp(qx, "gen-quote_xml"))
        try:
            el = etree.fromstring(("<a v=%s>%s</a>" % (qa, qx)).encode("utf-8"))
            la, lt = el.get("v"), (el.text or "")
        except Exception as e:
            la = lt = None
            if in_attr_guard(s) and in_text_guard(s):
                ctx.fail("C01:quote-not-well-formed", "what quote_attrib/quote_xml wrote does not parse: %r" % (e,),
                         dict(case, written="<a v=%s>%s</a>" % (qa, qx)))
        tb.add({"op": "read_attr", "s": qa}, cmp(la, "reader-attr") if la is not None or not in_attr_guard(s) else (lambda r: None))
        if "<![CDATA[" not in s:
            tb.add({"op": "read_text", "s": qx}, cmp(lt, "reader-text") if lt is not None or not in_text_guard(s) else (lambda r: None))
        if la is None:
            continue
        if in_attr_guard(s) and la != s:
            ctx.fail("C01:quote-roundtrip:attribute", "attribute value %r is read back as %r" % (s, la), dict(case, written=qa))
        if in_text_guard(s) and "\r" not in s and lt != s:
            if "<![CDATA[" in s and bindgen.cdata_unwrap(s) == lt:
                ctx.fail("C01:cdata-in-text", "text %r is read back as %r" % (s, lt), dict(case, written=qx))
            else:
                ctx.fail("C01:quote-roundtrip:text", "element text %r is read back as %r" % (s, lt), dict(case, written=qx))


def read_back(mod, cls, text):
    return getattr(mod, cls).factory().build(textgen.lib_parse(mod, text))


def slots_by_class(ir):
    """child class -> [(parent class, member, tag, container)] over all non-text, non-polymorphic child members"""
    out = {}
    for c in ir.table["classes"]:
        for k in ir.flat(c["name"])[1]:
            if not k["text"] and k["cls"] and not k["poly"]:
                out.setdefault(k["cls"], []).append((c["name"], k["member"], k["tag"], k["container"]))
    return out


def past_tree_case(ctx, ir, gen, parent, src, dst, tb=None, pid="C01"):
    """a tree with a past: a child object obtained by READING XML under tag `src` is moved to the slot `dst` (another
    member / another tag) of a `parent` object, then written and read again; the object must arrive in that slot"""
    mod = gen.mod
    (p1, m1, t1, c1), (p2, m2, t2, c2) = src, dst
    cls = next(k["cls"] for k in ir.flat(p1)[1] if k["member"] == m1)
    try:
        child, _ = gen.obj(cls, depth=2)
        donor = getattr(mod, p1)(**{m1: [child] if c1 else child})
        read_donor = read_back(mod, p1, textgen.real_export(donor, tag_for(ir, p1), ""))
        moved = getattr(read_donor, m1)
        moved = moved[0] if c1 else moved
        if p2 == p1 and parent is None:
            target = read_donor
            setattr(target, m1, [] if c1 else None)
        else:
            target = getattr(mod, p2)()
        setattr(target, m2, [moved] if c2 else moved)
    except Exception as e:
        ctx.count("past-ctor-raised")
        return
    case = {"kind": "past", "child": cls, "src": [p1, m1, t1], "dst": [p2, m2, t2], "desc": bindgen.dump(ir, mod, child, cls)}
    ctx.seen(case, nontrivial=True)
    ctx.count("past-tree-cases")
    before = bindgen.meta_dump(target)
    try:
        text = textgen.real_export(target, tag_for(ir, p2), "")
        again = read_back(mod, p2, text)
    except Exception as e:
        ctx.fail(pid + ":past-tree-raised:" + p2, "write/read of a re-arranged read tree raised %r" % (e,), case)
        return
    d = bindgen.meta_diff(before, bindgen.meta_dump(again), p2)
    if d:
        ctx.fail(pid + ":past-tree-mismatch:%s.%s" % (p2, m2),
                 "a %s read as <%s> and moved to %s.%s is not read back there: %s" % (cls, t1, p2, m2, dstr(d)), dict(case, text=text[:600]))
    elif tb is not None:
        # the model knows no `original_tagname_`: its export of the re-arranged tree must give the same bytes
        try:
            desc = bindgen.dump(ir, mod, target, p2)
            if not has_cdata_text(desc):
                def cont(r, case=case, text=text, tag=tag_for(ir, p2)):
                    if "ok" not in r:
                        ctx.disagree("binding-export", case, "ok", r)
                        return
                    mt = bindgen.dec_tree(ir, r["ok"])
                    if mt["tag"].startswith("?"):
                        mt["tag"] = tag
                    tb2 = textgen.Batch("C04")
                    text_streams(ctx, tb2, case, textgen.tnode_of_tree(mt), text)
                    tb2.flush(ctx)
                tb.add({"op": "export", "tag": ir.ix.get(tag_for(ir, p2), 10 ** 6), "fuel": 12, "obj": bindgen.enc_obj(ir, desc)}, cont)
        except Exception as e:
            ctx.disagree("binding-dump", case, repr(e), None)


def past_trees(ctx, ir, gen, n_cross, pid="C01"):
    tb = textgen.Batch("C01")
    slots = slots_by_class(ir)
    for cls, sl in sorted(slots.items()):
        # inside one parent: every ordered pair of distinct members holding the same class
        for a, b in itertools.permutations(sl, 2):
            if a[0] == b[0] and a[2] != b[2]:
                past_tree_case(ctx, ir, gen, None, a, b, tb, pid)
    cross = [(a, b) for cls, sl in sorted(slots.items()) for a, b in itertools.permutations(sl, 2) if a[2] != b[2] and a[0] != b[0]]
    for a, b in (ctx.rng.sample(cross, min(len(cross), n_cross))):
        past_tree_case(ctx, ir, gen, "fresh", a, b, tb, pid)
    tb.flush(ctx)
    ctx.extra["past_tree_slot_pairs"] = {"same_parent": sum(1 for cls, sl in slots.items() for a, b in itertools.permutations(sl, 2)
                                                           if a[0] == b[0] and a[2] != b[2]), "cross_parent": len(cross)}


def only_one_kid(ctx, ir, gen, lines, pending, classes, every):
    """for every class and every child member: an object whose ONLY content is that member (all other children absent);
    this is the input that exposes a child member missing from has__content / _exportChildren / _buildChildren"""
    saved = gen.p_kid
    n = 0
    for cls in classes:
        attrs, kids = ir.flat(cls)
        for k in kids:
            if not (k["text"] or k["cls"]):
                continue
            if not every and ctx.rng.random() > 0.5:
                continue
            gen.p_kid = 0.0
            try:
                pre = gen.obj(cls, force=k["member"])
            except Exception:
                ctx.count("ctor-raised")
                continue
            finally:
                gen.p_kid = saved
            one_case(ctx, ir, gen, cls, k["member"], lines, pending, prebuilt=pre)
            ctx.count("only-one-kid-cases")
            n += 1
    return n


def doc_bytes(ctx, ir, gen, n):
    """whole documents through NeuroMLWriter: the bytes of the file vs the model (export + serialiser + the writer's
    namespace definitions); the model reader vs lxml on the file"""
    import neuroml.writers as W
    nsdef = textgen.writer_nsdef()
    ex = textgen.nsdef_extra(nsdef) if nsdef is not None else None
    if not ex or ex[1] != "":
        ctx.disagree("writer-nsdef", "namespacedef of NeuroMLWriter.write is not a list of attributes", repr(nsdef), None)
        return
    tb = textgen.Batch("C01")
    tmp = tempfile.mkdtemp(prefix="verif_c01b_")
    try:
        done = 0
        for i in range(20 * n):
            if done >= n:
                break
            o, desc = gen.obj("NeuroMLDocument")
            if has_cdata_text(desc):
                continue
            done += 1
            p = os.path.join(tmp, "b%d.nml" % i)
            W.NeuroMLWriter.write(o, p)
            text = open(p, encoding="utf-8").read()
            case = {"cls": "NeuroMLDocument", "desc": desc, "via": "NeuroMLWriter"}
            ctx.count("doc-bytes-cases")

            def cont(r, case=case, text=text):
                if "ok" not in r:
                    ctx.disagree("binding-export", case, "ok", r)
                    return
                mt = bindgen.dec_tree(ir, r["ok"])
                if mt["tag"].startswith("?"):
                    mt["tag"] = "neuroml"
                tb2 = textgen.Batch("C04")
                text_streams(ctx, tb2, case, textgen.tnode_of_tree(mt), text, extra=ex[0])
                tb2.flush(ctx)
            tb.add({"op": "export", "tag": ir.ix.get("neuroml", 10 ** 6), "fuel": 12, "obj": bindgen.enc_obj(ir, desc)}, cont)
    finally:
        shutil.rmtree(tmp, ignore_errors=True)
    tb.flush(ctx)


def run(ctx):
    ir = getattr(ctx, "ir", None) or bindgen.IR()
    import neuroml.nml.nml as mod
    lines, pending = [], []
    gen = textgen.TGen(ir, ctx.rng, special=True, max_depth=ctx.n(2, 3), max_list=ctx.n(2, 4))
    # corpus first
    for c in CORPUS:
        o = getattr(mod, c["cls"])(**c["kw"])
        one_case(ctx, ir, gen, c["cls"], None, lines, pending, prebuilt=(o, bindgen.dump(ir, mod, o, c["cls"])))
    # escaping: corpus, every string over the special alphabet up to length 3 (4 when an obligation is broken), random
    tb = textgen.Batch("C04")
    strings = list(QUOTE_CORPUS)
    for n in range(1, 4 if ctx.search_mult == 1 else 5):
        if n <= 2 or ctx.tier == "thorough" or ctx.search_mult > 1:
            strings += ["".join(t) for t in itertools.product(Q_ALPHA, repeat=n)]
        else:
            strings += ["".join(ctx.rng.choice(Q_ALPHA) for _ in range(n)) for _ in range(300)]
    strings += [textgen.rand_attr_string(ctx.rng, tab=True) for _ in range(ctx.n(300, 3000))]
    strings += [textgen.rand_text_string(ctx.rng, cdata=True) for _ in range(ctx.n(100, 1000))]
    quote_stream(ctx, tb, strings)
    for t in textgen.MALFORMED + textgen.WELLFORMED_EXTRA:
        ctx.count("fixed-parse-texts")
        parse_stream(ctx, tb, {"kind": "fixed-text"}, t)
    tb.flush(ctx)
    per = ctx.n(3, 40) * ctx.search_mult
    classes = [c["name"] for c in ir.table["classes"]]
    members_hit = 0
    members_hit += only_one_kid(ctx, ir, gen, lines, pending, classes, every=(ctx.tier == "thorough" or ctx.search_mult > 1))
    flush(ctx, ir, lines, pending)
    lines, pending = [], []
    for cls in classes:
        attrs, kids = ir.flat(cls)
        forced = [a["member"] for a in attrs] + [k["member"] for k in kids if k["text"] or k["cls"]]
        # every member forced once (thorough) / a rotating subset (quick)
        todo = forced if ctx.tier == "thorough" else ctx.rng.sample(forced, min(len(forced), 3))
        for f in todo:
            one_case(ctx, ir, gen, cls, f, lines, pending)
            members_hit += 1
        for _ in range(per):
            one_case(ctx, ir, gen, cls, None, lines, pending)
        if len(lines) > 4000:
            flush(ctx, ir, lines, pending)
            lines, pending = [], []
    flush(ctx, ir, lines, pending)
    past_trees(ctx, ir, gen, ctx.n(60, 600))
    doc_roundtrip(ctx, ir, gen, ctx.n(15, 200) * ctx.search_mult)
    doc_bytes(ctx, ir, gen, ctx.n(6, 40))
    ctx.extra["classes_covered"] = len(classes)
    ctx.extra["members_forced"] = members_hit
    ctx.extra["translator_shapes"] = {"classes": len(classes), "opaque_statements": len(ir.gaps)}
    ctx.sample({"cls": "SegmentParent", "desc": {"attrs": {"segments": "3", "fraction_along": "0.5"}}})
    ctx.sample({"kind": "quote", "s": "O'Brien's \"fast\" channel\n<&>"})
    ctx.sample({"kind": "past", "child": "Point3DWithDiam", "src": ["Segment", "distal", "distal"], "dst": ["Segment", "proximal", "proximal"]})


def build_from_desc(ir, mod, d):
    if d["cls"] == "#text":
        return d["text"]
    attrs, kids = ir.flat(d["cls"])
    kw = {}
    for a in attrs:
        v = d["attrs"].get(a["member"])
        if v is not None:
            kw[a["member"]] = {"int": int, "float": float, "double": float, "bool": (lambda x: x == "true")}.get(a["prim"], str)(v)
    for k in kids:
        xs = [build_from_desc(ir, mod, x) for x in d["kids"].get(k["member"], [])]
        if xs:
            kw[k["member"]] = xs if k["container"] else xs[0]
    return getattr(mod, d["cls"])(**kw)


def replay(ctx, payload):
    ir = bindgen.IR()
    import neuroml.nml.nml as mod
    from lxml import etree
    case = payload["case"]
    if case.get("kind") == "quote":
        s = case["s"]
        qa, qx = mod.quote_attrib(s), mod.quote_xml(s)
        try:
            el = etree.fromstring(("<a v=%s>%s</a>" % (qa, qx)).encode("utf-8"))
            la, lt = el.get("v"), (el.text or "")
        except Exception as e:
            return {"fails": True, "string": s, "written": "<a v=%s>%s</a>" % (qa, qx), "error": repr(e)}
        return {"fails": la != s or lt != s, "string": s, "attribute_read_back": la, "text_read_back": lt,
                "written": "<a v=%s>%s</a>" % (qa, qx)}
    if case.get("kind") == "past":
        (p1, m1, t1), (p2, m2, t2) = case["src"], case["dst"]
        c1 = next(k["container"] for k in ir.flat(p1)[1] if k["member"] == m1)
        c2 = next(k["container"] for k in ir.flat(p2)[1] if k["member"] == m2)
        child = build_from_desc(ir, mod, case["desc"])
        donor = getattr(mod, p1)(**{m1: [child] if c1 else child})
        rd = read_back(mod, p1, textgen.real_export(donor, tag_for(ir, p1), ""))
        moved = getattr(rd, m1)
        moved = moved[0] if c1 else moved
        if p1 == p2:
            target = rd
            setattr(target, m1, [] if c1 else None)
        else:
            target = getattr(mod, p2)()
        setattr(target, m2, [moved] if c2 else moved)
        before = bindgen.meta_dump(target)
        text = textgen.real_export(target, tag_for(ir, p2), "")
        d = bindgen.meta_diff(before, bindgen.meta_dump(read_back(mod, p2, text)), p2)
        return {"fails": bool(d), "difference": dstr(d) if d else None, "xml": text[:1000],
                "steps": "build %s, write, read, move %s.%s -> %s.%s, write, read" % (p1, p1, m1, p2, m2)}
    desc = case["desc"]
    o = build_from_desc(ir, mod, desc)
    text = bindgen.export_text(o, tag_for(ir, desc["cls"]))
    o2 = getattr(mod, desc["cls"]).factory().build(etree.fromstring(text.encode("utf-8")))
    d = bindgen.meta_diff(bindgen.meta_dump(o), bindgen.meta_dump(o2), desc["cls"])
    return {"fails": bool(d), "difference": dstr(d) if d else None, "xml": text[:1000]}
