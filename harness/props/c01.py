"""C01 — XML write then read returns the same component tree, for every component type.

Tie: translator (nml.py -> Gen/Bindings.lean, regenerated every run; `table_wf` re-checked by the kernel) +
correspondence (real export/build vs the table interpreter, all 199 classes) + full-property oracle on the real code.
"""
import json
import os
import shutil
import tempfile

import bindgen
import fw

LEAN_PROPS = ["NmlVerif.Props.C01"]
LEVEL = "proof"
RULE = ("for every one of the 199 binding classes: random objects through the real constructors (every own and inherited "
        "member set at least once per class per run; strings over an alphabet over-representing < > & quotes newline ]]> CDATA; "
        "numbers over many magnitudes; lists 0-2 (thorough 0-4); depth <= 3), exported under the class's tag and rebuilt; plus "
        "whole documents through NeuroMLWriter/NeuroMLLoader. non-trivial = at least one member set; distinct = distinct "
        "canonical descriptions")
TRUST = [
    "translator translators/nml_extract.py + emit_bindings.py (AST shape recognition of the generated methods; canonical lexical forms of constructor defaults)",
    "scalars are modelled by their canonical lexical form: CPython float formatting/parsing (%.15f, repr) and int() are trusted and sampled, not proved",
    "lxml/libxml2 tokenising, entity decoding and attribute-value normalisation are trusted and sampled",
    "xsi:type / extensiontype_ polymorphism and xs:any content are outside the model (objects hold exactly the declared child class, no raw content)",
]
ASSUMPTIONS = [
    "Conforms: integer members hold values in the range their loader accepts (NonNegativeInteger >= 0, PositiveInteger > 0); strings contain no TAB/CR (XML attribute-value normalisation); members guarded by `!= default` are not None",
    "text level: known finding C01:cdata-in-text (a literal CDATA section inside element text is unwrapped)",
]


def regenerate(ctx):
    ctx.ir = bindgen.IR()
    return list(ctx.ir.gaps)


def floats_equal_15(a, b):
    return a == b


def compare_desc(a, b, path=""):
    """first difference between two descriptions or None"""
    if a["cls"] != b["cls"]:
        return "%s: class %s vs %s" % (path, a["cls"], b["cls"])
    if a["cls"] == "#text":
        return None if (a["text"] or "") == (b["text"] or "") else "%s: text %r vs %r" % (path, a["text"], b["text"])
    for m in a["attrs"]:
        if a["attrs"][m] != b["attrs"].get(m):
            return "%s.%s: %r vs %r" % (path, m, a["attrs"][m], b["attrs"].get(m))
    for m in a["kids"]:
        xa, xb = a["kids"][m], b["kids"].get(m, [])
        if len(xa) != len(xb):
            return "%s.%s: %d vs %d children" % (path, m, len(xa), len(xb))
        for i, (x, y) in enumerate(zip(xa, xb)):
            d = compare_desc(x, y, "%s.%s[%d]" % (path, m, i))
            if d:
                return d
    return None


def has_cdata_text(d):
    if d["cls"] == "#text":
        return "<![CDATA[" in (d["text"] or "")
    return any(has_cdata_text(x) for xs in d["kids"].values() for x in xs)


def classify(ir, desc, diff):
    """classification key of a failing round trip; diff = (path, before, after)"""
    path, a, b = diff
    if (isinstance(a, list) and isinstance(b, list) and a[:2] == ["v", "str"] and b[:2] == ["v", "str"]
            and "<![CDATA[" in a[2]):
        import ast as _ast
        sa, sb = _ast.literal_eval(a[2]), _ast.literal_eval(b[2])
        if bindgen.cdata_unwrap(sa) == sb:
            return "C01:cdata-in-text"
    return "C01:roundtrip-mismatch:" + desc["cls"]


def dstr(diff):
    return "%s: %r vs %r" % diff


def tag_for(ir, cls):
    c = ir.C[cls]
    n = c.get("exportName") or cls
    return n[0].lower() + n[1:]


def one_case(ctx, ir, gen, cls, force, lines, pending, prebuilt=None):
    from lxml import etree
    mod = gen.mod
    try:
        o, desc = prebuilt if prebuilt is not None else gen.obj(cls, force=force)
    except Exception as e:  # constructor refused (should not happen for generated kwargs)
        ctx.count("ctor-raised")
        return
    tag = tag_for(ir, cls)
    nontriv = any(v is not None for v in desc["attrs"].values()) or any(desc["kids"].values())
    ctx.seen(desc, nontrivial=nontriv)
    ctx.count("cls-cases")
    case = {"cls": cls, "desc": desc}
    try:
        text = bindgen.export_text(o, tag)
    except Exception as e:
        ctx.fail("C01:export-raised:" + cls, "export raised %r" % (e,), case)
        return
    try:
        root = etree.fromstring(text.encode("utf-8"), parser=etree.XMLParser(remove_comments=True))
        tree = bindgen.xml_to_tree(ir, root, cls)
    except Exception as e:
        ctx.fail("C01:not-well-formed:" + cls, "written XML does not parse: %r" % (e,), dict(case, text=text[:500]))
        return
    # real build of what was written
    try:
        o2 = getattr(mod, cls).factory().build(root)
    except Exception as e:
        ctx.fail("C01:build-raised:" + cls, "build of own output raised %r" % (e,), dict(case, text=text[:500]))
        return
    # full-property oracle on the real code: MemberSpec-driven dump, independent of the translator
    d = bindgen.meta_diff(bindgen.meta_dump(o), bindgen.meta_dump(o2), cls)
    if d:
        ctx.fail(classify(ir, desc, d), "write/read changed the tree: " + dstr(d), dict(case, text=text[:800]))
    try:
        desc2 = bindgen.dump(ir, mod, o2, cls)
    except Exception as e:
        ctx.disagree("binding-dump", case, repr(e), None)
        return
    # correspondence: model export vs real export; model build vs real build (tree level: text containing a CDATA
    # section is decoded differently at the text level — known finding — and is not compared here)
    if has_cdata_text(desc):
        ctx.count("skipped-cdata-in-text")
        return
    fuel = 12
    lines.append(json.dumps({"op": "export", "tag": ir.ix.get(tag, 10 ** 6), "fuel": fuel, "obj": bindgen.enc_obj(ir, desc)}))
    pending.append(("export", case, tree))
    lines.append(json.dumps({"op": "build", "cls": ir.ix[cls], "fuel": fuel, "node": bindgen.enc_tree(ir, tree)}))
    pending.append(("build", case, desc2))


def strip_tree(t):
    return {"tag": t["tag"], "attrs": t["attrs"], "text": t["text"] if t["text"] is not None else None,
            "children": [strip_tree(c) for c in t["children"]]}


def norm_tree_text(t):
    # an element holding a text child with no characters: lxml gives None, the model ""
    return {"tag": t["tag"], "attrs": t["attrs"], "text": (t["text"] or "") if not t["children"] and not t["attrs"] and t["text"] is not None else t["text"],
            "children": [norm_tree_text(c) for c in t["children"]]}


def flush(ctx, ir, lines, pending):
    if not lines:
        return
    rc, out = fw.run_driver("C01", lines)
    if rc != 0 or len(out) != len(lines):
        ctx.disagree("driver", "driver failed rc=%s" % rc, "\n".join(out[-3:])[:500], None)
        return
    for (kind, case, expect), l in zip(pending, out):
        ctx.corr_evals += 1
        r = json.loads(l)
        if "ok" not in r:
            ctx.disagree("binding-" + kind, case, "ok", r)
            continue
        if kind == "export":
            got = norm_tree_text(bindgen.dec_tree(ir, r["ok"]))
            exp = norm_tree_text(strip_tree(expect))
            if got["tag"].startswith("?"):     # a root tag that is not a name of the table travels as an opaque number
                got["tag"] = exp["tag"]
            if got != exp:
                ctx.disagree("binding-export", case, exp, got)
        else:
            got = bindgen.dec_obj(ir, r["ok"])
            d = compare_desc(expect, got, case["cls"]) or compare_desc(got, expect, case["cls"])
            if d:
                ctx.disagree("binding-build", case, expect, d)


def doc_roundtrip(ctx, ir, gen, n):
    """whole documents through NeuroMLWriter / NeuroMLLoader (the property's own wording)"""
    import neuroml.loaders as L
    import neuroml.writers as W
    tmp = tempfile.mkdtemp(prefix="verif_c01_")
    try:
        for i in range(n):
            o, desc = gen.obj("NeuroMLDocument")
            p = os.path.join(tmp, "d%d.nml" % i)
            ctx.seen(desc, nontrivial=any(desc["kids"].values()))
            ctx.count("doc-cases")
            try:
                W.NeuroMLWriter.write(o, p)
                o2 = L.NeuroMLLoader.load(p)
            except Exception as e:
                ctx.fail("C01:doc-raised", "writer/loader raised %r" % (e,), {"cls": "NeuroMLDocument", "desc": desc})
                continue
            d = bindgen.meta_diff(bindgen.meta_dump(o), bindgen.meta_dump(o2), "NeuroMLDocument")
            if d:
                ctx.fail(classify(ir, desc, d), "write/read changed the document: " + dstr(d), {"cls": "NeuroMLDocument", "desc": desc})
    finally:
        shutil.rmtree(tmp, ignore_errors=True)


CORPUS = [
    {"cls": "NeuroMLDocument", "kw": {"id": "d", "notes": "x<![CDATA[zz]]>y"}},      # KNOWN FINDING cdata-in-text
    {"cls": "SegmentParent", "kw": {"segments": 3, "fraction_along": 1.0}},
    {"cls": "SegmentParent", "kw": {"segments": 3, "fraction_along": 0.5}},
    {"cls": "Segment", "kw": {"id": 1, "name": "a\"b'c<&>\nd"}},
]


def run(ctx):
    ir = getattr(ctx, "ir", None) or bindgen.IR()
    import neuroml.nml.nml as mod
    lines, pending = [], []
    gen = bindgen.Gen(ir, ctx.rng, special=True, max_depth=ctx.n(2, 3), max_list=ctx.n(2, 4))
    # corpus first
    for c in CORPUS:
        o = getattr(mod, c["cls"])(**c["kw"])
        one_case(ctx, ir, gen, c["cls"], None, lines, pending, prebuilt=(o, bindgen.dump(ir, mod, o, c["cls"])))
    per = ctx.n(3, 40) * ctx.search_mult
    classes = [c["name"] for c in ir.table["classes"]]
    members_hit = 0
    for cls in classes:
        attrs, kids = ir.flat(cls)
        forced = [a["member"] for a in attrs] + [k["member"] for k in kids if k["text"] or k["cls"]]
        # every member forced once (thorough) / a rotating subset (quick)
        todo = forced if ctx.tier == "thorough" else ctx.rng.sample(forced, min(len(forced), 3))
        for f in todo:
            one_case(ctx, ir, gen, cls, f, lines, pending)
            members_hit += 1
        for _ in range(per):
            one_case(ctx, ir, gen, cls, None, lines, pending)
        if len(lines) > 4000:
            flush(ctx, ir, lines, pending)
            lines, pending = [], []
    flush(ctx, ir, lines, pending)
    doc_roundtrip(ctx, ir, gen, ctx.n(15, 200) * ctx.search_mult)
    ctx.extra["classes_covered"] = len(classes)
    ctx.extra["members_forced"] = members_hit
    ctx.extra["translator_shapes"] = {"classes": len(classes), "opaque_statements": len(ir.gaps)}
    ctx.sample({"cls": "SegmentParent", "desc": {"attrs": {"segments": "3", "fraction_along": "0.5"}}})


def replay(ctx, payload):
    ir = bindgen.IR()
    import neuroml.nml.nml as mod
    case = payload["case"]
    desc = case["desc"]

    def build(d):
        if d["cls"] == "#text":
            return d["text"]
        attrs, kids = ir.flat(d["cls"])
        kw = {}
        for a in attrs:
            v = d["attrs"].get(a["member"])
            if v is not None:
                kw[a["member"]] = {"int": int, "float": float, "double": float}.get(a["prim"], str)(v)
        for k in kids:
            xs = [build(x) for x in d["kids"].get(k["member"], [])]
            if xs:
                kw[k["member"]] = xs if k["container"] else xs[0]
        return getattr(mod, d["cls"])(**kw)
    from lxml import etree
    o = build(desc)
    text = bindgen.export_text(o, tag_for(ir, desc["cls"]))
    o2 = getattr(mod, desc["cls"]).factory().build(etree.fromstring(text.encode("utf-8")))
    d = bindgen.meta_diff(bindgen.meta_dump(o), bindgen.meta_dump(o2), desc["cls"])
    return {"fails": bool(d), "difference": dstr(d) if d else None, "xml": text[:1000]}
