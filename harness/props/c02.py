"""C02 — schema-conforming trees pass validate() and are written as schema-valid XML.

Tie: translators (nml.py, XSD; `tables_agree`, `content_order_agrees`, `facets_agree` kernel-checked per run) +
correspondence (model validate walk vs real verdict; sequence matcher vs libxml2 on mutated child orders) + oracle.
"""
import copy
import json
import os
import shutil
import tempfile

import bindgen
import fw
from props import c03

LEAN_PROPS = ["NmlVerif.Props.C02"]
LEVEL = "proof"
RULE = ("schema-conforming trees drawn from the XSD value spaces (patterns via a regex sampler, enumerations, ranges, "
        "cardinalities, one branch per choice), every one of the 199 types as root and as descendant (depth <= 3): real "
        "validate(recursive=True) must accept and libxml2 must accept the component written on its own under a probe element of "
        "its type; whole documents through NeuroMLWriter against the bundled XSD. Content-model stream: the root's children are "
        "reordered / duplicated / deleted and libxml2's verdict is compared with the model's sequence matcher. non-trivial = tree "
        "with >= 1 child element or >= 2 attributes; distinct = distinct written XML")
TRUST = c03.TRUST + ["libxml2 is assumed to implement the XSD subset semantics formalised by `matchSeq` (sampled by the content-model stream)"]
ASSUMPTIONS = [
    "the content-model theorem c02_children_valid covers types whose whole content model is built from sequence/all groups of element particles; types with choice groups or wildcards are covered by the libxml2 oracle only",
    "known finding C02:GateKS:interleaved-group: a repeated choice over the (forwardTransition, reverseTransition) sequence group cannot be written member-grouped",
    "numeric lexical spaces of xs:float/xs:double are what CPython float() accepts and repr/%.15f produce",
]


def regenerate(ctx):
    ctx.ir = bindgen.IR()
    return list(ctx.ir.gaps)


def gateks_two_pairs(mod):
    g = mod.GateKS(id="g", instances=1)
    g.closed_states.append(mod.ClosedState(id="c1"))
    g.open_states.append(mod.OpenState(id="o1"))
    for i in range(2):
        g.forward_transition.append(mod.ForwardTransition(id="f%d" % i, from_="c1", to="o1"))
        g.reverse_transition.append(mod.ReverseTransition(id="r%d" % i, from_="c1", to="o1"))
    return g


def check_valid(ctx, ir, mod, cls, o, lines, pending, corpus_key=None):
    okx, msg, text = bindgen.xsd_verdict(o, cls)
    v, vmsg = c03.real_validate(o)
    from lxml import etree
    try:
        root = etree.fromstring(text.encode("utf-8"))
        nkids, nattr = len(root), len(root.attrib)
    except Exception:
        root, nkids, nattr = None, 0, 0
    ctx.seen(text, nontrivial=(nkids >= 1 or nattr >= 2))
    ctx.count("valid-tree")
    case = {"root": cls, "xml": text[:2000]}
    if not v:
        ctx.fail("C02:validate-rejects:" + cls, "validate(recursive=True) rejects a schema-conforming tree: " + vmsg[:200], case)
    if not okx:
        key = corpus_key or ("C02:GateKS:interleaved-group" if "Transition" in msg and "GateKS" in text[:80] else "C02:schema-invalid-output:" + cls)
        ctx.fail(key, "libxml2 rejects the written XML: " + msg[:250], case)
    # correspondence: model walk
    try:
        desc = bindgen.dump(ir, mod, o, cls)
        bad = c03.simple_bad_pairs(ir, mod, o, cls)
        lines.append(json.dumps({"op": "validate", "fuel": 12, "obj": bindgen.enc_obj(ir, desc), "bad": bad}))
        pending.append(("validate", case, v))
    except Exception as e:
        ctx.disagree("validate-dump", case, repr(e), None)
    return root, text


def content_stream(ctx, ir, cls, root, lines, pending, rng):
    """mutate the order / multiplicity of the root's children; libxml2 vs sequence matcher"""
    from lxml import etree
    if root is None:
        return
    sch = bindgen.probe_schema()
    kids = [c for c in root if isinstance(c.tag, str)]
    variants = [("as-written", list(range(len(kids))))]
    n = len(kids)
    for _ in range(3):
        if n >= 2:
            p = list(range(n))
            i = rng.randrange(n - 1)
            p[i], p[i + 1] = p[i + 1], p[i]
            variants.append(("swap", p))
        if n >= 1:
            i = rng.randrange(n)
            variants.append(("duplicate", list(range(n)) + [i] if rng.random() < 0.5 else list(range(i + 1)) + list(range(i, n))))
            variants.append(("delete", [j for j in range(n) if j != i]))
        if n >= 3:
            p = list(range(n))
            rng.shuffle(p)
            variants.append(("shuffle", p))
    seen = set()
    for kind, perm in variants:
        if tuple(perm) in seen:
            continue
        seen.add(tuple(perm))
        r2 = copy.deepcopy(root)
        ks = [c for c in r2 if isinstance(c.tag, str)]
        for c in list(r2):
            r2.remove(c)
        for j in perm:
            r2.append(copy.deepcopy(ks[j]))
        ok = sch.validate(r2)
        word = [ir.ix.get(bindgen.localname(ks[j].tag), 10 ** 6) for j in perm]
        lines.append(json.dumps({"op": "children", "cls": ir.ix[cls], "word": word}))
        pending.append(("children", {"root": cls, "kind": kind, "tags": [bindgen.localname(ks[j].tag) for j in perm]}, ok))
        ctx.count("content:" + kind)


def flush(ctx, lines, pending):
    if not lines:
        return
    rc, out = fw.run_driver("C03", lines)
    if rc != 0 or len(out) != len(lines):
        ctx.disagree("driver", "driver failed rc=%s" % rc, "\n".join(out[-3:])[:500], None)
        return
    for (kind, case, real), l in zip(pending, out):
        r = json.loads(l)
        if kind == "validate":
            ctx.corr_evals += 1
            if r.get("all") != real:
                ctx.disagree("validate-walk", case, real, r)
        else:
            if r.get("seqShaped"):
                ctx.corr_evals += 1
                if r.get("ok") != real:
                    ctx.disagree("content-model", case, real, r)
            elif r.get("seqOrAll"):
                ctx.corr_evals += 1          # `all` groups: the sequence matcher is a sufficient condition only
                if r.get("ok") and not real:
                    ctx.disagree("content-model-all", case, real, r)
            else:
                ctx.count("content:choice-or-wildcard (oracle only)")


def run(ctx):
    ir = getattr(ctx, "ir", None) or bindgen.IR()
    import neuroml.nml.nml as mod
    gen = bindgen.ValidGen(ir, ctx.rng, max_depth=3)
    lines, pending = [], []
    # corpus: the known finding
    check_valid(ctx, ir, mod, "GateKS", gateks_two_pairs(mod), lines, pending, corpus_key="C02:GateKS:interleaved-group")
    per = ctx.n(2, 20) * ctx.search_mult
    classes = [c["name"] for c in ir.table["classes"]]
    if getattr(ctx, "broken", None):
        rc, out = fw.run_driver("C03", [json.dumps({"op": "agree"})])
        try:
            focus = [ir.names[i] for i in json.loads(out[0]).get("violations", [])]
        except Exception:
            focus = []
        ctx.extra["directed_classes"] = focus
        for cls in focus[:20]:
            for _ in range(40):
                try:
                    o = gen.obj(cls)
                except Exception:
                    continue
                root, _ = check_valid(ctx, ir, mod, cls, o, lines, pending)
    for cls in classes:
        for i in range(per):
            try:
                o = gen.obj(cls)
            except Exception:
                ctx.count("gen-failed")
                continue
            root, text = check_valid(ctx, ir, mod, cls, o, lines, pending)
            if i == 0:
                content_stream(ctx, ir, cls, root, lines, pending, ctx.rng)
        if len(lines) > 3000:
            flush(ctx, lines, pending)
            lines, pending = [], []
    flush(ctx, lines, pending)
    # whole documents through the writer, validated against the bundled XSD as shipped
    import neuroml.writers as W
    from lxml import etree
    tmp = tempfile.mkdtemp(prefix="verif_c02_")
    try:
        path, ver = bindgen.emit_xsd.xsd_extract.current_xsd(fw.REPO)
        sch = etree.XMLSchema(etree.parse(path))
        for i in range(ctx.n(10, 80)):
            d = gen.obj("NeuroMLDocument")
            p = os.path.join(tmp, "d%d.nml" % i)
            try:
                W.NeuroMLWriter.write(d, p)
                doc = etree.parse(p)
            except Exception as e:
                ctx.fail("C02:doc-write-raised", repr(e), {"i": i})
                continue
            ctx.seen(open(p).read())
            ctx.count("doc-cases")
            if not sch.validate(doc):
                ctx.fail("C02:schema-invalid-document", "written document rejected: %s" % str(sch.error_log.last_error)[:250],
                         {"root": "NeuroMLDocument", "xml": open(p).read()[:2000]})
            loc = doc.getroot().get("{http://www.w3.org/2001/XMLSchema-instance}schemaLocation") or ""
            if ver and ver not in loc:
                ctx.fail("C02:schemaLocation-version", "writer names %r, bundled schema is %s" % (loc, ver), {"loc": loc})
    finally:
        shutil.rmtree(tmp, ignore_errors=True)
    ctx.sample({"root": "GateKS", "note": "two forward/reverse transition pairs (known finding)"})
    ctx.extra["table_obligations"] = ["tables_agree", "facets_agree", "content_order_agrees"]


def replay(ctx, payload):
    from lxml import etree
    import neuroml.nml.nml as mod
    case = payload["case"]
    root = etree.fromstring(case["xml"].encode("utf-8"))
    o = getattr(mod, case["root"]).factory().build(root)
    v, vm = c03.real_validate(o)
    okx, msg, _ = bindgen.xsd_verdict(o, case["root"])
    return {"fails": not (okx and v), "libxml2_valid": okx, "libxml2": msg, "validate_accepts": v}
