"""C02 — schema-conforming trees pass validate() and are written as schema-valid XML.

Tie: translators (nml.py, XSD; `tables_agree`, `content_order_agrees`, `attr_names_agree`, `facets_agree`,
`validators_agree` kernel-checked per run) + correspondence (model validate walk vs real verdict; sequence / all /
choice matcher vs libxml2 on mutated child orders; every boundary value of every simple type through the real
validator, its model, libxml2 and the Lean value space) + oracle (libxml2 on every component written alone and on whole
documents, well-formedness included; trees with a past).
"""
import copy
import json
import os
import shutil
import tempfile

import bindgen
import facetgen
import fw
from props import c03

LEAN_PROPS = ["NmlVerif.Props.C02", "NmlVerif.Props.C02Facets", "NmlVerif.Props.C02Content"]
LEVEL = "proof"
RULE = ("schema-conforming trees drawn from the XSD value spaces (patterns via a regex sampler using every XSD space character, "
        "enumerations, ranges, cardinalities, one branch per choice; free xs:string values carry XML-special characters: both "
        "quote kinds, <, >, &, line feeds, entity look-alikes, non-ASCII), every one of the 199 types as root and as descendant "
        "(depth <= 3): real validate(recursive=True) must accept and the component written on its own under a probe element of its "
        "type must be well-formed and accepted by libxml2; whole documents through NeuroMLWriter against the bundled XSD. Trees "
        "with a past: the written text is READ back, one component is re-used in a differently named slot of the same type "
        "(child.proximal = parent.distal), then validated and written again (component alone and whole document through "
        "loaders/writers). Content-model stream: the root's children are reordered / duplicated / deleted and libxml2's verdict is "
        "compared with the model's matcher (sequence, all, choice groups). Simple-type stream as in C03. non-trivial = tree with "
        ">= 1 child element or >= 2 attributes; distinct = distinct written XML")
TRUST = c03.TRUST + ["libxml2 is assumed to implement the XSD subset semantics formalised by `matchSeq` / `matchGroups` (sampled by the content-model stream)"]
ASSUMPTIONS = [
    "the content-model theorems cover types whose content model is built from sequence / all groups of element particles and element-level choices; wildcards (xs:any) are covered by the libxml2 oracle only",
    "known finding C02:nonfinite-float-lexical: INF / -INF / NaN are drawn as conforming values and reported under that key; repair proposed, not applied because it edits generated code that regeneration (C20) reverts",
    "known finding C02:GateKS:interleaved-group: a repeated choice over the (forwardTransition, reverseTransition) sequence group cannot be written member-grouped",
    "numeric lexical spaces of xs:float/xs:double are what CPython float() accepts and repr/%.15f produce for finite values",
    "the unit-less Nml2Quantity with a value ending in a line feed: accepted by CPython's greedy engine, not covered by c02_facet_today (priority order of re not modelled), sampled",
]


import re
NONFINITE_MSG = re.compile(r"'-?(inf|nan)' is not a valid value of the atomic type")


def regenerate(ctx):
    ctx.ir = bindgen.IR()
    gaps = list(ctx.ir.gaps)
    info, vg = facetgen.validators(ctx, ctx.ir)
    return gaps + list(vg)


def gateks_two_pairs(mod):
    g = mod.GateKS(id="g", instances=1)
    g.closed_states.append(mod.ClosedState(id="c1"))
    g.open_states.append(mod.OpenState(id="o1"))
    for i in range(2):
        g.forward_transition.append(mod.ForwardTransition(id="f%d" % i, from_="c1", to="o1"))
        g.reverse_transition.append(mod.ReverseTransition(id="r%d" % i, from_="c1", to="o1"))
    return g


def corpus_special(mod):
    """directed cases for the writer's escaping (seeded change C02-1 lives here): every kind of free string slot"""
    vals = ["\"'", "'\"", "a\"b'c<&>", "\"\"''", "x\ny\"'", "'", "\"", "&amp;\"'&#10;", "]]>\"'", "<![CDATA[\"']]>"]
    for i, v in enumerate(vals):
        yield ("Property", mod.Property(tag=v, value="v%d" % i), "attr-both-quotes" if "'" in v and '"' in v else "attr-special")
        yield ("Property", mod.Property(tag="t%d" % i, value=v), "attr-both-quotes" if "'" in v and '"' in v else "attr-special")
    for v in vals:
        yield ("NeuroMLDocument", mod.NeuroMLDocument(id="d", notes=v), "text-special")
        yield ("IafCell", mod.IafCell(id="a", notes=v, leak_reversal="1mV", thresh="1mV", reset="1mV", C="1pF", leak_conductance="1nS",
                                      properties=[mod.Property(tag=v, value=v)]), "text-and-attr-special")


def check_valid(ctx, ir, mod, cls, o, lines, pending, corpus_key=None, history=None, bucket="valid-tree"):
    okx, msg, text = bindgen.xsd_verdict(o, cls)
    v, vmsg = c03.real_validate(o)
    from lxml import etree
    try:
        root = etree.fromstring(text.encode("utf-8"))
        nkids, nattr = len(root), len(root.attrib)
    except Exception:
        root, nkids, nattr = None, 0, 0
    ctx.seen(text, nontrivial=(nkids >= 1 or nattr >= 2))
    ctx.count(bucket)
    case = {"root": cls, "xml": text[:6000]}
    if history:
        case["history"] = history
    desc = None
    try:
        desc = bindgen.dump(ir, mod, o, cls)
    except Exception as e:
        ctx.disagree("validate-dump", case, repr(e), None)
    if (not v or not okx) and desc is not None and not history:
        case["desc"] = desc
    if not v:
        ctx.fail("C02:validate-rejects:" + cls, "validate(recursive=True) rejects a schema-conforming tree: " + vmsg[:200], case)
    if not okx:
        if corpus_key:
            key = corpus_key
        elif NONFINITE_MSG.search(msg):
            key = "C02:nonfinite-float-lexical"
        elif "Transition" in msg and "GateKS" in text[:80]:
            key = "C02:GateKS:interleaved-group"
        elif msg.startswith("not well-formed"):
            key = "C02:not-well-formed:" + cls
        elif history:
            key = "C02:past-tree-invalid-output:" + history["moves"][0]["cls"]
        else:
            key = "C02:schema-invalid-output:" + cls
        ctx.fail(key, "libxml2 rejects the written XML: " + msg[:250], case)
    # correspondence: model walk
    if desc is not None:
        try:
            bad = c03.simple_bad_pairs(ir, mod, o, cls)
            lines.append(json.dumps({"op": "validate", "fuel": 14, "obj": bindgen.enc_obj(ir, desc), "bad": bad}))
            pending.append(("validate", case, v))
        except Exception as e:
            ctx.disagree("validate-dump", case, repr(e), None)
    return root, text, (okx and v)


def past_tree(ctx, ir, mod, cls, text, slot_tab, lines, pending, rng):
    """READ the written component back, re-use one of its parts in a differently named slot of the same type, then
    validate and write again"""
    from lxml import etree
    try:
        o2 = getattr(mod, cls).factory()
        o2.build(etree.fromstring(text.encode("utf-8")))
    except Exception as e:
        ctx.disagree("past-tree-read", {"root": cls, "xml": text[:3000]}, repr(e)[:200], None)
        return
    mv = facetgen.rearrange(ir, rng, o2, cls, slot_tab)
    if mv is None:
        ctx.count("past-tree:no-move-possible")
        return
    ctx.count("past-tree:%s" % mv["mode"])
    check_valid(ctx, ir, mod, cls, o2, lines, pending, history={"xml_before": text[:8000], "moves": [mv]}, bucket="past-tree")


def content_stream(ctx, ir, cls, root, lines, pending, rng):
    """mutate the order / multiplicity of the root's children; libxml2 vs the content-model matchers"""
    from lxml import etree
    if root is None:
        return
    sch = bindgen.probe_schema()
    kids = [c for c in root if isinstance(c.tag, str)]
    variants = [("as-written", list(range(len(kids))))]
    n = len(kids)
    for _ in range(3):
        if n >= 2:
            p = list(range(n))
            i = rng.randrange(n - 1)
            p[i], p[i + 1] = p[i + 1], p[i]
            variants.append(("swap", p))
        if n >= 1:
            i = rng.randrange(n)
            variants.append(("duplicate", list(range(n)) + [i] if rng.random() < 0.5 else list(range(i + 1)) + list(range(i, n))))
            variants.append(("delete", [j for j in range(n) if j != i]))
        if n >= 3:
            p = list(range(n))
            rng.shuffle(p)
            variants.append(("shuffle", p))
    seen = set()
    for kind, perm in variants:
        if tuple(perm) in seen:
            continue
        seen.add(tuple(perm))
        r2 = copy.deepcopy(root)
        ks = [c for c in r2 if isinstance(c.tag, str)]
        for c in list(r2):
            r2.remove(c)
        for j in perm:
            r2.append(copy.deepcopy(ks[j]))
        ok = sch.validate(r2)
        word = [ir.ix.get(bindgen.localname(ks[j].tag), 10 ** 6) for j in perm]
        lines.append(json.dumps({"op": "children", "cls": ir.ix[cls], "word": word}))
        pending.append(("children", {"root": cls, "kind": kind, "tags": [bindgen.localname(ks[j].tag) for j in perm]}, ok))
        ctx.count("content:" + kind)


def flush(ctx, lines, pending):
    if not lines:
        return
    rc, out = fw.run_driver("C03", lines)
    if rc != 0 or len(out) != len(lines):
        ctx.disagree("driver", "driver failed rc=%s" % rc, "\n".join(out[-3:])[:500], None)
        return
    for (kind, case, real), l in zip(pending, out):
        r = json.loads(l)
        if kind == "validate":
            ctx.corr_evals += 1
            if r.get("all") != real:
                ctx.disagree("validate-walk", {k: v for k, v in case.items() if k != "desc"}, real, r)
        else:
            if r.get("groupShaped"):
                ctx.corr_evals += 1
                ctx.count("content-model:groups-exact")
                if r.get("groupsOk") != real:
                    ctx.disagree("content-model-groups", case, real, r)
            if r.get("seqShaped"):
                ctx.corr_evals += 1
                if r.get("ok") != real:
                    ctx.disagree("content-model", case, real, r)
            elif r.get("seqOrAll"):
                ctx.corr_evals += 1          # `all` groups: the sequence matcher is a sufficient condition only
                if r.get("ok") and not real:
                    ctx.disagree("content-model-all", case, real, r)
            elif not r.get("groupShaped"):
                ctx.count("content:wildcard-or-nested-group (oracle only)")


def doc_stream(ctx, ir, mod, gen, slot_tab):
    """whole documents through the writer, validated against the bundled XSD as shipped; then read back through the
    loader, one component re-used elsewhere, written again"""
    import neuroml.loaders as L
    import neuroml.writers as W
    from lxml import etree
    tmp = tempfile.mkdtemp(prefix="verif_c02_")
    try:
        path, ver = bindgen.emit_xsd.xsd_extract.current_xsd(fw.REPO)
        sch = etree.XMLSchema(etree.parse(path))

        def write_and_check(d, p, bucket, history=None):
            case = {"root": "NeuroMLDocument", "stream": "doc"}
            if history:
                case["history"] = history
            else:
                try:
                    case["desc"] = bindgen.dump(ir, mod, d, "NeuroMLDocument")
                except Exception:
                    pass
            try:
                W.NeuroMLWriter.write(d, p)
            except Exception as e:
                ctx.fail("C02:doc-write-raised", "NeuroMLWriter.write raised %r" % (e,), case)
                return False
            text = open(p).read()
            case["xml"] = text[:6000]
            ctx.seen(text)
            ctx.count(bucket)
            try:
                doc = etree.parse(p)
            except Exception as e:
                ctx.fail("C02:doc-not-well-formed", "the written document is not well-formed: %s" % str(e)[:200], case)
                return False
            if not sch.validate(doc):
                key = "C02:past-tree-invalid-document:" + history["moves"][0]["cls"] if history else "C02:schema-invalid-document"
                if NONFINITE_MSG.search(str(sch.error_log.last_error)):
                    key = "C02:nonfinite-float-lexical"
                ctx.fail(key, "written document rejected: %s" % str(sch.error_log.last_error)[:250], case)
                return False
            v, vm = c03.real_validate(d)
            if not v:
                ctx.fail("C02:validate-rejects:NeuroMLDocument", "validate(recursive=True) rejects a conforming document: " + vm[:200], case)
            loc = doc.getroot().get("{http://www.w3.org/2001/XMLSchema-instance}schemaLocation") or ""
            if ver and ver not in loc:
                ctx.fail("C02:schemaLocation-version", "writer names %r, bundled schema is %s" % (loc, ver), {"loc": loc})
            return True

        for i in range(ctx.n(12, 80) * ctx.search_mult):
            try:
                d = gen.obj("NeuroMLDocument")
            except Exception:
                ctx.count("gen-failed")
                continue
            d.includes = []
            p = os.path.join(tmp, "d%d.nml" % i)
            if not write_and_check(d, p, "doc-cases"):
                continue
            # the document, with a past
            try:
                d2 = L.read_neuroml2_file(p, include_includes=False, verbose=False)
            except BaseException as e:
                ctx.fail("C02:doc-not-readable", "the loader cannot read back the written document: %r" % (e,), {"xml": open(p).read()[:6000]})
                continue
            for j in range(3):
                mv = facetgen.rearrange(ir, ctx.rng, d2, "NeuroMLDocument", slot_tab)
                if mv is None:
                    break
                write_and_check(d2, os.path.join(tmp, "d%d_%d.nml" % (i, j)), "doc-past-tree",
                                history={"xml_before_file": open(p).read()[:20000], "moves": [mv]})
                try:       # each move starts from a freshly read tree (one move per case keeps the replay small)
                    d2 = L.read_neuroml2_file(p, include_includes=False, verbose=False)
                except BaseException:
                    break
    finally:
        shutil.rmtree(tmp, ignore_errors=True)


def morphology_with_past(mod):
    """CORPUS (seeded change C02-2): a morphology READ from XML whose child segment then takes its parent's distal point
    as its proximal point (what Cell.get_actual_proximal / the unbranched-section code does)"""
    from lxml import etree
    text = ('<probe_Morphology xmlns="http://www.neuroml.org/schema/neuroml2" id="m">'
            '<segment id="0" name="soma"><proximal x="0" y="0" z="0" diameter="10"/><distal x="10" y="0" z="0" diameter="10"/></segment>'
            '<segment id="1" name="d"><parent segment="0"/><distal x="20" y="0" z="0" diameter="2"/></segment>'
            '</probe_Morphology>')
    m = mod.Morphology.factory()
    m.build(etree.fromstring(text))
    mv = {"src": [["segments", 0], ["distal", None]], "dst": [["segments", 1]], "member": "proximal", "mode": "set",
          "from_tag": "distal", "to_tag": "proximal", "cls": "Point3DWithDiam"}
    facetgen.apply_move(m, mv)
    return m, {"xml_before": text, "moves": [mv]}


def run(ctx):
    ir = getattr(ctx, "ir", None) or bindgen.IR()
    import neuroml.nml.nml as mod
    gen = facetgen.ValidGen2(ir, ctx.rng, max_depth=3, nonfinite=True)
    slot_tab = facetgen.slot_table(gen)
    lines, pending = [], []
    # corpus: the known finding, the escaping cases, a tree with a past
    check_valid(ctx, ir, mod, "GateKS", gateks_two_pairs(mod), lines, pending, corpus_key="C02:GateKS:interleaved-group")
    for cls, o, bucket in corpus_special(mod):
        check_valid(ctx, ir, mod, cls, o, lines, pending, bucket="corpus:" + bucket)
    # reproduces known finding C02:nonfinite-float-lexical (on a tree with the proposed repair: regression cases): INF,
    # -INF, NaN are members of the xs:double / xs:float value spaces; they must be written in the schema's spelling and
    # read back as themselves (xs:double member x, xs:float member weight)
    for v in (float("inf"), float("-inf"), float("nan")):
        for cls, o, member in (("Point3DWithDiam", mod.Point3DWithDiam(x=v, y=0.0, z=0.0, diameter=1.0), "x"),
                               ("ConnectionWD", mod.ConnectionWD(id=0, pre_cell_id="../p/0/c", post_cell_id="../p/1/c", weight=v, delay="1ms"), "weight")):
            root, text, good = check_valid(ctx, ir, mod, cls, o, lines, pending, corpus_key="C02:nonfinite-float-lexical",
                                           bucket="corpus:nonfinite")
            if good:
                try:
                    o2 = getattr(mod, cls).factory()
                    o2.build(root)
                    w = getattr(o2, member)
                    same = isinstance(w, float) and (w == v or (w != w and v != v))
                except Exception as e:
                    w, same = repr(e), False
                ctx.count("corpus:nonfinite-roundtrip")
                if not same:
                    ctx.fail("C02:nonfinite-roundtrip", "%s.%s = %r is written as valid XML but read back as %r" % (cls, member, v, w),
                             {"root": cls, "xml": text[:2000]})
    m, hist = morphology_with_past(mod)
    check_valid(ctx, ir, mod, "Morphology", m, lines, pending, history=hist, bucket="corpus:past-tree")
    per = ctx.n(2, 20) * ctx.search_mult
    classes = [c["name"] for c in ir.table["classes"]]
    if getattr(ctx, "broken", None):
        rc, out = fw.run_driver("C03", [json.dumps({"op": "agree"})])
        try:
            focus = [ir.names[i] for i in json.loads(out[0]).get("violations", [])]
        except Exception:
            focus = []
        ctx.extra["directed_classes"] = focus
        for cls in focus[:20]:
            for _ in range(40):
                try:
                    o = gen.obj(cls)
                except Exception:
                    continue
                check_valid(ctx, ir, mod, cls, o, lines, pending)
    for cls in classes:
        for i in range(per):
            try:
                o = gen.obj(cls)
            except Exception:
                ctx.count("gen-failed")
                continue
            root, text, good = check_valid(ctx, ir, mod, cls, o, lines, pending)
            if i == 0 and (good or not NONFINITE_MSG.search(bindgen.xsd_verdict(o, cls)[1])):
                # (a tree holding a non-finite float is written schema-invalid today — known finding — and would make
                # libxml2 reject every child order)
                content_stream(ctx, ir, cls, root, lines, pending, ctx.rng)
            if good:
                past_tree(ctx, ir, mod, cls, text, slot_tab, lines, pending, ctx.rng)
        if len(lines) > 3000:
            flush(ctx, lines, pending)
            lines, pending = [], []
    flush(ctx, lines, pending)
    info, _ = facetgen.validators(ctx, ir)
    if info is not None:
        facetgen.simple_stream(ctx, ir, mod, info, "C02", n_valid=ctx.n(3, 8))
    doc_stream(ctx, ir, mod, gen, slot_tab)
    ctx.sample({"root": "GateKS", "note": "two forward/reverse transition pairs (known finding)"})
    ctx.sample({"root": "Property", "attrs": {"tag": "a\"b'c<&>", "value": "v"}, "note": "both quote kinds in one attribute value"})
    ctx.sample({"root": "Morphology", "history": "read, then segments[1].proximal = segments[0].distal, then written"})
    ctx.extra["table_obligations"] = ["tables_agree", "facets_agree", "content_order_agrees", "attr_names_agree", "validators_agree",
                                      "group_order_agrees"]


def replay(ctx, payload):
    from lxml import etree
    import neuroml.nml.nml as mod
    case = payload["case"]
    if case.get("stream") == "simple":
        return facetgen.replay_simple(mod, case, "C02")
    ir = bindgen.IR()
    hist = case.get("history")
    if case.get("stream") == "doc":
        import neuroml.loaders as L
        import neuroml.writers as W
        tmp = tempfile.mkdtemp(prefix="verif_c02_")
        try:
            if hist:
                p0 = os.path.join(tmp, "before.nml")
                with open(p0, "w") as fh:
                    fh.write(hist["xml_before_file"])
                d = L.read_neuroml2_file(p0, include_includes=False, verbose=False)
                for mv in hist["moves"]:
                    facetgen.apply_move(d, mv)
            else:
                d = facetgen.obj_from_desc(ir, mod, case["desc"])
            p = os.path.join(tmp, "replay.nml")
            W.NeuroMLWriter.write(d, p)
            path, _ = bindgen.emit_xsd.xsd_extract.current_xsd(fw.REPO)
            sch = etree.XMLSchema(etree.parse(path))
            try:
                okx = bool(sch.validate(etree.parse(p)))
                msg = "" if okx else str(sch.error_log.last_error)[:300]
            except Exception as e:
                okx, msg = False, "not well-formed: %s" % str(e)[:200]
            v, vm = c03.real_validate(d)
            return {"fails": not (okx and v), "libxml2_valid": okx, "libxml2": msg, "validate_accepts": v}
        finally:
            shutil.rmtree(tmp, ignore_errors=True)
    if hist:
        o = getattr(mod, case["root"]).factory()
        o.build(etree.fromstring(hist["xml_before"].encode("utf-8")))
        for mv in hist["moves"]:
            facetgen.apply_move(o, mv)
    elif case.get("desc"):
        o = facetgen.obj_from_desc(ir, mod, case["desc"])
    else:
        root = etree.fromstring(case["xml"].encode("utf-8"))
        o = getattr(mod, case["root"]).factory()
        o.build(root)
    v, vm = c03.real_validate(o)
    okx, msg, text = bindgen.xsd_verdict(o, case["root"])
    return {"fails": not (okx and v), "libxml2_valid": okx, "libxml2": msg, "validate_accepts": v, "written": text[:600]}
