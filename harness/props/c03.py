"""C03 — a schema violation anywhere in a tree makes validate(recursive=True) fail.

Tie: translators (nml.py -> Gen/Bindings.lean, XSD -> Gen/Xsd.lean; `tables_agree` / `facets_agree` kernel-checked
per run) + correspondence (real validate verdict vs the model walk) + oracle (libxml2's verdict on the written XML).
"""
import copy
import json
import os
import shutil
import tempfile

import re

import bindgen
import facetgen
import fw

LEAN_PROPS = ["NmlVerif.Props.C03", "NmlVerif.Props.C03Facets", "NmlVerif.Props.C03Tree", "NmlVerif.Props.C03File"]
LEVEL = "proof"
RULE = ("(1) schema-conforming trees from the XSD value spaces (root = every one of the 199 types in turn, depth <= 3; free strings "
        "with XML-special characters, pattern values with every XSD space), then ONE injected violation at a random descendant: "
        "required attribute removed / value outside its pattern or enumeration (a legal value plus a trailing or leading line feed "
        "or blank, non-ASCII digits, empty, garbage) / number outside its range / required child removed / too many children / "
        "required choice emptied; own and inherited members, depths 0-3. (2) simple-type stream: for each of the 38 schema simple "
        "types ~40 boundary values through the real validate_<T>, the Lean model of it, libxml2 and the Lean value space. (3) files: "
        "documents with one injection at every depth, written, judged by libxml2 against the bundled XSD and by is_valid_neuroml2 / "
        "validate_neuroml2. non-trivial = libxml2 rejects (the injection really is a schema violation); distinct = distinct (root "
        "type, position class, member, kind, value class)")
TRUST = [
    "translators nml_extract/emit_bindings, xsd_extract/emit_xsd, validators_extract (AST / XSD shape recognition; refuse what they do not recognise)",
    "CPython's re: assumed to find a match iff one exists, `$` holding at the end and before one trailing line feed (EngineSpec); which of two matches it returns is not modelled",
    "libxml2's XSD validator (lxml) is the oracle for 'is a schema violation'; the Lean value spaces (xsdValid) are compared with it on every boundary value",
    "numeric members: the validators are modelled on values (exact rationals); the lexical form written for them (gds_format_*) is trusted and sampled",
]
ASSUMPTIONS = [
    "known finding C03:choice-required: the generated validate_ has no item for 'at least one branch of a required choice group' (Layout, GateKS, ...)",
    "known finding C03:pattern-unicode-space: Python's Unicode-aware white-space class is wider than the schema's; repair proposed (re.ASCII), not applied because it edits generated code that regeneration (C20) reverts; with it only vertical tab / form feed would remain (C03:pattern-ascii-vt-ff, in-memory trees only)",
    "known finding C03:builtin-int-range: validate_NonNegativeInteger / validate_PositiveInteger do not check the range",
    "file-level wrappers: modelled as build-then-validate (Props/C03File.lean); include resolution is C06's subject and not exercised here",
]


def regenerate(ctx):
    ctx.ir = bindgen.IR()
    gaps = list(ctx.ir.gaps)
    info, vg = facetgen.validators(ctx, ctx.ir)
    return gaps + list(vg)


def positions(ir, o, cls, depth=0, path=""):
    """[(object, class name, depth, path)] for every component of the tree"""
    out = [(o, cls, depth, path)]
    _, kids = ir.flat(cls)
    for k in kids:
        if k["text"]:
            continue
        v = getattr(o, k["member"], None)
        vs = v if isinstance(v, list) else ([] if v is None else [v])
        for i, c in enumerate(vs):
            out += positions(ir, c, type(c).__name__, depth + 1, "%s.%s[%d]" % (path, k["member"], i))
    return out


def real_validate(o):
    try:
        o.validate(recursive=True)
        return True, ""
    except ValueError as e:
        return False, str(e)[:300]


def simple_bad_pairs(ir, mod, root, cls):
    """(validator id, lexical) pairs the real simple-type validators reject, over the whole tree"""
    from neuroml.nml.generatedscollector import GdsCollector
    bad = []
    for (d, dc, _, _) in positions(ir, root, cls):
        attrs, kids = ir.flat(dc)
        prim = {a["member"]: a["prim"] for a in attrs}
        for k in ir.chain(dc):
            for it in k["validate"]:
                if it[0] != "simple":
                    continue
                v, m = it[1], it[2]
                val = getattr(d, m, None)
                if val is None:
                    continue
                col = GdsCollector()
                old = d.gds_collector_
                d.gds_collector_ = col
                try:
                    getattr(d, "validate_" + v)(val)
                finally:
                    d.gds_collector_ = old
                if col.get_messages():
                    lexv = bindgen.lexical(mod, prim.get(m, "str"), val) if m in prim else val
                    bad.append([ir.ix[v], lexv])
    return bad


def options_at(gen, ir, d, dc):
    """every single-violation option applicable to component d of class dc"""
    options = []
    attrs, kids = ir.flat(dc)
    byxml = {a["xml"]: a for a in attrs}
    bytag = {k["tag"]: k for k in kids}
    for t in gen.xchain(dc):
        inherited = t["name"] != dc
        for a in t["attrs"]:
            fa = byxml.get(a["name"])
            if fa is None:
                continue
            if a["use"] == "required" and getattr(d, fa["member"]) is not None:
                options.append(("required-attr", fa["member"], t["name"], inherited, None))
            st = gen.ST.get(a["type"])
            cur = getattr(d, fa["member"])
            if st is not None and cur is not None:
                base = a["type"]
                k = 0
                while base in gen.ST and k < 10:
                    base, k = gen.ST[base]["base"], k + 1
                if base in ("xs:double", "xs:float"):
                    if st["enums"]:
                        cands = [0.5, 2.0, -1.0]
                    else:
                        cands = []
                        b = st["bounds"]
                        if "maxInclusive" in b:
                            cands += [float(b["maxInclusive"]) + 1.0, float(b["maxInclusive"]) + 2.0 ** -10]
                        if "minInclusive" in b:
                            cands += [float(b["minInclusive"]) - 1.0, float(b["minInclusive"]) - 2.0 ** -10]
                        if "minExclusive" in b:
                            cands += [float(b["minExclusive"]), float(b["minExclusive"]) - 1.0]
                        if "maxExclusive" in b:
                            cands += [float(b["maxExclusive"]), float(b["maxExclusive"]) + 1.0]
                    for badv in cands:
                        options.append(("facet", fa["member"], t["name"], inherited, badv))
                elif base == "xs:string" and (st["patterns"] or st["enums"]) and isinstance(cur, str):
                    cands = [cur + "\n", "\n" + cur, cur + " ", " " + cur, "!! not valid !!", cur + cur + "-", cur.swapcase() + "!"]
                    tr = cur.translate(str.maketrans("0123456789", "\u0660\u0661\u0662\u0663\u0664\u0665\u0666\u0667\u0668\u0669"))
                    if tr != cur:
                        cands.append(tr)
                    if st["patterns"] and not re.fullmatch(st["patterns"][0], ""):
                        cands.append("")
                    if a["type"].startswith("Nml2Quantity"):
                        m = re.match(r"[-0-9.eE]*", cur)
                        cands.append(cur[:m.end()] + "\u00a0" + cur[m.end():].lstrip())     # known finding: Python-only space
                    for badv in cands:
                        options.append(("facet", fa["member"], t["name"], inherited, badv))
                elif base in ("xs:nonNegativeInteger", "xs:positiveInteger") and isinstance(cur, int):
                    options.append(("facet", fa["member"], t["name"], inherited, -1))      # known finding: builtin range
        for e in emit_elems(t):
            fk = bytag.get(e["tag"])
            if fk is None:
                continue
            v = getattr(d, fk["member"], None)
            n = len(v) if isinstance(v, list) else (0 if v is None else 1)
            if not e["choice"] and e["lo"] >= 1 and n >= 1:
                options.append(("required-child", fk["member"], t["name"], inherited, None))
            if not e["choice"] and e["hi"] is not None and e["hi"] >= 1 and isinstance(v, list) and n >= 1:
                options.append(("too-many", fk["member"], t["name"], inherited, e["hi"] + 1 - n))
        if bindgen.emit_xsd.has_required_choice(t["content"]):
            options.append(("required-choice", None, t["name"], inherited,
                            [bytag[e["tag"]]["member"] for e in emit_elems(t) if e["choice"] and e["tag"] in bytag]))
    return options


def apply_option(d, opt):
    kind, member, owner, inherited, badv = opt
    if kind == "required-attr":
        setattr(d, member, None)
    elif kind == "facet":
        setattr(d, member, badv)
    elif kind == "required-child":
        v = getattr(d, member)
        setattr(d, member, [] if isinstance(v, list) else None)
    elif kind == "too-many":
        v = getattr(d, member)
        for _ in range(max(1, badv)):
            v.append(copy.deepcopy(v[0]))
    else:
        for m in badv:
            v = getattr(d, m)
            setattr(d, m, [] if isinstance(v, list) else None)


def inject(gen, ir, rng, root, root_cls, want_depth=None):
    """apply one violation in place; -> dict describing it or None"""
    pos = positions(ir, root, root_cls)
    # weighted order: deeper positions first more often (the property is about ANY depth)
    pos = sorted(pos, key=lambda p: -(rng.random() * (p[2] + 1) ** 2))
    if want_depth is not None:
        pos = [p for p in pos if p[2] == want_depth] + [p for p in pos if p[2] != want_depth]
    for (d, dc, depth, path) in pos:
        options = options_at(gen, ir, d, dc)
        if not options:
            continue
        kinds = sorted({o[0] for o in options})
        kind = rng.choice(kinds)                       # kinds uniformly, then inherited members preferred
        options = [o for o in options if o[0] == kind]
        inh = [x for x in options if x[3]]
        opt = rng.choice(inh if inh and rng.random() < 0.6 else options)
        apply_option(d, opt)
        kind, member, owner, inherited, badv = opt
        return inj_desc(opt, dc, depth, path)
    return None


def inj_desc(opt, dc, depth, path, **extra):
    kind, member, owner, inherited, badv = opt
    d = {"kind": kind, "member": member, "owner": owner, "inherited": inherited, "at": dc, "depth": depth, "path": path}
    if kind == "facet":
        d["value"] = badv
        d["vclass"] = value_class(badv)
    d.update(extra)
    return d


def plain_spaces(s):
    return all((not c.isspace()) or c in " \t\n\r" for c in s)


def value_class(v):
    if isinstance(v, bool) or isinstance(v, int):
        return "int"
    if isinstance(v, float):
        return "float"
    if facetgen.space_class(v) == "vt-ff":
        return "vt-ff-space"
    if not plain_spaces(v):
        return "python-only-space"
    if v.endswith("\n"):
        return "trailing-lf"
    if v.startswith("\n"):
        return "leading-lf"
    if v.endswith(" "):
        return "trailing-blank"
    if v.startswith(" "):
        return "leading-blank"
    if v == "":
        return "empty"
    if any(ord(c) > 127 for c in v):
        return "non-ascii"
    return "other"


def directed(ctx, ir, mod, gen, lines, pending):
    """an obligation is broken: ask the model which classes disagree with the schema and try EVERY single violation
    of those classes (as root and one level down) on the real code"""
    rc, out = fw.run_driver("C03", [json.dumps({"op": "agree"})])
    try:
        bad = [ir.names[i] for i in json.loads(out[0]).get("violations", [])]
    except Exception:
        bad = []
    ctx.extra["directed_classes"] = bad
    parents = {}
    for c in ir.table["classes"]:
        for k in ir.flat(c["name"])[1]:
            if k["cls"]:
                parents.setdefault(k["cls"], []).append(c["name"])
    for cls in bad[:20]:
        roots = [cls] + parents.get(cls, [])[:3]
        for root_cls in roots:
            for attempt in range(6):
                try:
                    probe = gen.obj(root_cls)
                except Exception:
                    continue
                targets = [p for p in positions(ir, probe, root_cls) if p[1] == cls]
                if not targets:
                    continue
                nopt = len(options_at(gen, ir, targets[0][0], cls))
                for i in range(nopt):
                    st = ctx.rng.getstate()
                    o = gen.obj(root_cls)
                    ts = [p for p in positions(ir, o, root_cls) if p[1] == cls]
                    if not ts:
                        continue
                    d, dc, depth, path = ts[0]
                    opts = options_at(gen, ir, d, dc)
                    if i >= len(opts):
                        continue
                    apply_option(d, opts[i])
                    check_one(ctx, ir, mod, root_cls, o, inj_desc(opts[i], dc, depth, path, directed=True), lines, pending)
                break


def emit_elems(t):
    return bindgen.emit_xsd.xsd_extract.effective_elems(t["content"])


CORPUS = ["segment-without-id", "empty-layout", "nbsp-before-unit", "vtab-before-unit", "segment-id-minus-one", "id-with-trailing-lf", "morphology-without-segments"]


def corpus_objects(mod):
    d = mod.NeuroMLDocument(id="d")
    c = mod.Cell(id="c")
    d.cells.append(c)
    c.morphology = mod.Morphology(id="m")
    c.morphology.segments.append(mod.Segment(distal=mod.Point3DWithDiam(x=0.0, y=0.0, z=0.0, diameter=1.0),
                                             proximal=mod.Point3DWithDiam(x=0.0, y=0.0, z=0.0, diameter=1.0)))
    yield ("NeuroMLDocument", d, {"kind": "required-attr", "member": "id", "owner": "BaseNonNegativeIntegerId",
                                  "inherited": True, "at": "Segment", "depth": 3, "path": ".cells[0].morphology[0].segments[0]"})
    # a vertical tab between number and unit (in memory only: not an XML character): today part of known finding
    # C03:pattern-unicode-space; on a tree with the proposed re.ASCII repair it is what remains (C03:pattern-ascii-vt-ff)
    d6 = mod.NeuroMLDocument(id="d")
    d6.iaf_cells.append(mod.IafCell(id="a", leak_reversal="-70\x0bmV", thresh="1mV", reset="1mV", C="1pF", leak_conductance="1nS"))
    yield ("NeuroMLDocument", d6, {"kind": "facet", "member": "leak_reversal", "owner": "IafCell", "inherited": False, "at": "IafCell",
                                   "depth": 1, "path": ".iaf_cells[0]", "value": "-70\x0bmV", "vclass": "vt-ff-space"})
    # reproduces known finding C03:pattern-unicode-space: a no-break space between number and unit, one level down
    d2 = mod.NeuroMLDocument(id="d")
    d2.iaf_cells.append(mod.IafCell(id="a", leak_reversal="-70\u00a0mV", thresh="1mV", reset="1mV", C="1pF", leak_conductance="1nS"))
    yield ("NeuroMLDocument", d2, {"kind": "facet", "member": "leak_reversal", "owner": "IafCell", "inherited": False, "at": "IafCell",
                                   "depth": 1, "path": ".iaf_cells[0]", "value": "-70\u00a0mV", "vclass": "python-only-space"})
    # known finding C03:builtin-int-range: a segment with id -1 (in memory; reading such a file raises)
    d3 = mod.NeuroMLDocument(id="d")
    c3 = mod.Cell(id="c", morphology=mod.Morphology(id="m"))
    d3.cells.append(c3)
    c3.morphology.segments.append(mod.Segment(id=-1, distal=mod.Point3DWithDiam(x=0.0, y=0.0, z=0.0, diameter=1.0),
                                              proximal=mod.Point3DWithDiam(x=0.0, y=0.0, z=0.0, diameter=1.0)))
    yield ("NeuroMLDocument", d3, {"kind": "facet", "member": "id", "owner": "BaseNonNegativeIntegerId", "inherited": True, "at": "Segment",
                                   "depth": 3, "path": ".cells[0].morphology[0].segments[0]", "value": -1, "vclass": "int"})
    # must be REJECTED (seeded change C03-1): an inherited id that is legal except for one trailing line feed
    d4 = mod.NeuroMLDocument(id="d")
    n4 = mod.Network(id="n")
    d4.networks.append(n4)
    n4.populations.append(mod.Population(id="pop0\n", component="c", size=1))
    yield ("NeuroMLDocument", d4, {"kind": "facet", "member": "id", "owner": "Base", "inherited": True, "at": "Population",
                                   "depth": 2, "path": ".networks[0].populations[0]", "value": "pop0\n", "vclass": "trailing-lf"})
    # must be REJECTED: a required LIST child missing two levels down (morphology without segments)
    d5 = mod.NeuroMLDocument(id="d")
    d5.cells.append(mod.Cell(id="c", morphology=mod.Morphology(id="m")))
    yield ("NeuroMLDocument", d5, {"kind": "required-child", "member": "segments", "owner": "Morphology", "inherited": False, "at": "Morphology",
                                   "depth": 2, "path": ".cells[0].morphology[0]"})
    # must be REJECTED: too many children of a bounded list member is not expressible for most types; a second value of
    # a single-valued member cannot be built in memory; the sweep below covers `too-many` where the schema bounds a list
    p = mod.Population(id="p", component="c", size=1, layout=mod.Layout())
    yield ("Population", p, {"kind": "required-choice", "member": None, "owner": "Layout", "inherited": False,
                             "at": "Layout", "depth": 1, "path": ".layout[0]"})


def failure_key(inj):
    kind = inj["kind"]
    if kind == "required-choice":
        return "C03:choice-required"
    if kind == "facet" and inj.get("vclass") == "python-only-space":
        return "C03:pattern-unicode-space"
    if kind == "facet" and inj.get("vclass") == "vt-ff-space":
        return facetgen.space_key("\x0b")      # today: subsumed by pattern-unicode-space; with re.ASCII: what remains
    if kind == "facet" and inj.get("vclass") == "int":
        return "C03:builtin-int-range"
    return "C03:%s-accepted:%s" % (kind, "inherited" if inj["inherited"] else "own")


def check_one(ctx, ir, mod, root_cls, o, inj, lines, pending):
    ok_x, msg, text = bindgen.xsd_verdict(o, root_cls)
    v, vmsg = real_validate(o)
    case = {"root": root_cls, "injection": inj, "xml": text[:8000]}
    key4 = (root_cls, (inj or {}).get("at"), (inj or {}).get("member"), (inj or {}).get("kind"), (inj or {}).get("vclass"))
    ctx.seen(key4 + (text,), nontrivial=(inj is not None and not ok_x))
    if inj is None:
        ctx.count("valid-tree")
    else:
        ctx.count("inject:%s:%s:depth%d" % (inj["kind"], "inherited" if inj["inherited"] else "own", min(inj["depth"], 3)))
        if inj["kind"] == "facet":
            ctx.count("facet-value:%s" % inj.get("vclass"))
        if ok_x:
            ctx.count("injection-still-schema-valid")
        elif v:
            ctx.fail(failure_key(inj), "libxml2 rejects the written XML (%s) but validate(recursive=True) accepts: %s.%s at %s depth %d%s"
                     % (msg[:120], inj["owner"], inj["member"], inj["at"], inj["depth"],
                        (" value %r" % (inj["value"],)) if "value" in inj else ""), case)
    # correspondence with the model walk
    try:
        desc = bindgen.dump(ir, mod, o, root_cls)
        bad = simple_bad_pairs(ir, mod, o, root_cls)
    except Exception as e:
        ctx.disagree("validate-dump", case, repr(e), None)
        return
    lines.append(json.dumps({"op": "validate", "fuel": 12, "obj": bindgen.enc_obj(ir, desc), "bad": bad}))
    pending.append((case, v))


def flush(ctx, lines, pending):
    if not lines:
        return
    rc, out = fw.run_driver("C03", lines)
    if rc != 0 or len(out) != len(lines):
        ctx.disagree("driver", "driver failed rc=%s" % rc, "\n".join(out[-3:])[:500], None)
        return
    for (case, v), l in zip(pending, out):
        ctx.corr_evals += 1
        r = json.loads(l)
        if r.get("all") != v:
            ctx.disagree("validate-walk", case, v, r)


def run(ctx):
    ir = getattr(ctx, "ir", None) or bindgen.IR()
    import neuroml.nml.nml as mod
    gen = facetgen.ValidGen2(ir, ctx.rng, max_depth=3)
    lines, pending = [], []
    for (rc, o, inj) in corpus_objects(mod):
        check_one(ctx, ir, mod, rc, o, inj, lines, pending)
    if getattr(ctx, "broken", None):
        directed(ctx, ir, mod, gen, lines, pending)
    per = ctx.n(2, 20) * ctx.search_mult
    classes = [c["name"] for c in ir.table["classes"]]
    for cls in classes:
        for i in range(per):
            try:
                o = gen.obj(cls)
            except Exception as e:
                ctx.count("gen-failed")
                continue
            if i == 0:
                check_one(ctx, ir, mod, cls, o, None, lines, pending)     # the unviolated tree (must pass)
                v, vm = real_validate(o)
                okx, msg, text = bindgen.xsd_verdict(o, cls)
                if okx and not v:
                    ctx.fail("C03:false-alarm:" + cls, "validate rejects a schema-valid tree: " + vm[:200], {"root": cls, "xml": text[:1500]})
                continue
            inj = inject(gen, ir, ctx.rng, o, cls)
            if inj is None:
                ctx.count("nothing-to-violate")
                continue
            check_one(ctx, ir, mod, cls, o, inj, lines, pending)
        # every KIND of violation applicable to the type itself, once each (kinds such as "required child of a list
        # member" exist for few types and are rarely drawn by the random injection above)
        try:
            probe = gen.obj(cls)
            kinds = sorted({o2[0] for o2 in options_at(gen, ir, probe, cls)})
        except Exception:
            kinds = []
        for kind in kinds:
            try:
                o = gen.obj(cls)
            except Exception:
                continue
            opts = [o2 for o2 in options_at(gen, ir, o, cls) if o2[0] == kind]
            if not opts:
                continue
            opt = ctx.rng.choice(opts)
            apply_option(o, opt)
            check_one(ctx, ir, mod, cls, o, inj_desc(opt, cls, 0, "", sweep=True), lines, pending)
        if len(lines) > 3000:
            flush(ctx, lines, pending)
            lines, pending = [], []
    flush(ctx, lines, pending)
    # simple types: boundary values through the real validators, their model, libxml2 and the Lean value spaces
    info, _ = facetgen.validators(ctx, ir)
    if info is not None:
        facetgen.simple_stream(ctx, ir, mod, info, "C03", n_valid=ctx.n(3, 8))
    file_stream(ctx, ir, mod, gen)
    switch_stream(ctx, ir, mod, gen)
    ctx.sample({"root": "NeuroMLDocument", "injection": {"kind": "required-attr", "member": "id", "owner": "BaseNonNegativeIntegerId", "at": "Segment", "depth": 3}})
    ctx.sample({"root": "IafCell", "injection": {"kind": "facet", "member": "id", "owner": "Base", "value": "a\n", "vclass": "trailing-lf"}})
    ctx.extra["table_obligations"] = ["tables_agree", "facets_agree", "validators_agree", "py_types_functional", "pattern_check_shape",
                                      "nl_free_types"]


def switch_stream(ctx, ir, mod, gen):
    """the verdict is a function of the tree only: the same violated trees / files, judged with build-time validation
    on, after neuroml.disable_build_time_validation(), and after enabling it again (process state restored whatever
    happens)"""
    import neuroml
    import neuroml.utils as U
    import neuroml.writers as W
    was = neuroml.get_build_time_validation()
    cases = []
    for (rc, o, inj) in corpus_objects(mod):
        cases.append((rc, o, inj))
    classes = [c["name"] for c in ir.table["classes"]]
    for i in range(ctx.n(30, 200) * ctx.search_mult):
        cls = ctx.rng.choice(classes) if i % 3 else "NeuroMLDocument"
        try:
            o = gen.obj(cls)
        except Exception:
            continue
        if cls == "NeuroMLDocument":
            o.includes = []
        inj = inject(gen, ir, ctx.rng, o, cls) if i % 5 else None
        cases.append((cls, o, inj))
    tmp = tempfile.mkdtemp(prefix="verif_c03_")
    try:
        files = []
        for k, (cls, o, inj) in enumerate(cases):
            if cls == "NeuroMLDocument" and len(files) < ctx.n(8, 40):
                p = os.path.join(tmp, "s%d.nml" % k)
                try:
                    W.NeuroMLWriter.write(o, p)
                    files.append((k, p))
                except Exception:
                    pass
        verdicts = {}
        for state in ("enabled", "disabled", "re-enabled"):
            try:
                if state == "disabled":
                    neuroml.disable_build_time_validation()
                else:
                    neuroml.enable_build_time_validation()
                verdicts[state] = ([real_validate(o)[0] for (_, o, _) in cases], [file_verdicts(U, p) for (_, p) in files])
            finally:
                neuroml.enable_build_time_validation()
        base_t, base_f = verdicts["enabled"]
        for state in ("disabled", "re-enabled"):
            vt, vf = verdicts[state]
            for k, ((cls, o, inj), a, b) in enumerate(zip(cases, base_t, vt)):
                ctx.seen(("switch", state, k, cls, str(inj)), nontrivial=(not a))
                ctx.count("switch:%s:%s" % (state, "rejected" if a else "accepted"))
                if a != b:
                    ok_x, msg, text = bindgen.xsd_verdict(o, cls)
                    ctx.fail("C03:verdict-depends-on-build-time-switch",
                             "validate(recursive=True) %s the tree with build-time validation enabled but %s it when the switch is %s "
                             "(libxml2 on the written XML: %s); injection %s" % ("accepts" if a else "rejects", "accepts" if b else "rejects",
                                                                              state, "valid" if ok_x else "invalid", inj),
                             {"stream": "switch", "state": state, "root": cls, "injection": inj, "xml": text[:8000]})
            for (k, p), a, b in zip(files, base_f, vf):
                ctx.count("switch-file:%s" % state)
                if a != b:
                    ctx.fail("C03:verdict-depends-on-build-time-switch",
                             "is_valid_neuroml2 / validate_neuroml2 -> %s with build-time validation enabled but %s when the switch is %s; injection %s"
                             % (a, b, state, cases[k][2]),
                             {"stream": "switch-file", "state": state, "injection": cases[k][2], "xml": open(p).read()[:8000]})
    finally:
        if was:
            neuroml.enable_build_time_validation()
        else:
            neuroml.disable_build_time_validation()
        shutil.rmtree(tmp, ignore_errors=True)


def file_verdicts(U, p):
    """(is_valid_neuroml2 verdict, validate_neuroml2 verdict) as small enums"""
    try:
        a = U.is_valid_neuroml2(p)
        a = True if a is True else (False if a is False else "returned:%r" % (a,))
    except BaseException as e:      # the loader calls sys.exit() when an included file is missing
        a = "raised:" + type(e).__name__
    try:
        U.validate_neuroml2(p)
        b = "ok"
    except ValueError:
        b = "ValueError"
    except BaseException as e:
        b = "raised:" + type(e).__name__
    return a, b


def file_case(ctx, ir, mod, d, inj, tmp, name, sch, lines, pending):
    import neuroml.loaders as L
    import neuroml.utils as U
    import neuroml.writers as W
    from lxml import etree
    p = os.path.join(tmp, name)
    try:
        W.NeuroMLWriter.write(d, p)
        doc = etree.parse(p)
    except Exception as e:
        ctx.count("file:write-or-parse-raised")
        return
    okx = bool(sch.validate(doc))
    msg = "" if okx else str(sch.error_log.last_error)[:160]
    a, b = file_verdicts(U, p)
    text = open(p).read()
    case = {"stream": "file", "injection": inj, "xml": text[:8000], "is_valid_neuroml2": a, "validate_neuroml2": b}
    ctx.seen(("file", text), nontrivial=not okx)
    ctx.count("file:depth%s" % ("-none" if inj is None else min(inj["depth"], 4)))
    ctx.count("file:is_valid=%s" % a)
    ctx.count("file:validate=%s" % b)
    if not okx:
        if a is True or b == "ok":
            key = failure_key(inj) if inj else "C03:file-wrapper-accepts:uninjected"
            if key.startswith("C03:") and key.split(":")[1] not in ("choice-required", "pattern-unicode-space", "builtin-int-range", "pattern-ascii-vt-ff"):
                key = "C03:file-wrapper-accepts:" + (inj["kind"] if inj else "none")
            ctx.fail(key, "libxml2 rejects the file (%s) but is_valid_neuroml2 -> %s, validate_neuroml2 -> %s; injection %s"
                     % (msg, a, b, inj), case)
        if a is not True and a is not False:
            ctx.count("file:invalid-reported-by-raising")
    else:
        if a is not True or b != "ok":
            ctx.fail("C03:file-wrapper-false-alarm", "libxml2 accepts the file but is_valid_neuroml2 -> %s, validate_neuroml2 -> %s" % (a, b), case)
    # the two wrappers must agree with each other: is_valid_neuroml2 is False exactly when validate_neuroml2 raises ValueError
    if (a is False) != (b == "ValueError") or (a is True) != (b == "ok"):
        ctx.fail("C03:file-wrappers-disagree", "is_valid_neuroml2 -> %s but validate_neuroml2 -> %s" % (a, b), case)
    # model: the file verdict is the walk over the tree that loading builds
    if a in (True, False):
        try:
            d2 = L.read_neuroml2_file(p, include_includes=True, verbose=False, optimized=True)
            desc = bindgen.dump(ir, mod, d2, "NeuroMLDocument")
            bad = simple_bad_pairs(ir, mod, d2, "NeuroMLDocument")
            lines.append(json.dumps({"op": "validate", "fuel": 14, "obj": bindgen.enc_obj(ir, desc), "bad": bad}))
            pending.append((case, a))
        except Exception as e:
            ctx.disagree("file-dump", case, repr(e)[:200], None)


TWO_MORPHOLOGIES = """<neuroml xmlns="http://www.neuroml.org/schema/neuroml2" id="d">
  <cell id="c">
    <morphology id="m1"><segment id="0"><proximal x="0" y="0" z="0" diameter="1"/><distal x="1" y="0" z="0" diameter="1"/></segment></morphology>
    <morphology id="m2"><segment id="0"><proximal x="0" y="0" z="0" diameter="1"/><distal x="1" y="0" z="0" diameter="1"/></segment></morphology>
  </cell>
</neuroml>
"""


def text_case(ctx, text, tmp, name, sch, inj):
    """a file given as TEXT (violations that cannot be built in memory: an element occurring twice where the member is
    single-valued).  The loader keeps the last one, so the loaded tree is valid: known finding."""
    import neuroml.utils as U
    from lxml import etree
    p = os.path.join(tmp, name)
    with open(p, "w") as fh:
        fh.write(text)
    try:
        okx = bool(sch.validate(etree.parse(p)))
    except Exception:
        return
    msg = "" if okx else str(sch.error_log.last_error)[:160]
    a, b = file_verdicts(U, p)
    case = {"stream": "file", "injection": inj, "xml": text[:8000], "is_valid_neuroml2": a, "validate_neuroml2": b}
    ctx.seen(("file-text", text), nontrivial=not okx)
    ctx.count("file:xml-duplicate:%s" % ("schema-invalid" if not okx else "still-valid"))
    if not okx and (a is True or b == "ok"):
        ctx.fail("C03:file-too-many-single-child", "libxml2 rejects the file (%s) but is_valid_neuroml2 -> %s, validate_neuroml2 -> %s: "
                 "<%s> occurs twice in <%s>" % (msg, a, b, inj["tag"], inj["parent"]), case)
    if okx and (a is not True or b != "ok"):
        ctx.fail("C03:file-wrapper-false-alarm", "libxml2 accepts the file but is_valid_neuroml2 -> %s, validate_neuroml2 -> %s" % (a, b), case)


def file_stream(ctx, ir, mod, gen):
    """documents with one injected violation at every depth, written to disk: libxml2 against the bundled XSD versus
    is_valid_neuroml2 / validate_neuroml2 versus the model walk on the tree loading builds"""
    from lxml import etree
    path, _ = bindgen.emit_xsd.xsd_extract.current_xsd(fw.REPO)
    sch = etree.XMLSchema(etree.parse(path))
    tmp = tempfile.mkdtemp(prefix="verif_c03_")
    lines, pending = [], []
    try:
        # corpus: the three known findings and a trailing line feed, as files
        for k, (rc, o, inj) in enumerate(corpus_objects(mod)):
            if rc == "NeuroMLDocument":
                file_case(ctx, ir, mod, o, inj, tmp, "corpus%d.nml" % k, sch, lines, pending)
        # corpus, known finding C03:file-too-many-single-child: two <morphology> elements in one <cell>
        text_case(ctx, TWO_MORPHOLOGIES, tmp, "corpus_dup.nml", sch, {"kind": "xml-duplicate", "tag": "morphology", "parent": "cell"})
        n = ctx.n(24, 160) * ctx.search_mult
        for i in range(n):
            try:
                d = gen.obj("NeuroMLDocument")
            except Exception:
                ctx.count("gen-failed")
                continue
            d.includes = []      # include resolution is C06's subject (a missing included file makes the loader sys.exit())
            want = i % 6
            inj = None if want == 5 else inject(gen, ir, ctx.rng, d, "NeuroMLDocument", want_depth=want)
            file_case(ctx, ir, mod, d, inj, tmp, "f%d.nml" % i, sch, lines, pending)
            if inj is None:
                # "too many children" at the level of the FILE: one element of the valid file written twice
                p = os.path.join(tmp, "f%d.nml" % i)
                if os.path.exists(p):
                    try:
                        doc = etree.parse(p)
                        els = [e for e in doc.getroot().iter() if isinstance(e.tag, str) and e.getparent() is not None]
                        if els:
                            e = ctx.rng.choice(els)
                            e.addnext(copy.deepcopy(e))
                            text_case(ctx, etree.tostring(doc, encoding="unicode"), tmp, "f%d_dup.nml" % i, sch,
                                      {"kind": "xml-duplicate", "tag": bindgen.localname(e.tag), "parent": bindgen.localname(e.getparent().tag)})
                    except Exception as ex:
                        ctx.count("file:dup-failed")
        flush(ctx, lines, pending)
    finally:
        shutil.rmtree(tmp, ignore_errors=True)


def replay(ctx, payload):
    from lxml import etree
    import neuroml.nml.nml as mod
    case = payload["case"]
    if case.get("stream") == "simple":
        return facetgen.replay_simple(mod, case, "C03")
    if case.get("stream") in ("switch", "switch-file"):
        import neuroml
        import neuroml.utils as U
        tmp = tempfile.mkdtemp(prefix="verif_c03_")
        try:
            if case["stream"] == "switch":
                o = getattr(mod, case["root"]).factory()
                o.build(etree.fromstring(case["xml"].encode("utf-8")))
                judge = lambda: real_validate(o)[0]
            else:
                p = os.path.join(tmp, "replay.nml")
                with open(p, "w") as fh:
                    fh.write(case["xml"])
                judge = lambda: file_verdicts(U, p)
            try:
                neuroml.enable_build_time_validation()
                a = judge()
                neuroml.disable_build_time_validation()
                b = judge()
            finally:
                neuroml.enable_build_time_validation()
        finally:
            shutil.rmtree(tmp, ignore_errors=True)
        return {"fails": a != b, "verdict_with_switch_on": a, "verdict_with_switch_off": b}
    if case.get("stream") == "file":
        import neuroml.utils as U
        tmp = tempfile.mkdtemp(prefix="verif_c03_")
        try:
            p = os.path.join(tmp, "replay.nml")
            with open(p, "w") as fh:
                fh.write(case["xml"])
            path, _ = bindgen.emit_xsd.xsd_extract.current_xsd(fw.REPO)
            sch = etree.XMLSchema(etree.parse(path))
            okx = bool(sch.validate(etree.parse(p)))
            a, b = file_verdicts(U, p)
        finally:
            shutil.rmtree(tmp, ignore_errors=True)
        fails = (not okx and (a is True or b == "ok")) or (okx and (a is not True or b != "ok"))
        return {"fails": bool(fails), "libxml2_valid": okx, "is_valid_neuroml2": a, "validate_neuroml2": b}
    root = etree.fromstring(case["xml"].encode("utf-8"))
    o = getattr(mod, case["root"]).factory().build(root)
    v, vm = real_validate(o)
    okx, msg, _ = bindgen.xsd_verdict(o, case["root"])
    return {"fails": (not okx) and v, "libxml2_valid": okx, "libxml2": msg, "validate_accepts": v}
