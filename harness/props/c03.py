"""C03 — a schema violation anywhere in a tree makes validate(recursive=True) fail.

Tie: translators (nml.py -> Gen/Bindings.lean, XSD -> Gen/Xsd.lean; `tables_agree` / `facets_agree` kernel-checked
per run) + correspondence (real validate verdict vs the model walk) + oracle (libxml2's verdict on the written XML).
"""
import copy
import json
import os
import shutil
import tempfile

import bindgen
import fw

LEAN_PROPS = ["NmlVerif.Props.C03"]
LEVEL = "proof"
RULE = ("schema-conforming trees from the XSD value spaces (root = every one of the 199 types in turn, depth <= 3), then ONE "
        "injected violation at a random descendant: required attribute removed / value outside its pattern, enumeration or range / "
        "required child removed / required choice emptied; own and inherited members, depths 0-3. non-trivial = libxml2 rejects "
        "the written XML (the injection really is a schema violation); distinct = distinct (root type, position class, member, kind)")
TRUST = [
    "translators nml_extract/emit_bindings and xsd_extract/emit_xsd (AST / XSD shape recognition)",
    "simple-type validity is an abstract predicate in the theorems; the facets of both sides are compared syntactically (facets_agree); Python `re` vs XSD regex semantics trusted for the dialect used",
    "libxml2's XSD validator (lxml) is the oracle for 'is a schema violation'",
]
ASSUMPTIONS = [
    "known finding C03:choice-required: the generated validate_ has no item for 'at least one branch of a required choice group' (Layout, GateKS, ...)",
    "file-level wrappers is_valid_neuroml2 / validate_neuroml2 are sampled (load + validate), not modelled",
]


def regenerate(ctx):
    ctx.ir = bindgen.IR()
    return list(ctx.ir.gaps)


def positions(ir, o, cls, depth=0, path=""):
    """[(object, class name, depth, path)] for every component of the tree"""
    out = [(o, cls, depth, path)]
    _, kids = ir.flat(cls)
    for k in kids:
        if k["text"]:
            continue
        v = getattr(o, k["member"], None)
        vs = v if isinstance(v, list) else ([] if v is None else [v])
        for i, c in enumerate(vs):
            out += positions(ir, c, type(c).__name__, depth + 1, "%s.%s[%d]" % (path, k["member"], i))
    return out


def real_validate(o):
    try:
        o.validate(recursive=True)
        return True, ""
    except ValueError as e:
        return False, str(e)[:300]


def simple_bad_pairs(ir, mod, root, cls):
    """(validator id, lexical) pairs the real simple-type validators reject, over the whole tree"""
    from neuroml.nml.generatedscollector import GdsCollector
    bad = []
    for (d, dc, _, _) in positions(ir, root, cls):
        attrs, kids = ir.flat(dc)
        prim = {a["member"]: a["prim"] for a in attrs}
        for k in ir.chain(dc):
            for it in k["validate"]:
                if it[0] != "simple":
                    continue
                v, m = it[1], it[2]
                val = getattr(d, m, None)
                if val is None:
                    continue
                col = GdsCollector()
                old = d.gds_collector_
                d.gds_collector_ = col
                try:
                    getattr(d, "validate_" + v)(val)
                finally:
                    d.gds_collector_ = old
                if col.get_messages():
                    lexv = bindgen.lexical(mod, prim.get(m, "str"), val) if m in prim else val
                    bad.append([ir.ix[v], lexv])
    return bad


def options_at(gen, ir, d, dc):
    """every single-violation option applicable to component d of class dc"""
    options = []
    attrs, kids = ir.flat(dc)
    byxml = {a["xml"]: a for a in attrs}
    bytag = {k["tag"]: k for k in kids}
    for t in gen.xchain(dc):
        inherited = t["name"] != dc
        for a in t["attrs"]:
            fa = byxml.get(a["name"])
            if fa is None:
                continue
            if a["use"] == "required" and getattr(d, fa["member"]) is not None:
                options.append(("required-attr", fa["member"], t["name"], inherited, None))
            st = gen.ST.get(a["type"])
            if st is not None and getattr(d, fa["member"]) is not None:
                base = a["type"]
                k = 0
                while base in gen.ST and k < 10:
                    base, k = gen.ST[base]["base"], k + 1
                if base in ("xs:double", "xs:float"):
                    if st["enums"]:
                        badv = 0.5
                    elif "maxInclusive" in st["bounds"]:
                        badv = float(st["bounds"]["maxInclusive"]) + 1.0
                    else:
                        badv = -1.0
                    options.append(("facet", fa["member"], t["name"], inherited, badv))
                elif base == "xs:string" and (st["patterns"] or st["enums"]):
                    options.append(("facet", fa["member"], t["name"], inherited, "!! not valid !!"))
        for e in emit_elems(t):
            fk = bytag.get(e["tag"])
            if fk is None:
                continue
            v = getattr(d, fk["member"], None)
            n = len(v) if isinstance(v, list) else (0 if v is None else 1)
            if not e["choice"] and e["lo"] >= 1 and n >= 1:
                options.append(("required-child", fk["member"], t["name"], inherited, None))
        if bindgen.emit_xsd.has_required_choice(t["content"]):
            options.append(("required-choice", None, t["name"], inherited,
                            [bytag[e["tag"]]["member"] for e in emit_elems(t) if e["choice"] and e["tag"] in bytag]))
    return options


def apply_option(d, opt):
    kind, member, owner, inherited, badv = opt
    if kind == "required-attr":
        setattr(d, member, None)
    elif kind == "facet":
        setattr(d, member, badv)
    elif kind == "required-child":
        v = getattr(d, member)
        setattr(d, member, [] if isinstance(v, list) else None)
    else:
        for m in badv:
            v = getattr(d, m)
            setattr(d, m, [] if isinstance(v, list) else None)


def inject(gen, ir, rng, root, root_cls):
    """apply one violation in place; -> dict describing it or None"""
    pos = positions(ir, root, root_cls)
    # weighted order: deeper positions first more often (the property is about ANY depth)
    pos = sorted(pos, key=lambda p: -(rng.random() * (p[2] + 1) ** 2))
    for (d, dc, depth, path) in pos:
        options = options_at(gen, ir, d, dc)
        if not options:
            continue
        kinds = sorted({o[0] for o in options})
        kind = rng.choice(kinds)                       # kinds uniformly, then inherited members preferred
        options = [o for o in options if o[0] == kind]
        inh = [x for x in options if x[3]]
        opt = rng.choice(inh if inh and rng.random() < 0.6 else options)
        apply_option(d, opt)
        kind, member, owner, inherited, badv = opt
        return {"kind": kind, "member": member, "owner": owner, "inherited": inherited, "at": dc, "depth": depth, "path": path}
    return None


def directed(ctx, ir, mod, gen, lines, pending):
    """an obligation is broken: ask the model which classes disagree with the schema and try EVERY single violation
    of those classes (as root and one level down) on the real code"""
    rc, out = fw.run_driver("C03", [json.dumps({"op": "agree"})])
    try:
        bad = [ir.names[i] for i in json.loads(out[0]).get("violations", [])]
    except Exception:
        bad = []
    ctx.extra["directed_classes"] = bad
    parents = {}
    for c in ir.table["classes"]:
        for k in ir.flat(c["name"])[1]:
            if k["cls"]:
                parents.setdefault(k["cls"], []).append(c["name"])
    for cls in bad[:20]:
        roots = [cls] + parents.get(cls, [])[:3]
        for root_cls in roots:
            for attempt in range(6):
                try:
                    probe = gen.obj(root_cls)
                except Exception:
                    continue
                targets = [p for p in positions(ir, probe, root_cls) if p[1] == cls]
                if not targets:
                    continue
                nopt = len(options_at(gen, ir, targets[0][0], cls))
                for i in range(nopt):
                    st = ctx.rng.getstate()
                    o = gen.obj(root_cls)
                    ts = [p for p in positions(ir, o, root_cls) if p[1] == cls]
                    if not ts:
                        continue
                    d, dc, depth, path = ts[0]
                    opts = options_at(gen, ir, d, dc)
                    if i >= len(opts):
                        continue
                    apply_option(d, opts[i])
                    kind, member, owner, inherited, badv = opts[i]
                    check_one(ctx, ir, mod, root_cls, o,
                              {"kind": kind, "member": member, "owner": owner, "inherited": inherited, "at": dc,
                               "depth": depth, "path": path, "directed": True}, lines, pending)
                break


def emit_elems(t):
    return bindgen.emit_xsd.xsd_extract.effective_elems(t["content"])


CORPUS = ["segment-without-id", "empty-layout"]


def corpus_objects(mod):
    d = mod.NeuroMLDocument(id="d")
    c = mod.Cell(id="c")
    d.cells.append(c)
    c.morphology = mod.Morphology(id="m")
    c.morphology.segments.append(mod.Segment(distal=mod.Point3DWithDiam(x=0.0, y=0.0, z=0.0, diameter=1.0),
                                             proximal=mod.Point3DWithDiam(x=0.0, y=0.0, z=0.0, diameter=1.0)))
    yield ("NeuroMLDocument", d, {"kind": "required-attr", "member": "id", "owner": "BaseNonNegativeIntegerId",
                                  "inherited": True, "at": "Segment", "depth": 3, "path": ".cells[0].morphology[0].segments[0]"})
    p = mod.Population(id="p", component="c", size=1, layout=mod.Layout())
    yield ("Population", p, {"kind": "required-choice", "member": None, "owner": "Layout", "inherited": False,
                             "at": "Layout", "depth": 1, "path": ".layout[0]"})


def check_one(ctx, ir, mod, root_cls, o, inj, lines, pending):
    ok_x, msg, text = bindgen.xsd_verdict(o, root_cls)
    v, vmsg = real_validate(o)
    case = {"root": root_cls, "injection": inj, "xml": text[:1500]}
    key4 = (root_cls, (inj or {}).get("at"), (inj or {}).get("member"), (inj or {}).get("kind"))
    ctx.seen(key4 + (text,), nontrivial=(inj is not None and not ok_x))
    if inj is None:
        ctx.count("valid-tree")
    else:
        ctx.count("inject:%s:%s:depth%d" % (inj["kind"], "inherited" if inj["inherited"] else "own", min(inj["depth"], 3)))
        if ok_x:
            ctx.count("injection-still-schema-valid")
        elif v:
            kind = inj["kind"]
            key = "C03:choice-required" if kind == "required-choice" else "C03:%s-accepted:%s" % (kind, "inherited" if inj["inherited"] else "own")
            ctx.fail(key, "libxml2 rejects the written XML (%s) but validate(recursive=True) accepts: %s.%s at %s depth %d"
                     % (msg[:120], inj["owner"], inj["member"], inj["at"], inj["depth"]), case)
    # correspondence with the model walk
    try:
        desc = bindgen.dump(ir, mod, o, root_cls)
        bad = simple_bad_pairs(ir, mod, o, root_cls)
    except Exception as e:
        ctx.disagree("validate-dump", case, repr(e), None)
        return
    lines.append(json.dumps({"op": "validate", "fuel": 12, "obj": bindgen.enc_obj(ir, desc), "bad": bad}))
    pending.append((case, v))


def flush(ctx, lines, pending):
    if not lines:
        return
    rc, out = fw.run_driver("C03", lines)
    if rc != 0 or len(out) != len(lines):
        ctx.disagree("driver", "driver failed rc=%s" % rc, "\n".join(out[-3:])[:500], None)
        return
    for (case, v), l in zip(pending, out):
        ctx.corr_evals += 1
        r = json.loads(l)
        if r.get("all") != v:
            ctx.disagree("validate-walk", case, v, r)


def run(ctx):
    ir = getattr(ctx, "ir", None) or bindgen.IR()
    import neuroml.nml.nml as mod
    gen = bindgen.ValidGen(ir, ctx.rng, max_depth=3)
    lines, pending = [], []
    for (rc, o, inj) in corpus_objects(mod):
        check_one(ctx, ir, mod, rc, o, inj, lines, pending)
    if getattr(ctx, "broken", None):
        directed(ctx, ir, mod, gen, lines, pending)
    per = ctx.n(2, 20) * ctx.search_mult
    classes = [c["name"] for c in ir.table["classes"]]
    for cls in classes:
        for i in range(per):
            try:
                o = gen.obj(cls)
            except Exception as e:
                ctx.count("gen-failed")
                continue
            if i == 0:
                check_one(ctx, ir, mod, cls, o, None, lines, pending)     # the unviolated tree (must pass)
                v, vm = real_validate(o)
                okx, msg, text = bindgen.xsd_verdict(o, cls)
                if okx and not v:
                    ctx.fail("C03:false-alarm:" + cls, "validate rejects a schema-valid tree: " + vm[:200], {"root": cls, "xml": text[:1500]})
                continue
            inj = inject(gen, ir, ctx.rng, o, cls)
            if inj is None:
                ctx.count("nothing-to-violate")
                continue
            check_one(ctx, ir, mod, cls, o, inj, lines, pending)
        if len(lines) > 3000:
            flush(ctx, lines, pending)
            lines, pending = [], []
    flush(ctx, lines, pending)
    # file-level wrappers
    import neuroml.utils as U
    import neuroml.writers as W
    tmp = tempfile.mkdtemp(prefix="verif_c03_")
    try:
        for i in range(ctx.n(6, 40)):
            d = gen.obj("NeuroMLDocument")
            inj = inject(gen, ir, ctx.rng, d, "NeuroMLDocument") if i % 2 else None
            p = os.path.join(tmp, "f%d.nml" % i)
            try:
                W.NeuroMLWriter.write(d, p)
            except Exception:
                ctx.count("file-write-raised")
                continue
            okx, msg, _ = bindgen.xsd_verdict(d, "NeuroMLDocument")
            try:
                verdict = U.is_valid_neuroml2(p)
            except Exception as e:
                verdict = False
            ctx.count("file-wrapper-cases")
            ctx.seen(("file", i, str(inj)))
            if not okx and verdict and inj and inj["kind"] != "required-choice":
                ctx.fail("C03:file-wrapper-accepts", "is_valid_neuroml2 accepts a schema-invalid file: %s" % (inj,), {"injection": inj})
    finally:
        shutil.rmtree(tmp, ignore_errors=True)
    ctx.sample({"root": "NeuroMLDocument", "injection": {"kind": "required-attr", "member": "id", "owner": "BaseNonNegativeIntegerId", "at": "Segment", "depth": 3}})
    ctx.extra["table_obligations"] = ["tables_agree", "facets_agree"]


def replay(ctx, payload):
    from lxml import etree
    import neuroml.nml.nml as mod
    case = payload["case"]
    root = etree.fromstring(case["xml"].encode("utf-8"))
    o = getattr(mod, case["root"]).factory().build(root)
    v, vm = real_validate(o)
    okx, msg, _ = bindgen.xsd_verdict(o, case["root"])
    return {"fails": (not okx) and v, "libxml2_valid": okx, "libxml2": msg, "validate_accepts": v}
