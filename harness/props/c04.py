"""C04 — loading depends only on XML content; load/write reaches a fixed point; writing is pure.

Tie: same regenerated binding table as C01 (+ kernel-checked obligations) and a correspondence stream feeding
presentation VARIANTS of real XML text to the real `build` and to the model's `buildObj`.
"""
import copy
import io
import json
import os
import re
import shutil
import tempfile

import bindgen
import fw
from props import c01

LEAN_PROPS = ["NmlVerif.Props.C04"]
LEVEL = "proof"
RULE = ("for every binding class: random objects exported by the real writer, then rewritten by presentation-preserving "
        "transformations of the XML text (attribute permutation, whitespace and comments between children, explicitly "
        "written defaults, numeric respellings +x / trailing zeros / exponent form / leading zeros, an undeclared "
        "attribute is NOT a variant and is not used); 3 load/write cycles compared byte-wise; export called twice; "
        "in-memory document dumped before/after export. non-trivial = the variant text differs from the original; "
        "distinct = distinct (class, variant kind, text)")
TRUST = c01.TRUST + ["numeric respellings are decided by CPython float()/int(): trusted, sampled here"]
ASSUMPTIONS = c01.ASSUMPTIONS + [
    "fixed point and byte stability are stated for documents without xs:any content; annotation children are a known finding (C04:any-content-tail-growth)",
]


def regenerate(ctx):
    ctx.ir = bindgen.IR()
    return list(ctx.ir.gaps)


def respell(rng, prim, v):
    if prim in ("float", "double"):
        k = rng.randint(0, 3)
        if "e" in v.lower() or "inf" in v or "nan" in v:
            return "+" + v if not v.startswith("-") and k == 0 else v
        if k == 0 and "." in v:
            return v + "0"
        if k == 1 and not v.startswith("-"):
            return "+" + v
        if k == 2:
            return v + "e0"
        if k == 3 and "." in v and not v.startswith("-"):
            return "0" + v
        return v
    if prim == "int":
        k = rng.randint(0, 1)
        if v.startswith("-"):
            return "-0" + v[1:] if k else v
        return "+" + v if k == 0 else "0" + v
    return v


def variants(ir, rng, text, cls):
    """-> list of (kind, variant text) built with lxml from the writer's own output"""
    from lxml import etree
    out = []
    parser = etree.XMLParser(remove_comments=False)

    def walk(el, c, f):
        if c == "#text" or c is None:
            return
        attrs, kids = ir.flat(c)
        f(el, c, attrs, kids)
        bytag = {k["tag"]: k for k in kids}
        for ch in el:
            if isinstance(ch.tag, str):
                k = bytag.get(bindgen.localname(ch.tag))
                if k is not None:
                    walk(ch, "#text" if k["text"] else k["cls"], f)

    # 1. attribute order
    root = etree.fromstring(text.encode("utf-8"), parser)

    def perm(el, c, attrs, kids):
        items = list(el.attrib.items())
        rng.shuffle(items)
        for k in list(el.attrib):
            del el.attrib[k]
        for k, v in items:
            el.set(k, v)
    walk(root, cls, perm)
    out.append(("attr-order", etree.tostring(root, encoding="unicode")))
    # 2. whitespace and comments between children of element-only content
    root = etree.fromstring(text.encode("utf-8"), parser)

    def ws(el, c, attrs, kids):
        if len(el):
            el.text = (el.text or "") + rng.choice(["\n\n", "  ", "\t\n "])
            for i, ch in enumerate(list(el)):
                ch.tail = (ch.tail or "") + rng.choice(["\n", " ", "\n   \n"])
            if rng.random() < 0.7:
                el.insert(rng.randint(0, len(el)), etree.Comment(" a comment <with> &amp; stuff "))
        elif not any(k["text"] for k in kids) and rng.random() < 0.3 and c != "#text":
            pass
    walk(root, cls, ws)
    out.append(("whitespace-comments", etree.tostring(root, encoding="unicode")))
    # 3. explicitly written defaults
    root = etree.fromstring(text.encode("utf-8"), parser)
    changed = [False]

    def defaults(el, c, attrs, kids):
        for a in attrs:
            if a["guard"][0] == "ne" and a["xml"] not in el.attrib:
                d = bindgen.emit_bindings.lex(a["guard"][1], a["prim"])
                el.set(a["xml"], d)
                changed[0] = True
    walk(root, cls, defaults)
    if changed[0]:
        out.append(("explicit-default", etree.tostring(root, encoding="unicode")))
    # 4. numeric respellings
    root = etree.fromstring(text.encode("utf-8"), parser)
    changed = [False]

    def nums(el, c, attrs, kids):
        for a in attrs:
            if a["prim"] in ("float", "double", "int") and a["xml"] in el.attrib:
                v = el.attrib[a["xml"]]
                w = respell(rng, a["prim"], v)
                if w != v:
                    el.set(a["xml"], w)
                    changed[0] = True
    walk(root, cls, nums)
    if changed[0]:
        out.append(("numeric-respelling", etree.tostring(root, encoding="unicode")))
    return out


def shallow(o):
    """identity-level snapshot of an object's own fields (no __repr__ of generated classes involved)"""
    def one(v):
        if isinstance(v, (str, int, float, bool)) or v is None:
            return repr(v)
        if isinstance(v, list):
            return [one(x) for x in v]
        return "obj@%d" % id(v)
    return sorted((k, one(v)) for k, v in vars(o).items() if not k.startswith("gds_"))


def load_text(mod, cls, text):
    from lxml import etree
    parser = etree.ETCompatXMLParser() if hasattr(etree, "ETCompatXMLParser") else etree.XMLParser(remove_comments=True)
    root = etree.fromstring(text.encode("utf-8"), parser)
    return getattr(mod, cls).factory().build(root), root


ANY_DOC = ('<neuroml xmlns="http://www.neuroml.org/schema/neuroml2" id="d">\n'
           '    <izhikevichCell id="c" v0="-70mV" thresh="30mV" a="0.02" b="0.2" c="-65" d="6">\n'
           '        <annotation>\n            <foo a="1"><bar/></foo>\n        </annotation>\n'
           '    </izhikevichCell>\n</neuroml>\n')


def cycles(mod, cls, text, tag, n=3):
    texts = []
    t = text
    for _ in range(n):
        o, _ = load_text(mod, cls, t)
        t = bindgen.export_text(o, tag)
        texts.append(t)
    return texts


def run(ctx):
    ir = getattr(ctx, "ir", None) or bindgen.IR()
    import neuroml.nml.nml as mod
    gen = bindgen.Gen(ir, ctx.rng, special=True, max_depth=ctx.n(2, 3), max_list=ctx.n(2, 3))
    lines, pending = [], []
    # corpus: the known finding (xs:any content grows on every cycle)
    try:
        ts = cycles(mod, "NeuroMLDocument", ANY_DOC, "neuroml", 4)
        ctx.seen({"corpus": "any-doc"})
        if not (ts[0] == ts[1] == ts[2] == ts[3]):
            ctx.fail("C04:any-content-tail-growth", "written bytes never stabilise: %s" % [len(t) for t in ts],
                     {"text": ANY_DOC, "lengths": [len(t) for t in ts]})
    except Exception as e:
        ctx.fail("C04:any-doc-raised", repr(e), {"text": ANY_DOC})
    per = ctx.n(2, 25) * ctx.search_mult
    classes = [c["name"] for c in ir.table["classes"]]
    for cls in classes:
        tag = c01.tag_for(ir, cls)
        for _ in range(per):
            try:
                o, desc = gen.obj(cls)
            except Exception:
                ctx.count("ctor-raised")
                continue
            if c01.has_cdata_text(desc):
                ctx.count("skipped-cdata-in-text")
                continue
            case = {"cls": cls, "desc": desc}
            # purity and determinism of writing
            before = bindgen.meta_dump(o)
            dict_before = shallow(o)
            try:
                t_a = bindgen.export_text(o, tag)
                t_b = bindgen.export_text(o, tag)
            except Exception as e:
                ctx.fail("C04:export-raised:" + cls, repr(e), case)
                continue
            if t_a != t_b:
                ctx.fail("C04:write-twice-differs:" + cls, "two writes of one document differ", dict(case, a=t_a[:400], b=t_b[:400]))
            if bindgen.meta_diff(before, bindgen.meta_dump(o), cls) or dict_before != shallow(o):
                ctx.fail("C04:write-mutates:" + cls, "writing changed the in-memory component", case)
            # reference load
            try:
                ref, _ = load_text(mod, cls, t_a)
                ref_dump = bindgen.meta_dump(ref)
            except Exception as e:
                ctx.fail("C04:load-raised:" + cls, repr(e), dict(case, text=t_a[:500]))
                continue
            # fixed point
            try:
                ts = cycles(mod, cls, t_a, tag, 3)
                ctx.count("cycle-checks")
                if not (ts[0] == ts[1] == ts[2]):
                    ctx.fail("C04:no-fixed-point:" + cls, "bytes change between load/write cycles", dict(case, texts=[t[:400] for t in ts]))
                elif bindgen.meta_diff(ref_dump, bindgen.meta_dump(load_text(mod, cls, ts[0])[0]), cls):
                    ctx.fail("C04:reload-differs:" + cls, "loading the rewritten file gives a different document", case)
            except Exception as e:
                ctx.fail("C04:cycle-raised:" + cls, repr(e), case)
            # presentation variants
            try:
                vs = variants(ir, ctx.rng, t_a, cls)
            except Exception as e:
                ctx.notes.append("variant generator failed: %r" % (e,))
                vs = []
            for kind, vt in vs:
                ctx.seen({"cls": cls, "kind": kind, "text": vt}, nontrivial=(vt != t_a))
                ctx.count("variant:" + kind)
                try:
                    ov, rootv = load_text(mod, cls, vt)
                except Exception as e:
                    ctx.fail("C04:variant-load-raised:%s:%s" % (kind, cls), repr(e), dict(case, variant=vt[:600]))
                    continue
                d = bindgen.meta_diff(ref_dump, bindgen.meta_dump(ov), cls)
                if d:
                    ctx.fail("C04:variant-differs:%s:%s" % (kind, cls), "variant loads differently: " + c01.dstr(d),
                             dict(case, original=t_a[:600], variant=vt[:600]))
                # correspondence: model build on the variant tree vs real build (tree level; numeric respellings are below
                # the tree level, so those variants are compared through the real code only)
                if kind != "numeric-respelling":
                    try:
                        tree = bindgen.xml_to_tree(ir, rootv, cls)
                        dv = bindgen.dump(ir, mod, ov, cls)
                    except Exception as e:
                        ctx.disagree("binding-dump", case, repr(e), None)
                        continue
                    lines.append(json.dumps({"op": "build", "cls": ir.ix[cls], "fuel": 12, "node": bindgen.enc_tree(ir, tree)}))
                    pending.append(("build", dict(case, kind=kind), dv))
        if len(lines) > 3000:
            c01.flush(ctx, ir, lines, pending)
            lines, pending = [], []
    c01.flush(ctx, ir, lines, pending)
    # whole files through the loader/writer pair
    import neuroml.loaders as L
    import neuroml.writers as W
    tmp = tempfile.mkdtemp(prefix="verif_c04_")
    try:
        for i in range(ctx.n(8, 80)):
            o, desc = gen.obj("NeuroMLDocument")
            if c01.has_cdata_text(desc):
                continue
            p1, p2, p3 = (os.path.join(tmp, "d%d_%d.nml" % (i, k)) for k in range(3))
            try:
                W.NeuroMLWriter.write(o, p1)
                W.NeuroMLWriter.write(L.NeuroMLLoader.load(p1), p2)
                W.NeuroMLWriter.write(L.NeuroMLLoader.load(p2), p3)
                b1, b2, b3 = (open(p, "rb").read() for p in (p1, p2, p3))
                ctx.seen({"doc": desc})
                ctx.count("doc-cycles")
                if not (b1 == b2 == b3):
                    ctx.fail("C04:no-fixed-point:file", "file bytes change between load/write cycles", {"cls": "NeuroMLDocument", "desc": desc})
            except Exception as e:
                ctx.fail("C04:doc-raised", repr(e), {"cls": "NeuroMLDocument", "desc": desc})
    finally:
        shutil.rmtree(tmp, ignore_errors=True)
    ctx.sample({"variant kinds": ["attr-order", "whitespace-comments", "explicit-default", "numeric-respelling"]})
    ctx.sample({"known finding corpus": ANY_DOC})


def replay(ctx, payload):
    import neuroml.nml.nml as mod
    case = payload["case"]
    if "variant" in case and "original" in case:
        a, _ = load_text(mod, case["cls"], case["original"])
        b, _ = load_text(mod, case["cls"], case["variant"])
        d = bindgen.meta_diff(bindgen.meta_dump(a), bindgen.meta_dump(b), case["cls"])
        return {"fails": bool(d), "difference": c01.dstr(d) if d else None}
    if "text" in case:
        ts = cycles(mod, "NeuroMLDocument", case["text"], "neuroml", 4)
        return {"fails": not (ts[0] == ts[1] == ts[2] == ts[3]), "lengths": [len(t) for t in ts]}
    return {"fails": False, "note": "case kind not replayable"}
