"""C04 — loading depends only on XML content; load/write reaches a fixed point; writing is pure.

Tie: same regenerated binding table as C01 (+ kernel-checked obligations) and a correspondence stream feeding
presentation VARIANTS of real XML text to the real `build` and to the model's `buildObj`.
"""
import copy
import io
import json
import os
import re
import shutil
import tempfile

import bindgen
import fw
import textgen
from props import c01

LEAN_PROPS = ["NmlVerif.Props.C04", "NmlVerif.Props.C04Text", "NmlVerif.Props.C01E2E"]
LEVEL = "proof"
RULE = ("for every binding class: random objects exported by the real writer, then rewritten by presentation-preserving "
        "transformations: (tree level, via lxml) attribute permutation, whitespace and comments between children, explicitly "
        "written defaults, numeric respellings +x / trailing zeros / exponent form / leading zeros; (text level, textgen.mangle) "
        "entity and character-reference respellings, delimiter swap, white space inside tags, comments / PIs between children and "
        "inside text, CDATA wrapping, <a/> vs <a></a>, XML declaration, CRLF / CR line ends; all loaded through the library's own "
        "parser configuration; 3 load/write cycles compared byte-wise; source texts NOT produced by the writer (hand-written corpus "
        "and the model's serialisation of the object) loaded, written, loaded; a sequence of loads in one process with includes and "
        "default arguments incl. a rewritten file; a 400-segment morphology written three times; the same path written twice; "
        "trees with a past. non-trivial = the variant text differs from the original; distinct = distinct (class, variant kind, text)")
TRUST = c01.TRUST + ["floating-point respellings are decided by CPython float(): trusted, sampled here; integer / boolean spellings are modelled exactly"]
ASSUMPTIONS = c01.ASSUMPTIONS + [
    "fixed point and byte stability are stated for documents without xs:any content; annotation children are a known finding (C04:any-content-tail-growth)",
    "TAB / CR inside attribute values of a LOADED document do not survive a write (known finding C04:tab-cr-in-attribute)",
    "process state across loads (caches, shared defaults) is checked by the load-history oracle only; its model is C07's",
]


def regenerate(ctx):
    ctx.ir = bindgen.IR()
    info = {}
    gaps = c01.py2lean_quote.regenerate(fw.REPO, fw.LEAN, info)
    ctx.extra.update(info)
    return list(ctx.ir.gaps) + gaps


def respell(rng, prim, v):
    if prim in ("float", "double"):
        k = rng.randint(0, 3)
        if "e" in v.lower() or "inf" in v.lower() or "nan" in v.lower():
            return "+" + v if not v.startswith("-") and k == 0 else v
        if k == 0 and "." in v:
            return v + "0"
        if k == 1 and not v.startswith("-"):
            return "+" + v
        if k == 2:
            return v + "e0"
        if k == 3 and "." in v and not v.startswith("-"):
            return "0" + v
        return v
    if prim == "int":
        k = rng.randint(0, 1)
        if v.startswith("-"):
            return "-0" + v[1:] if k else v
        return "+" + v if k == 0 else "0" + v
    return v


def variants(ir, rng, text, cls):
    """-> list of (kind, variant text) built with lxml from the writer's own output"""
    from lxml import etree
    out = []
    parser = etree.XMLParser(remove_comments=False)

    def walk(el, c, f):
        if c == "#text" or c is None:
            return
        attrs, kids = ir.flat(c)
        f(el, c, attrs, kids)
        bytag = {k["tag"]: k for k in kids}
        for ch in el:
            if isinstance(ch.tag, str):
                k = bytag.get(bindgen.localname(ch.tag))
                if k is not None:
                    walk(ch, "#text" if k["text"] else k["cls"], f)

    # 1. attribute order
    root = etree.fromstring(text.encode("utf-8"), parser)

    def perm(el, c, attrs, kids):
        items = list(el.attrib.items())
        rng.shuffle(items)
        for k in list(el.attrib):
            del el.attrib[k]
        for k, v in items:
            el.set(k, v)
    walk(root, cls, perm)
    out.append(("attr-order", etree.tostring(root, encoding="unicode")))
    # 2. whitespace and comments between children of element-only content
    root = etree.fromstring(text.encode("utf-8"), parser)

    def ws(el, c, attrs, kids):
        if len(el):
            el.text = (el.text or "") + rng.choice(["\n\n", "  ", "\t\n "])
            for i, ch in enumerate(list(el)):
                ch.tail = (ch.tail or "") + rng.choice(["\n", " ", "\n   \n"])
            if rng.random() < 0.7:
                el.insert(rng.randint(0, len(el)), etree.Comment(" a comment <with> &amp; stuff "))
        elif not any(k["text"] for k in kids) and rng.random() < 0.3 and c != "#text":
            pass
    walk(root, cls, ws)
    out.append(("whitespace-comments", etree.tostring(root, encoding="unicode")))
    # 3. explicitly written defaults
    root = etree.fromstring(text.encode("utf-8"), parser)
    changed = [False]

    def defaults(el, c, attrs, kids):
        for a in attrs:
            if a["guard"][0] == "ne" and a["xml"] not in el.attrib:
                d = bindgen.emit_bindings.lex(a["guard"][1], a["prim"])
                el.set(a["xml"], d)
                changed[0] = True
    walk(root, cls, defaults)
    if changed[0]:
        out.append(("explicit-default", etree.tostring(root, encoding="unicode")))
    # 4. numeric respellings
    root = etree.fromstring(text.encode("utf-8"), parser)
    changed = [False]

    def nums(el, c, attrs, kids):
        for a in attrs:
            if a["prim"] in ("float", "double", "int") and a["xml"] in el.attrib:
                v = el.attrib[a["xml"]]
                w = respell(rng, a["prim"], v)
                if w != v:
                    el.set(a["xml"], w)
                    changed[0] = True
    walk(root, cls, nums)
    if changed[0]:
        out.append(("numeric-respelling", etree.tostring(root, encoding="unicode")))
    return out


def shallow(o):
    """identity-level snapshot of an object's own fields (no __repr__ of generated classes involved)"""
    def one(v):
        if isinstance(v, (str, int, float, bool)) or v is None:
            return repr(v)
        if isinstance(v, list):
            return [one(x) for x in v]
        return "obj@%d" % id(v)
    return sorted((k, one(v)) for k, v in vars(o).items() if not k.startswith("gds_"))


def load_text(mod, cls, text):
    root = textgen.lib_parse(mod, text)              # the library's own parser configuration (parsexmlstring_)
    return getattr(mod, cls).factory().build(root), root


ANY_DOC = ('<neuroml xmlns="http://www.neuroml.org/schema/neuroml2" id="d">\n'
           '    <izhikevichCell id="c" v0="-70mV" thresh="30mV" a="0.02" b="0.2" c="-65" d="6">\n'
           '        <annotation>\n            <foo a="1"><bar/></foo>\n        </annotation>\n'
           '    </izhikevichCell>\n</neuroml>\n')


def cycles(mod, cls, text, tag, n=3):
    texts = []
    t = text
    for _ in range(n):
        o, _ = load_text(mod, cls, t)
        t = bindgen.export_text(o, tag)
        texts.append(t)
    return texts


XMLNS = [[" ", "xmlns", '"', "http://www.neuroml.org/schema/neuroml2"]]

SOURCE_CORPUS = [
    # (class, source text not in the writer's own style)
    ("NeuroMLDocument", '<neuroml xmlns="http://www.neuroml.org/schema/neuroml2" id="d">\n'
                        '  <property tag="description" value="first line&#10;second line &amp; more"/>\n</neuroml>\n'),
    ("NeuroMLDocument", "<?xml version='1.0' encoding='UTF-8'?>\r\n<neuroml xmlns='http://www.neuroml.org/schema/neuroml2' id = 'd' >\r\n"
                        "<!-- a comment --><notes>a &lt;b&gt; <![CDATA[& raw <stuff>]]> c&#10;d&#9;e</notes>\r\n"
                        "<property value='it&apos;s &quot;x&quot;&#10;' tag=\"&#x41;&#66;\"/><property tag='t' value=''></property>\r\n</neuroml>"),
    ("Segment", '<segment xmlns="http://www.neuroml.org/schema/neuroml2" name="a&#10;&#10;b&#9;c&#13;d" id="1"/>'),   # KNOWN FINDING
    ("Segment", '<segment xmlns="http://www.neuroml.org/schema/neuroml2" name="a&#10;&#10;b &#x20AC;" id="007"><parent segment="+5" '
                'fractionAlong="1e0"/><distal z="0" y="-0.0" x="1.50" diameter="&#49;"/></segment>'),
    ("Property", '<property xmlns="http://www.neuroml.org/schema/neuroml2" tag="&lt;&#60;&#x3c;&amp;lt;" value="&#38;#10;"/>'),
]


def source_corpus(ctx, mod):
    for cls, text in SOURCE_CORPUS:
        ctx.seen({"source-corpus": text})
        ctx.count("source-corpus")
        source_cycle(ctx, mod, cls, text, {"cls": cls, "source": text})


def tab_cr_normalised(d):
    import ast as _ast
    _, a, b = d
    if isinstance(a, list) and isinstance(b, list) and a[:2] == ["v", "str"] and b[:2] == ["v", "str"]:
        sa, sb = _ast.literal_eval(a[2]), _ast.literal_eval(b[2])
        return ("\t" in sa or "\r" in sa) and sa.replace("\r\n", " ").replace("\t", " ").replace("\r", " ") == sb
    return False


def source_cycle(ctx, mod, cls, text, case, expect=None):
    """load a source text, write what was loaded, load that, write again"""
    tag = re.search(r"<([A-Za-z_][\w.\-]*)", re.sub(r"<\?.*?\?>|<!--.*?-->", "", text, flags=re.S)).group(1)
    try:
        d1, _ = load_text(mod, cls, text)
        m1 = bindgen.meta_dump(d1)
    except Exception as e:
        ctx.fail("C04:source-load-raised:" + cls, repr(e), case)
        return
    if expect is not None:
        d = bindgen.meta_diff(expect, m1, cls)
        if d:
            ctx.fail("C04:source-loads-differently:" + cls, "a text the model wrote for a document loads as a different document: "
                     + c01.dstr(d), case)
            return
    try:
        t1 = bindgen.export_text(d1, tag)
        d2, _ = load_text(mod, cls, t1)
        t2 = bindgen.export_text(d2, tag)
    except Exception as e:
        ctx.fail("C04:cycle-raised:" + cls, repr(e), case)
        return
    ctx.count("source-cycles")
    d = bindgen.meta_diff(m1, bindgen.meta_dump(d2), cls)
    if d and tab_cr_normalised(d):
        ctx.fail("C04:tab-cr-in-attribute", "a TAB / CR that the loaded document holds in an attribute value is written literally and "
                 "comes back as a space: " + c01.dstr(d), dict(case, written=t1[:600]))
    elif d:
        ctx.fail("C04:reload-differs:" + cls, "writing a loaded document and loading the result gives a different document: "
                 + c01.dstr(d), dict(case, written=t1[:600]))
    elif t1 != t2:
        ctx.fail("C04:no-fixed-point:" + cls, "bytes change between load/write cycles", dict(case, texts=[t1[:400], t2[:400]]))


def model_source_cycle(ctx, ir, mod, mbatch, msources, cls, tag, desc, expect):
    def cont(r, cls=cls, tag=tag, desc=desc, expect=expect):
        if "ok" not in r:
            return
        mt = bindgen.dec_tree(ir, r["ok"])
        if mt["tag"].startswith("?"):
            mt["tag"] = tag
        msources.append((cls, tag, desc, expect, mt))
    mbatch.add({"op": "export", "tag": ir.ix.get(tag, 10 ** 6), "fuel": 12, "obj": bindgen.enc_obj(ir, desc)}, cont)


NSQ = 'xmlns="http://www.neuroml.org/schema/neuroml2"'
VARIANT_CORPUS = [
    # (class, text, presentation variant of it): both must load to the same document
    ("NeuroMLDocument", '<neuroml %s id="d"><notes>  abc</notes></neuroml>' % NSQ, '<neuroml %s id="d"><notes>  <!--c-->abc</notes></neuroml>' % NSQ),
    ("NeuroMLDocument", '<neuroml %s id="d"><notes>abc  </notes></neuroml>' % NSQ, '<neuroml %s id="d"><notes>abc<!--c-->  </notes></neuroml>' % NSQ),
    ("NeuroMLDocument", '<neuroml %s id="d"><notes>   </notes></neuroml>' % NSQ, '<neuroml %s id="d" ><notes><![CDATA[   ]]></notes></neuroml>' % NSQ),
    ("NeuroMLDocument", '<neuroml %s id="d"><notes>a\nb</notes></neuroml>' % NSQ, '<neuroml %s id="d"><notes>a\r\nb</notes>\r\n</neuroml>' % NSQ),
    ("NeuroMLDocument", '<neuroml %s id="d"><notes></notes></neuroml>' % NSQ, '<neuroml %s id="d"><notes/></neuroml>' % NSQ),
    ("Segment", '<segment %s id="7" name="a b"><distal x="1" y="2" z="3" diameter="4"/></segment>' % NSQ,
     "<segment %s\n name = 'a&#32;b' id='+007' >\n<!-- c --><distal diameter='4.0' z='3e0' y='+2' x='1.'></distal></segment >" % NSQ),
]


def variant_corpus(ctx, mod):
    for cls, a, b in VARIANT_CORPUS:
        ctx.seen({"variant-corpus": b})
        ctx.count("variant-corpus")
        case = {"cls": cls, "original": a, "variant": b}
        try:
            da, _ = load_text(mod, cls, a)
            db, _ = load_text(mod, cls, b)
        except Exception as e:
            ctx.fail("C04:variant-load-raised:corpus:" + cls, repr(e), case)
            continue
        d = bindgen.meta_diff(bindgen.meta_dump(da), bindgen.meta_dump(db), cls)
        if d:
            ctx.fail("C04:variant-differs:corpus:" + cls, "variant loads differently: " + c01.dstr(d), case)


def big_write_twice(ctx, mod):
    """"writing twice gives the same bytes" on a document with more than a thousand distinct double values and both
    zeros far apart (anything cached by value inside the writer shows on the SECOND write)"""
    import io
    n = 400
    segs = []
    for i in range(n):
        z = 0.0 if i == 0 else (-0.0 if i == n - 1 else 0.125 * i + 1000.0)
        segs.append(mod.Segment(id=i, distal=mod.Point3DWithDiam(x=z, y=0.25 * i + 5000.0, z=-(0.5 * i + 9000.0), diameter=1.0 + i / 1024.0)))
    m = mod.Morphology(id="m", segments=segs)
    case = {"big": "Morphology with %d segments, %d distinct doubles, x=0.0 first and x=-0.0 last" % (n, 4 * n - 1)}
    ctx.seen(case)
    ctx.count("big-write-twice")
    outs = []
    for _ in range(3):
        f = io.StringIO()
        m.export(f, 0, name_="morphology", namespacedef_=NSQ)
        outs.append(f.getvalue())
    if not (outs[0] == outs[1] == outs[2]):
        k = next(i for i in range(min(len(outs[0]), len(outs[1]))) if outs[0][i] != outs[1][i]) if outs[0] != outs[1] else None
        ctx.fail("C04:write-twice-differs:big-morphology", "successive writes of one unchanged document differ" +
                 (": first write %r, second write %r" % (outs[0][max(0, k - 40):k + 20], outs[1][max(0, k - 40):k + 20]) if k is not None else ""), case)
        return
    try:
        back, _ = load_text(mod, "Morphology", outs[0])
        d = bindgen.meta_diff(bindgen.meta_dump(m), bindgen.meta_dump(back), "Morphology")
        if d:
            ctx.fail("C04:reload-differs:big-morphology", "the written document loads differently: " + c01.dstr(d), case)
    except Exception as e:
        ctx.fail("C04:load-raised:big-morphology", repr(e), case)


INC_MAIN = ('<neuroml xmlns="http://www.neuroml.org/schema/neuroml2" id="main%d">\n    <include href="%s"/>\n'
            '    <izhikevichCell id="m%d" v0="-70mV" thresh="30mV" a="0.02" b="0.2" c="-65" d="6"/>\n</neuroml>\n')
INC_CELLS = ('<neuroml xmlns="http://www.neuroml.org/schema/neuroml2" id="cells">\n'
             '    <izhikevichCell id="c0" v0="-70mV" thresh="30mV" a="0.02" b="0.2" c="-65" d="6"/>\n'
             '    <iafCell id="i0" leakReversal="-50mV" thresh="-55mV" reset="-70mV" C="0.2nF" leakConductance="0.01uS"/>\n</neuroml>\n')


def load_history(ctx):
    """"loading depends only on XML content": a SEQUENCE of loads in one process (default arguments, includes resolved):
    a file, a presentation variant of it including the same file, the first file again -- every load must give what a
    load of that file gives on its own (first in the sequence)"""
    import neuroml.loaders as L
    tmp = tempfile.mkdtemp(prefix="verif_c04h_")
    try:
        inc = os.path.join(tmp, "cells.nml")
        open(inc, "w").write(INC_CELLS)
        a, b = os.path.join(tmp, "a.nml"), os.path.join(tmp, "b.nml")
        ta = INC_MAIN % (0, "cells.nml", 0)
        open(a, "w").write(ta)
        mg = textgen.mangle(ctx.rng, ta, ["attr-order", "attr-ws", "comments", "quotes", "empty-pair"])
        open(b, "w").write(mg[1] if mg else ta)
        seq = [("file", a), ("file", b), ("file", a), ("loader", a), ("file", b), ("noinc", a), ("file", a)]
        dumps = []
        for kind, p in seq:
            try:
                if kind == "loader":
                    d = L.NeuroMLLoader.load(p)
                elif kind == "noinc":
                    d = L.read_neuroml2_file(p)
                else:
                    d = L.read_neuroml2_file(p, include_includes=True)
                dumps.append(bindgen.meta_dump(d))
            except BaseException as e:
                dumps.append(["v", "raised", repr(e)])
        # the same PATH with new content: the load must show the new content (nothing remembered per file name)
        tc = INC_MAIN % (1, "cells.nml", 1)
        open(a, "w").write(tc)
        for kind in ("file", "loader"):
            try:
                d = L.NeuroMLLoader.load(a) if kind == "loader" else L.read_neuroml2_file(a, include_includes=True)
                got = (d.id, [c.id for c in d.izhikevich_cells])
            except BaseException as e:
                got = repr(e)
            want = ("main1", ["m1"] if kind == "loader" else ["m1", "c0"])
            ctx.count("load-history-steps")
            if got != want and not (isinstance(got, tuple) and got[0] == "main1" and sorted(got[1]) == sorted(want[1])):
                ctx.fail("C04:load-depends-on-history", "a file that was rewritten between two loads of the same path is loaded as "
                         "%r, its content says %r" % (got, want),
                         {"rewritten": True, "kind": kind, "first": ta, "second": tc, "cells.nml": INC_CELLS})
        ctx.seen({"history": [k for k, _ in seq]})
        ctx.count("load-history-steps", len(seq))
        ref = {"file": dumps[0], "loader": dumps[3], "noinc": dumps[5]}
        for i, ((kind, p), d) in enumerate(zip(seq, dumps)):
            r = ref[kind]
            if isinstance(d, list) and d[:2] == ["v", "raised"]:
                ctx.fail("C04:load-history-raised", "step %d (%s) raised %s" % (i, kind, d[2]), {"history": [k for k, _ in seq], "step": i})
                break
            diff = bindgen.meta_diff(r, d, "NeuroMLDocument") or bindgen.meta_diff(d, r, "NeuroMLDocument")
            if diff:
                ctx.fail("C04:load-depends-on-history", "load number %d of the session (%s of %s) gives a different document than the "
                         "same load gave first: %s" % (i + 1, kind, os.path.basename(p), c01.dstr(diff)),
                         {"history": [[k, os.path.basename(q)] for k, q in seq], "step": i, "files": {"a.nml": ta, "b.nml": mg[1] if mg else ta,
                                                                                                      "cells.nml": INC_CELLS}})
                break
    finally:
        shutil.rmtree(tmp, ignore_errors=True)


def run(ctx):
    ir = getattr(ctx, "ir", None) or bindgen.IR()
    import neuroml.nml.nml as mod
    gen = textgen.TGen(ir, ctx.rng, special=True, max_depth=ctx.n(2, 3), max_list=ctx.n(2, 3))
    lines, pending = [], []
    tbatch = textgen.Batch("C04")
    mbatch = textgen.Batch("C01")
    msources = []
    source_corpus(ctx, mod)
    variant_corpus(ctx, mod)
    load_history(ctx)
    big_write_twice(ctx, mod)
    # documents that were LOADED and then re-arranged (a loaded child moved to another slot): write, load
    c01.past_trees(ctx, ir, gen, ctx.n(20, 200), pid="C04")
    # corpus: the known finding (xs:any content grows on every cycle)
    try:
        ts = cycles(mod, "NeuroMLDocument", ANY_DOC, "neuroml", 4)
        ctx.seen({"corpus": "any-doc"})
        if not (ts[0] == ts[1] == ts[2] == ts[3]):
            ctx.fail("C04:any-content-tail-growth", "written bytes never stabilise: %s" % [len(t) for t in ts],
                     {"text": ANY_DOC, "lengths": [len(t) for t in ts]})
    except Exception as e:
        ctx.fail("C04:any-doc-raised", repr(e), {"text": ANY_DOC})
    per = ctx.n(2, 25) * ctx.search_mult
    classes = [c["name"] for c in ir.table["classes"]]
    for cls in classes:
        tag = c01.tag_for(ir, cls)
        for _ in range(per):
            try:
                o, desc = gen.obj(cls)
            except Exception:
                ctx.count("ctor-raised")
                continue
            if c01.has_cdata_text(desc):
                ctx.count("skipped-cdata-in-text")
                continue
            case = {"cls": cls, "desc": desc}
            # purity and determinism of writing
            before = bindgen.meta_dump(o)
            dict_before = shallow(o)
            try:
                t_a = bindgen.export_text(o, tag)
                t_b = bindgen.export_text(o, tag)
            except Exception as e:
                ctx.fail("C04:export-raised:" + cls, repr(e), case)
                continue
            if t_a != t_b:
                ctx.fail("C04:write-twice-differs:" + cls, "two writes of one document differ", dict(case, a=t_a[:400], b=t_b[:400]))
            if bindgen.meta_diff(before, bindgen.meta_dump(o), cls) or dict_before != shallow(o):
                ctx.fail("C04:write-mutates:" + cls, "writing changed the in-memory component", case)
            # reference load
            try:
                ref, _ = load_text(mod, cls, t_a)
                ref_dump = bindgen.meta_dump(ref)
            except Exception as e:
                ctx.fail("C04:load-raised:" + cls, repr(e), dict(case, text=t_a[:500]))
                continue
            # fixed point
            try:
                ts = cycles(mod, cls, t_a, tag, 3)
                ctx.count("cycle-checks")
                if not (ts[0] == ts[1] == ts[2]):
                    ctx.fail("C04:no-fixed-point:" + cls, "bytes change between load/write cycles", dict(case, texts=[t[:400] for t in ts]))
                elif bindgen.meta_diff(ref_dump, bindgen.meta_dump(load_text(mod, cls, ts[0])[0]), cls):
                    ctx.fail("C04:reload-differs:" + cls, "loading the rewritten file gives a different document", case)
            except Exception as e:
                ctx.fail("C04:cycle-raised:" + cls, repr(e), case)
            # presentation variants
            try:
                vs = variants(ir, ctx.rng, t_a, cls)
            except Exception as e:
                ctx.notes.append("variant generator failed: %r" % (e,))
                vs = []
            for _ in range(ctx.n(2, 4)):
                try:
                    mg = textgen.mangle(ctx.rng, t_a)
                except Exception as e:
                    ctx.notes.append("mangle failed: %r" % (e,))
                    mg = None
                if mg is not None and mg[1] != t_a:
                    vs.append(("text:" + "+".join(sorted(mg[0])), mg[1]))
                    for k in mg[0]:
                        ctx.count("text-variant:" + k)
            for kind, vt in vs:
                if kind.startswith("text:"):
                    c01.parse_stream(ctx, tbatch, {"cls": cls, "kind": kind}, vt)
                ctx.seen({"cls": cls, "kind": kind, "text": vt}, nontrivial=(vt != t_a))
                ctx.count("variant:" + (kind if not kind.startswith("text:") else "text-level"))
                try:
                    ov, rootv = load_text(mod, cls, vt)
                except Exception as e:
                    ctx.fail("C04:variant-load-raised:%s:%s" % (kind, cls), repr(e), dict(case, variant=vt[:600]))
                    continue
                d = bindgen.meta_diff(ref_dump, bindgen.meta_dump(ov), cls)
                if d:
                    ctx.fail("C04:variant-differs:%s:%s" % (kind, cls), "variant loads differently: " + c01.dstr(d),
                             dict(case, original=t_a[:600], variant=vt[:600]))
                # correspondence: model build on the variant tree vs real build (tree level; numeric respellings are below
                # the tree level, so those variants are compared through the real code only)
                if kind != "numeric-respelling":
                    try:
                        tree = bindgen.xml_to_tree(ir, rootv, cls)
                        dv = bindgen.dump(ir, mod, ov, cls)
                    except Exception as e:
                        ctx.disagree("binding-dump", case, repr(e), None)
                        continue
                    lines.append(json.dumps({"op": "build", "cls": ir.ix[cls], "fuel": 12, "node": bindgen.enc_tree(ir, tree)}))
                    pending.append(("build", dict(case, kind=kind), dv))
            # a source text NOT produced by the library's writer (the model's export + serialiser wrote it): load it,
            # write what was loaded, load that: the two loaded documents must be identical and the bytes stable
            if ctx.rng.random() < ctx.n(0.5, 1.0):
                model_source_cycle(ctx, ir, mod, mbatch, msources, cls, tag, desc, before)
        if len(lines) > 3000:
            c01.flush(ctx, ir, lines, pending)
            lines, pending = [], []
            tbatch.flush(ctx)
    c01.flush(ctx, ir, lines, pending)
    tbatch.flush(ctx)
    mbatch.flush(ctx)
    sb = textgen.Batch("C04")
    for (cls_, tag_, desc_, expect_, mt_) in msources:
        def cont2(r2, cls_=cls_, desc_=desc_, expect_=expect_):
            text = r2.get("r")
            if isinstance(text, str):
                source_cycle(ctx, mod, cls_, text, {"cls": cls_, "desc": desc_, "source": text[:8000]}, expect=expect_)
        sb.add({"op": "serialise", "fuel": 40, "tree": textgen.tnode_of_tree(mt_), "extra": XMLNS}, cont2)
    sb.flush(ctx)
    # whole files through the loader/writer pair
    import neuroml.loaders as L
    import neuroml.writers as W
    tmp = tempfile.mkdtemp(prefix="verif_c04_")
    try:
        ndoc = 0
        for i in range(20 * ctx.n(8, 80)):
            if ndoc >= ctx.n(8, 80):
                break
            o, desc = gen.obj("NeuroMLDocument")
            if c01.has_cdata_text(desc):
                continue
            ndoc += 1
            p1, p2, p3 = (os.path.join(tmp, "d%d_%d.nml" % (i, k)) for k in range(3))
            try:
                W.NeuroMLWriter.write(o, p1)
                W.NeuroMLWriter.write(o, p3)
                W.NeuroMLWriter.write(o, p3)           # the same path twice: the file holds ONE document
                if open(p1, "rb").read() != open(p3, "rb").read():
                    ctx.fail("C04:write-twice-differs:same-path", "writing a document twice to the same path leaves other bytes "
                             "than writing it once (%d vs %d bytes)" % (os.path.getsize(p3), os.path.getsize(p1)),
                             {"cls": "NeuroMLDocument", "desc": desc, "same_path": True})
                W.NeuroMLWriter.write(L.NeuroMLLoader.load(p1), p2)
                W.NeuroMLWriter.write(L.NeuroMLLoader.load(p2), p3)
                b1, b2, b3 = (open(p, "rb").read() for p in (p1, p2, p3))
                ctx.seen({"doc": desc})
                ctx.count("doc-cycles")
                if not (b1 == b2 == b3):
                    ctx.fail("C04:no-fixed-point:file", "file bytes change between load/write cycles", {"cls": "NeuroMLDocument", "desc": desc})
            except Exception as e:
                ctx.fail("C04:doc-raised", repr(e), {"cls": "NeuroMLDocument", "desc": desc})
    finally:
        shutil.rmtree(tmp, ignore_errors=True)
    ctx.sample({"variant kinds": ["attr-order", "whitespace-comments", "explicit-default", "numeric-respelling"]})
    ctx.sample({"known finding corpus": ANY_DOC})


def replay(ctx, payload):
    import neuroml.nml.nml as mod
    case = payload["case"]
    if "variant" in case and "original" in case:
        a, _ = load_text(mod, case["cls"], case["original"])
        b, _ = load_text(mod, case["cls"], case["variant"])
        d = bindgen.meta_diff(bindgen.meta_dump(a), bindgen.meta_dump(b), case["cls"])
        return {"fails": bool(d), "difference": c01.dstr(d) if d else None}
    if case.get("kind") == "past":
        return c01.replay(ctx, payload)
    if case.get("rewritten"):
        import neuroml.loaders as L
        tmp = tempfile.mkdtemp(prefix="verif_c04r_")
        try:
            open(os.path.join(tmp, "cells.nml"), "w").write(case["cells.nml"])
            a = os.path.join(tmp, "a.nml")
            ids = []
            for t in (case["first"], case["second"]):
                open(a, "w").write(t)
                d = L.NeuroMLLoader.load(a) if case["kind"] == "loader" else L.read_neuroml2_file(a, include_includes=True)
                ids.append(d.id)
            return {"fails": ids != ["main0", "main1"], "document ids loaded": ids}
        finally:
            shutil.rmtree(tmp, ignore_errors=True)
    if case.get("same_path"):
        import neuroml.writers as W
        ir = bindgen.IR()
        o = c01.build_from_desc(ir, mod, case["desc"])
        tmp = tempfile.mkdtemp(prefix="verif_c04r_")
        try:
            p1, p3 = os.path.join(tmp, "one.nml"), os.path.join(tmp, "two.nml")
            W.NeuroMLWriter.write(o, p1)
            W.NeuroMLWriter.write(o, p3)
            W.NeuroMLWriter.write(o, p3)
            return {"fails": open(p1, "rb").read() != open(p3, "rb").read(), "sizes": [os.path.getsize(p1), os.path.getsize(p3)]}
        finally:
            shutil.rmtree(tmp, ignore_errors=True)
    if "big" in case:
        ctx2 = fw.Ctx("C04", "quick", 0)
        big_write_twice(ctx2, mod)
        return {"fails": bool(ctx2.failures), "what": [f["what"][:400] for f in ctx2.failures]}
    if "history" in case and "files" in case:
        import neuroml.loaders as L
        tmp = tempfile.mkdtemp(prefix="verif_c04r_")
        try:
            for n, t in case["files"].items():
                open(os.path.join(tmp, n), "w").write(t)
            dumps = []
            for kind, n in case["history"]:
                p = os.path.join(tmp, n)
                d = (L.NeuroMLLoader.load(p) if kind == "loader" else L.read_neuroml2_file(p) if kind == "noinc"
                     else L.read_neuroml2_file(p, include_includes=True))
                dumps.append(bindgen.meta_dump(d))
            first = {}
            for i, ((kind, n), d) in enumerate(zip(case["history"], dumps)):
                r = first.setdefault(kind, d)
                diff = bindgen.meta_diff(r, d, "NeuroMLDocument") or bindgen.meta_diff(d, r, "NeuroMLDocument")
                if diff:
                    return {"fails": True, "step": i, "difference": c01.dstr(diff), "history": case["history"]}
            return {"fails": False}
        finally:
            shutil.rmtree(tmp, ignore_errors=True)
    if "source" in case and "cls" in case:
        cls, text = case["cls"], case["source"]
        tag = re.search(r"<([A-Za-z_][\w.\-]*)", re.sub(r"<\?.*?\?>|<!--.*?-->", "", text, flags=re.S)).group(1)
        d1, _ = load_text(mod, cls, text)
        t1 = bindgen.export_text(d1, tag)
        d2, _ = load_text(mod, cls, t1)
        d = bindgen.meta_diff(bindgen.meta_dump(d1), bindgen.meta_dump(d2), cls)
        return {"fails": bool(d), "difference": c01.dstr(d) if d else None, "source": text, "written": t1[:800]}
    if "text" in case:
        ts = cycles(mod, "NeuroMLDocument", case["text"], "neuroml", 4)
        return {"fails": not (ts[0] == ts[1] == ts[2] == ts[3]), "lengths": [len(t) for t in ts]}
    return {"fails": False, "note": "case kind not replayable"}
