"""C05 — HDF5 write then load describes the same network and the same components.

Tie: hand model lean/NmlVerif/Model/Hdf5.lean (encodeDoc / decodeDoc / sem / expect) + four streams:
  enc : real NeuroMLHdf5Writer -> PyTables dump                      vs  Lean `encodeDoc`
  dec : model-built H5 (also with permuted / dropped columns) written with PyTables -> real loader  vs  `decodeDoc`
  sem : harness-side semantic projection + float32/canonical view     vs  Lean `expect f32 (sem d)`
  e2e : (oracle, real code only) semantic projection before write == after load; non-network components identical;
        unsupported constructs refused with an exception.
"""
import io
import json
import os
import re
import shutil
import tempfile
import warnings
from fractions import Fraction as F

import fw

LEAN_PROPS = ["NmlVerif.Props.C05", "NmlVerif.Props.C05b", "NmlVerif.Props.C05Gen", "NmlVerif.Props.C05C01"]
LEVEL = "proof"
RULE = ("random documents: 0-2 networks, 1-4 populations (sized / instance based, properties), 0-3 projections of "
        "each of the three kinds with all eight connection classes (mixed lists, ids unrelated to the row index, "
        "segments / fractions / weights / delays from a pool of dyadic and non-dyadic doubles, both cell path "
        "forms), 0-2 input lists (input / inputW mixed), random top-level components; a separate stream adds one "
        "construct the format cannot hold or a known weak spot; a case is non-trivial when some table has >= 2 rows "
        "and the write succeeds; distinct = distinct canonical specifications; every written file is also loaded with "
        "optimized=True; model-built files are re-read with permuted / dropped / unnamed columns and legacy 4-column "
        "location tables; stream `fate` sets every member nml.py declares for the 31 classes of the network subtree; "
        "stream `f32` compares the model's float32 rounding with numpy on doubles of every magnitude")
TRUST = [
    "hand-written model of writers.NeuroMLHdf5Writer.write, the six exportHdf5 methods, hdf5/NeuroMLHdf5Parser.py, "
    "hdf5/NetworkBuilder.py, hdf5/NetworkContainer.py (optimized lists), loaders.NeuroMLHdf5Loader, "
    "utils.add_all_to_document; the table layout (column headers, cells per row loop, initialisers, group prefixes, "
    "attribute names, reader column table with defaults / conversions / handler parameter, member lists) is "
    "regenerated from the source on every run (translators/hdf5_layout_extract.py, validated not verified) and "
    "proved equal to the hand model (Props/C05Gen.lean); control flow around it is tied by the streams only",
    "PyTables/HDF5 storage and node iteration order (model keeps creation order, results compared per id); numpy "
    "float32 conversion = round-to-nearest-even on 24 bits (Model `f32`, compared with numpy.float32 on ~300 / ~3000 "
    "doubles per run incl. ties, subnormals, integers around 2^24; idempotence sampled, only ever a hypothesis)",
    "string splitting of cell paths and delays is done by the harness (own regex) and checked against the library's "
    "accessors through the enc stream; the XML of non-network components is an opaque payload in Model/Hdf5.lean; "
    "Props/C05C01.lean composes the round trip with C01's tree-level theorem (component objects identical)",
]
ASSUMPTIONS = [
    "theorems are stated for `Supported0` documents: at most one network, distinct group names (ANY ids: the repaired "
    "parser tests names with startswith), referenced populations exist, integers exactly representable in float32 (< 2^24), "
    "instance ids equal to the row index, one synapse / component pair per electrical / continuous projection, "
    "pre/post components defined in the document, no weight != 1 in an electrical projection between two sized "
    "populations, Input.fraction_along != 0.0 while C19's accessor defect is open",
    "float64 arithmetic `v*1000.0` of delays given in seconds is exact on the generated values (dyadic)",
]

I24 = 1 << 24


def regenerate(ctx):
    """translator step: the table layout (writer columns / cells / attributes / prefixes, reader column table, member
    lists) is read from fw.REPO's working tree into lean/NmlVerif/Gen/Hdf5Layout.lean; Props/C05Gen.lean proves
    generated = hand model on every run"""
    import sys
    tdir = os.path.join(fw.VERIF, "translators")
    if tdir not in sys.path:
        sys.path.insert(0, tdir)
    import hdf5_layout_extract
    gaps = hdf5_layout_extract.regenerate(fw.REPO, os.path.join(fw.LEAN, "NmlVerif", "Gen", "Hdf5Layout.lean"))
    ctx.extra["translator"] = {"file": "lean/NmlVerif/Gen/Hdf5Layout.lean", "gaps": gaps,
                               "extracted": getattr(hdf5_layout_extract.regenerate, "info", {})}
    return gaps


# ------------------------------------------------------------------------------------------------ numbers
def rat(x):
    """exact rational of a Python / numpy number (or numeric string)"""
    if isinstance(x, str):
        x = float(x)
    if isinstance(x, int):
        return F(x)
    return F(float(x))


def f32(q):
    import numpy as np
    return F(float(np.float32(float(q))))


def jr(q):
    q = F(q)
    return [q.numerator, q.denominator]


def unj(p):
    return F(p[0], p[1])


# values that need the whole float32 mantissa (7-9 significant digits) next to the round ones: a conversion that keeps
# only 6 digits ("%g") or goes through a shorter float must show
VALS = [F(1, 2), F(1, 2), F(0), F(1), F(1, 4), F(3, 4), F(0.1), F(0.3), F(1, 8), F(2.5), F(0.999), F(7, 16),
        F(0.123456789), F(0.87654321)]
WEIGHTS = [F(1), F(1), F(1, 2), F(0), F(2), F(0.1), F(-1.5), F(1.0000000001), F(3), F(0.123456789), F(1234.5678),
           F(16777215, 1 << 20)]
DELAYS_MS = [F(0), F(1), F(2.5), F(0.1), F(5), F(1, 4), F(12.345678), F(10000.25), F(3.1415926), F(16777215, 1 << 16)]
# seconds: dyadic, so that the writer's float64 `v * 1000.0` is exact (3217/2^20 s = 3.06797027587890625 ms)
DELAYS_S = [F(0), F(1, 2), F(1, 4), F(1), F(1, 8), F(3217, 1 << 20), F(12345677, 1 << 30)]
COORDS = [F(0), F(1.5), F(-3), F(0.1), F(100.25), F(1e-3), F(12345.678), F(-0.123456789), F(16777215, 1 << 8)]


# ------------------------------------------------------------------------------------------------ spec -> real objects
def ref_str(r):
    if r[0] == "plain":
        return "%d" % r[1]
    if r[0] == "bracket":
        return "../%s[%d]" % (r[1], r[2])
    return "../%s/%d/%s" % (r[1], r[2], r[3])


def parse_ref(s):
    s = str(s)
    m = re.fullmatch(r"\.\./([^/\[\]]+)\[(-?\d+)\]", s)
    if m:
        return ["bracket", m.group(1), int(m.group(2))]
    m = re.fullmatch(r"\.\./([^/\[\]]+)/(-?\d+)/([^/]+)", s)
    if m:
        return ["slash", m.group(1), int(m.group(2)), m.group(3)]
    m = re.fullmatch(r"-?\d+(\.0*)?", s)
    if m:
        return ["plain", int(float(s))]
    raise ValueError("unparsable cell reference %r" % s)


def delay_str(d):
    v, u = unj(d[0]), d[1]
    return "%r%s" % (float(v), u)


def parse_delay(s):
    m = re.fullmatch(r"\s*([-+0-9.eE]+)\s*(ms|us|s)\s*", str(s))
    if not m:
        raise ValueError("unparsable delay %r" % s)
    return [jr(rat(m.group(1))), m.group(2)]


TOP_KINDS = {
    "izhikevichCell": lambda n, i: n.IzhikevichCell(id=i, v0="-70mV", thresh="30mV", a="0.02", b="0.2", c="-65", d="6"),
    "iafCell": lambda n, i: n.IafCell(id=i, leak_reversal="-50mV", thresh="-55mV", reset="-70mV", C="0.2nF",
                                      leak_conductance="0.01uS"),
    "expOneSynapse": lambda n, i: n.ExpOneSynapse(id=i, gbase="1nS", erev="0mV", tau_decay="1ms"),
    "expTwoSynapse": lambda n, i: n.ExpTwoSynapse(id=i, gbase="2nS", erev="-10mV", tau_decay="3ms", tau_rise="1ms"),
    "gapJunction": lambda n, i: n.GapJunction(id=i, conductance="10pS"),
    "silentSynapse": lambda n, i: n.SilentSynapse(id=i),
    "gradedSynapse": lambda n, i: n.GradedSynapse(id=i, conductance="5pS", delta="5mV", Vth="-55mV", k="0.025per_ms",
                                                  erev="0mV"),
    "pulseGenerator": lambda n, i: n.PulseGenerator(id=i, delay="0ms", duration="1ms", amplitude="1nA"),
    "sineGenerator": lambda n, i: n.SineGenerator(id=i, delay="0ms", phase="0", duration="5ms", amplitude="1nA",
                                                  period="2ms"),
}
TOP_LIST = {"izhikevichCell": "izhikevich_cells", "iafCell": "iaf_cells", "expOneSynapse": "exp_one_synapses",
            "expTwoSynapse": "exp_two_synapses", "gapJunction": "gap_junctions", "silentSynapse": "silent_synapses",
            "gradedSynapse": "graded_synapses", "pulseGenerator": "pulse_generators", "sineGenerator": "sine_generators"}


def fl(p):
    return None if p is None else float(unj(p))


def build_real(spec):
    """spec (model Doc JSON + extras) -> neuroml.NeuroMLDocument"""
    import neuroml as n
    doc = n.NeuroMLDocument(id=spec["id"], notes=spec.get("notes"))
    for kind, cid in spec.get("topspec", []):
        obj = TOP_KINDS[kind](n, cid)
        getattr(doc, TOP_LIST[kind]).append(obj)
    for ns in spec["nets"]:
        net = n.Network(id=ns["id"], notes=ns.get("notes"))
        if ns.get("temperature") is not None:
            net.temperature = ns["temperature"]
            net.type = "networkWithTemperature"
        ex = ns.get("extras", {})
        if ex.get("spaces"):
            net.spaces.append(n.Space(id="sp1"))
        if ex.get("regions"):
            net.regions.append(n.Region(id="reg1", spaces="sp1"))
        if ex.get("cell_sets"):
            net.cell_sets.append(n.CellSet(id="cs1", select="x"))
        for _ in range(ns.get("nSyn", 0)):
            net.synaptic_connections.append(n.SynapticConnection(from_="a[0]", to="a[1]", synapse="s"))
        for _ in range(ns.get("nExp", 0)):
            net.explicit_inputs.append(n.ExplicitInput(target="a[0]", input="pg"))
        for ps in ns["pops"]:
            pop = n.Population(id=ps["id"], component=ps["comp"], size=ps["size"], type=ps["typ"])
            if ps.get("xnotes"):
                pop.notes = ps["xnotes"]
            for (iid, x, y, z) in ps["insts"]:
                inst = n.Instance(id=iid)
                if ps.get("ijk"):
                    inst.i, inst.j, inst.k = 1, 2, 3
                inst.location = n.Location(x=fl(x), y=fl(y), z=fl(z))
                pop.instances.append(inst)
            for (t, v) in ps["props"]:
                pop.properties.append(n.Property(tag=t, value=v))
            net.populations.append(pop)
        for p in ns["projs"]:
            pr = n.Projection(id=p["id"], presynaptic_population=p["pre"], postsynaptic_population=p["post"],
                              synapse=p["syn"])
            for c in p["conns"]:
                pr.connections.append(n.Connection(
                    id=c["id"], pre_cell_id=ref_str(c["pre"]), post_cell_id=ref_str(c["post"]),
                    pre_segment_id=c["preSeg"], post_segment_id=c["postSeg"],
                    pre_fraction_along=fl(c["preFrac"]), post_fraction_along=fl(c["postFrac"])))
            for c in p["connWDs"]:
                pr.connection_wds.append(n.ConnectionWD(
                    id=c["id"], pre_cell_id=ref_str(c["pre"]), post_cell_id=ref_str(c["post"]),
                    pre_segment_id=c["preSeg"], post_segment_id=c["postSeg"],
                    pre_fraction_along=fl(c["preFrac"]), post_fraction_along=fl(c["postFrac"]),
                    weight=fl(c["weight"]), delay=delay_str(c["delay"])))
            net.projections.append(pr)
        for (key, cont) in (("eprojs", False), ("cprojs", True)):
            for p in ns[key]:
                cls = n.ContinuousProjection if cont else n.ElectricalProjection
                pr = cls(id=p["id"], presynaptic_population=p["pre"], postsynaptic_population=p["post"])
                names = ([("plain", n.ContinuousConnection, "continuous_connections"),
                          ("insts", n.ContinuousConnectionInstance, "continuous_connection_instances"),
                          ("instWs", n.ContinuousConnectionInstanceW, "continuous_connection_instance_ws")] if cont else
                         [("plain", n.ElectricalConnection, "electrical_connections"),
                          ("insts", n.ElectricalConnectionInstance, "electrical_connection_instances"),
                          ("instWs", n.ElectricalConnectionInstanceW, "electrical_connection_instance_ws")])
                for (k, ccls, member) in names:
                    for c in p[k]:
                        kw = dict(id=c["id"], pre_cell=ref_str(c["pre"]), post_cell=ref_str(c["post"]),
                                  pre_segment=c["preSeg"], post_segment=c["postSeg"],
                                  pre_fraction_along=fl(c["preFrac"]), post_fraction_along=fl(c["postFrac"]))
                        if cont:
                            kw.update(pre_component=c["preComp"], post_component=c["syn"])
                        else:
                            kw.update(synapse=c["syn"])
                        if k == "instWs":
                            kw["weight"] = fl(c["weight"])
                        getattr(pr, member).append(ccls(**kw))
                getattr(net, "continuous_projections" if cont else "electrical_projections").append(pr)
        for l in ns["ilists"]:
            il = n.InputList(id=l["id"], component=l["comp"], populations=l["pop"])
            for i in l["inputs"]:
                il.input.append(n.Input(id=i["id"], target=ref_str(i["target"]), destination=l.get("dest", "synapses"),
                                        segment_id=i["seg"], fraction_along=fl(i["frac"])))
            for i in l["inputWs"]:
                il.input_ws.append(n.InputW(id=i["id"], target=ref_str(i["target"]),
                                            destination=l.get("dest", "synapses"), segment_id=i["seg"],
                                            fraction_along=fl(i["frac"]), weight=fl(i["weight"])))
            net.input_lists.append(il)
        doc.networks.append(net)
    return doc


# ------------------------------------------------------------------------------------------------ real objects -> Doc JSON
def top_comps(doc):
    """non-network content of a document as sorted-by-member-order (tag, id, c14n xml) triples"""
    from lxml import etree
    import neuroml.writers as w
    nets = list(doc.networks)
    doc.networks = []
    try:
        sf = io.StringIO()
        w.NeuroMLWriter.write(doc, sf, close=False)
        xml = sf.getvalue()
    finally:
        for x in nets:
            doc.networks.append(x)
    return comps_of_xml(xml), xml


def comps_of_xml(xml):
    from lxml import etree
    root = etree.fromstring(xml.encode("utf-8"))
    out = []
    for ch in root:
        if not isinstance(ch.tag, str):
            continue
        tag = etree.QName(ch).localname
        if tag in ("notes", "include"):
            continue
        ch.tail = None
        out.append([tag, ch.get("id") or "", etree.tostring(ch, method="c14n").decode("utf-8")])
    return out


def _opt_int(x):
    if x is None or x == "":
        return None
    return int(float(x)) if isinstance(x, str) else int(x)


def conn_json(c, kind):
    if kind == "chem":
        d = {"id": int(c.id), "pre": parse_ref(c.pre_cell_id), "post": parse_ref(c.post_cell_id),
             "preSeg": int(c.pre_segment_id), "postSeg": int(c.post_segment_id),
             "preFrac": jr(rat(c.pre_fraction_along)), "postFrac": jr(rat(c.post_fraction_along)),
             "weight": None, "delay": [jr(0), "ms"], "syn": "", "preComp": ""}
        if hasattr(c, "delay"):
            d["weight"] = None if c.weight is None else jr(rat(c.weight))
            d["delay"] = parse_delay(c.delay)
        return d
    d = {"id": int(c.id), "pre": parse_ref(c.pre_cell), "post": parse_ref(c.post_cell),
         "preSeg": int(c.pre_segment), "postSeg": int(c.post_segment),
         "preFrac": jr(rat(c.pre_fraction_along)), "postFrac": jr(rat(c.post_fraction_along)),
         "weight": None, "delay": [jr(0), "ms"],
         "syn": c.post_component if kind == "cont" else c.synapse,
         "preComp": c.pre_component if kind == "cont" else ""}
    if hasattr(c, "weight"):
        d["weight"] = None if c.weight is None else jr(rat(c.weight))
    return d


def inp_json(i, w):
    return {"id": int(i.id), "target": parse_ref(i.target), "seg": _opt_int(i.segment_id),
            "frac": None if i.fraction_along is None else jr(rat(i.fraction_along)),
            "weight": (None if i.weight is None else jr(rat(i.weight))) if w else None}


def doc_to_json(doc):
    comps, _ = top_comps(doc)
    out = {"id": doc.id, "notes": doc.notes, "top": comps, "nets": []}
    for net in doc.networks:
        ns = {"id": net.id, "notes": net.notes, "temperature": net.temperature,
              "nSyn": len(net.synaptic_connections), "nExp": len(net.explicit_inputs),
              "pops": [], "projs": [], "eprojs": [], "cprojs": [], "ilists": []}
        for p in net.populations:
            ns["pops"].append({"id": p.id, "comp": p.component, "size": None if p.size is None else int(p.size),
                               "typ": p.type,
                               "insts": [[int(i.id), jr(rat(i.location.x)), jr(rat(i.location.y)), jr(rat(i.location.z))]
                                         for i in p.instances],
                               "props": [[q.tag, q.value] for q in p.properties]})
        for p in net.projections:
            ns["projs"].append({"id": p.id, "pre": p.presynaptic_population, "post": p.postsynaptic_population,
                                "syn": p.synapse, "conns": [conn_json(c, "chem") for c in p.connections],
                                "connWDs": [conn_json(c, "chem") for c in p.connection_wds]})
        for p in net.electrical_projections:
            ns["eprojs"].append({"id": p.id, "pre": p.presynaptic_population, "post": p.postsynaptic_population,
                                 "plain": [conn_json(c, "elec") for c in p.electrical_connections],
                                 "insts": [conn_json(c, "elec") for c in p.electrical_connection_instances],
                                 "instWs": [conn_json(c, "elec") for c in p.electrical_connection_instance_ws]})
        for p in net.continuous_projections:
            ns["cprojs"].append({"id": p.id, "pre": p.presynaptic_population, "post": p.postsynaptic_population,
                                 "plain": [conn_json(c, "cont") for c in p.continuous_connections],
                                 "insts": [conn_json(c, "cont") for c in p.continuous_connection_instances],
                                 "instWs": [conn_json(c, "cont") for c in p.continuous_connection_instance_ws]})
        for l in net.input_lists:
            ns["ilists"].append({"id": l.id, "comp": l.component, "pop": l.populations,
                                 "inputs": [inp_json(i, False) for i in l.input],
                                 "inputWs": [inp_json(i, True) for i in l.input_ws]})
        out["nets"].append(ns)
    return out


# ------------------------------------------------------------------------------------------------ generator
def mk_conn(cid, pre, post, preSeg=0, postSeg=0, preFrac=F(1, 2), postFrac=F(1, 2), weight=None, delay=None,
            syn="", preComp=""):
    return {"id": cid, "pre": pre, "post": post, "preSeg": preSeg, "postSeg": postSeg, "preFrac": jr(preFrac),
            "postFrac": jr(postFrac), "weight": None if weight is None else jr(weight),
            "delay": delay if delay is not None else [jr(0), "ms"], "syn": syn, "preComp": preComp}


def mk_inp(iid, target, seg=None, frac=None, weight=None):
    return {"id": iid, "target": target, "seg": seg, "frac": None if frac is None else jr(frac),
            "weight": None if weight is None else jr(weight)}


def mk_pop(pid, comp, size=None, insts=None, props=None, typ=None):
    insts = insts or []
    return {"id": pid, "comp": comp, "size": size, "typ": typ if typ is not None else ("populationList" if insts else None),
            "insts": [[i, jr(x), jr(y), jr(z)] for (i, x, y, z) in insts], "props": props or []}


def mk_net(nid, pops, projs=(), eprojs=(), cprojs=(), ilists=(), notes=None, temperature=None, **kw):
    d = {"id": nid, "notes": notes, "temperature": temperature, "nSyn": 0, "nExp": 0, "pops": list(pops),
         "projs": list(projs), "eprojs": list(eprojs), "cprojs": list(cprojs), "ilists": list(ilists)}
    d.update(kw)
    return d


def mk_doc(did, nets, topspec, notes=None):
    return {"id": did, "notes": notes, "nets": list(nets), "topspec": [list(t) for t in topspec]}


STD_TOP = [("izhikevichCell", "iz"), ("iafCell", "iaf"), ("expOneSynapse", "syn1"), ("expTwoSynapse", "syn2"),
           ("gapJunction", "gj"), ("gapJunction", "gj2"), ("silentSynapse", "silent1"), ("gradedSynapse", "gs1"),
           ("gradedSynapse", "gs2"), ("pulseGenerator", "pg"), ("sineGenerator", "sg")]


def pop_is_inst(p):
    return len(p["insts"]) > 0


def pop_count(p):
    return len(p["insts"]) if p["insts"] else (p["size"] or 0)


def gen_ref(rng, pop, plain_ok=False, form=None):
    n = max(pop_count(pop), 1)
    i = rng.randrange(n)
    if form is None:
        form = "slash" if pop_is_inst(pop) else "bracket"
        if rng.random() < 0.12:
            form = "bracket" if form == "slash" else "slash"      # the other path form
    if plain_ok:
        form = "plain"
    if form == "plain":
        return ["plain", i]
    if form == "bracket":
        return ["bracket", pop["id"], i]
    return ["slash", pop["id"], i, pop["comp"]]


def gen_ids(rng, k):
    style = rng.random()
    if style < 0.3:
        return list(range(k))
    if style < 0.6:
        s = rng.randrange(1, 50)
        return [s + 3 * j for j in range(k)]
    return rng.sample(range(0, 200), k)


def gen_sf(rng, p_default):
    if rng.random() < p_default:
        return {}
    return {"preSeg": rng.choice([0, 0, 1, 3, 12]), "postSeg": rng.choice([0, 0, 2, 7]),
            "preFrac": rng.choice(VALS), "postFrac": rng.choice(VALS)}


def gen_doc(rng, big=False):
    top = [t for t in STD_TOP if rng.random() < 0.85]
    have = {t[1] for t in top}
    cells = [c for c in ("iz", "iaf") if c in have] or ["iz"]
    nnets = rng.choice([1, 1, 1, 1, 1, 1, 0]) if not big else rng.choice([1, 1, 1, 1, 0])
    nets = []
    for ni in range(nnets):
        pops = []
        for pi in range(rng.randint(1, 4)):
            pid = rng.choice(["pop", "p", "Cells_", "zz"]) + str(pi)
            comp = rng.choice(cells)
            props = [[t, rng.choice(["1 0 0", "v", "0.5"])] for t in rng.sample(["color", "radius", "region", "a_b"], rng.choice([0, 0, 1, 2]))]
            if rng.random() < 0.5:
                k = rng.randint(1, 5 if not big else 9)
                insts = [(j, rng.choice(COORDS), rng.choice(COORDS), rng.choice(COORDS)) for j in range(k)]
                pops.append(mk_pop(pid, comp, size=rng.choice([None, k, k]), insts=insts, props=props))
            else:
                pops.append(mk_pop(pid, comp, size=rng.randint(1, 6), props=props,
                                   typ=rng.choice([None, None, None, "population"])))
        projs, eprojs, cprojs, ilists = [], [], [], []
        maxrows = 4 if not big else 9
        for qi in range(rng.choice([0, 1, 1, 2, 3])):
            pre, post = rng.choice(pops), rng.choice(pops)
            nc, nw = rng.choice([(0, 0), (2, 0), (3, 0), (0, 2), (0, 3), (2, 2), (1, 1), (maxrows, 0), (1, maxrows)])
            ids = gen_ids(rng, nc + nw)
            pdef = rng.choice([1.0, 0.5, 0.0])
            conns = [mk_conn(ids[j], gen_ref(rng, pre), gen_ref(rng, post), **gen_sf(rng, pdef)) for j in range(nc)]
            wds = []
            for j in range(nw):
                u = rng.choice(["ms", "ms", "s"])
                dv = rng.choice(DELAYS_MS if u == "ms" else DELAYS_S)
                wds.append(mk_conn(ids[nc + j], gen_ref(rng, pre), gen_ref(rng, post), weight=rng.choice(WEIGHTS),
                                   delay=[jr(dv), u], **gen_sf(rng, pdef)))
            projs.append({"id": "proj%d" % qi, "pre": pre["id"], "post": post["id"],
                          "syn": rng.choice(["syn1", "syn2", "nosuchsyn"]), "conns": conns, "connWDs": wds})
        for (lst, cont) in ((eprojs, False), (cprojs, True)):
            for qi in range(rng.choice([0, 0, 1, 1, 2])):
                pre, post = rng.choice(pops), rng.choice(pops)
                inst = pop_is_inst(pre) or pop_is_inst(post)
                syn = rng.choice(["gs1", "gs2"] if cont else ["gj", "gj2"])
                prec = rng.choice([x for x in ("silent1", "gs1") if x in have] or ["silent1"]) if cont else ""
                if inst:
                    counts = rng.choice([(0, 2, 0), (0, 0, 2), (0, 2, 2), (0, 1, 3), (1, 1, 1), (0, 3, 0), (2, 0, 1)])
                else:
                    counts = rng.choice([(2, 0, 0), (3, 0, 0), (1, 1, 0), (0, 2, 0), (1, 0, 0)])
                tot = sum(counts)
                ids = gen_ids(rng, tot)
                pdef = rng.choice([0.7, 0.3])
                groups = {"plain": [], "insts": [], "instWs": []}
                j = 0
                for (k, cnt) in zip(("plain", "insts", "instWs"), counts):
                    for _ in range(cnt):
                        w = None
                        if k == "instWs":
                            w = rng.choice(WEIGHTS) if inst else F(1)
                        groups[k].append(mk_conn(ids[j], gen_ref(rng, pre, plain_ok=(k == "plain")),
                                                 gen_ref(rng, post, plain_ok=(k == "plain")), weight=w, syn=syn,
                                                 preComp=prec, **gen_sf(rng, pdef)))
                        j += 1
                d = {"id": ("cproj%d" if cont else "eproj%d") % qi, "pre": pre["id"], "post": post["id"]}
                d.update(groups)
                lst.append(d)
        for li in range(rng.choice([0, 1, 1, 2])):
            pop = rng.choice(pops)
            ni_, nw_ = rng.choice([(2, 0), (0, 2), (2, 2), (1, 3), (3, 1), (1, 0)])
            ids = gen_ids(rng, ni_ + nw_)

            def one(j, w):
                seg = rng.choice([None, None, 0, 2, 5])
                frac = rng.choice([None, None, F(1, 2), F(1, 4), F(0.3), F(1)])
                return mk_inp(ids[j], gen_ref(rng, pop), seg=seg, frac=frac, weight=(rng.choice(WEIGHTS) if w else None))
            ilists.append({"id": "il%d" % li, "comp": rng.choice(["pg", "sg"]), "pop": pop["id"],
                           "inputs": [one(j, False) for j in range(ni_)],
                           "inputWs": [one(ni_ + j, True) for j in range(nw_)]})
        nets.append(mk_net("net%d" % ni, pops, projs, eprojs, cprojs, ilists,
                           notes=rng.choice([None, None, "Network notes", ""]),
                           temperature=rng.choice([None, None, "32degC", "6.3 degC"])))
    return mk_doc(rng.choice(["doc1", "D_2"]), nets, top, notes=rng.choice([None, "Some notes\nsecond line", "x"]))


def gen_optdoc(rng, big=False):
    """a document the optimized loader has containers for: chemical projections and input lists only, inputs numbered
    by their row (it refuses everything else)"""
    spec = gen_doc(rng, big=big)
    for ns in spec["nets"]:
        ns["eprojs"], ns["cprojs"] = [], []
        if rng.random() < 0.8:
            for l in ns["ilists"]:
                for k, i in enumerate(l["inputs"] + l["inputWs"]):
                    i["id"] = k
    spec["special"] = "optdoc"
    return spec


def first_table(spec, want):
    """(net, kind, obj) of the first projection / input list of the wanted kind, or None"""
    for ns in spec["nets"]:
        for o in ns[want]:
            return ns, o
    return None


def gen_special(rng):
    """one construct the format cannot hold, or a known weak spot, on top of a random valid document"""
    for _ in range(50):
        spec = gen_doc(rng)
        if not spec["nets"]:
            continue
        ns = spec["nets"][0]
        kind = rng.choice(["synconn", "explicit", "twonets", "dupname", "usdelay", "empty_e", "empty_c", "empty_il",
                           "frac0", "dangling_pre", "mixed_syn", "w_sized", "inst_ids", "name_sub", "spaces", "regions",
                           "popnotes", "ijk", "tagcolon", "dest", "sizenone", "cellsets", "bigid"])
        spec["special"] = kind
        if kind == "synconn":
            ns["nSyn"] = 1
        elif kind == "explicit":
            ns["nExp"] = 2
        elif kind == "twonets":
            spec["nets"].append(mk_net("other", [mk_pop("q", "iz", size=1)]))
        elif kind == "dupname":
            p0 = ns["pops"][0]["id"]
            if not ns["projs"]:
                ns["projs"].append({"id": "proj0", "pre": p0, "post": p0, "syn": "syn1", "conns": [], "connWDs": []})
            ns["eprojs"].append({"id": ns["projs"][0]["id"], "pre": p0, "post": p0,
                                 "plain": [mk_conn(0, ["plain", 0], ["plain", 0], syn="gj")], "insts": [], "instWs": []})
        elif kind == "usdelay":
            p = ns["pops"][0]
            ns["projs"].append({"id": "projus", "pre": p["id"], "post": p["id"], "syn": "syn1", "conns": [],
                                "connWDs": [mk_conn(0, gen_ref(rng, p), gen_ref(rng, p), weight=F(1), delay=[jr(F(250)), "us"])]})
        elif kind in ("empty_e", "empty_c"):
            p = ns["pops"][0]
            ns["eprojs" if kind == "empty_e" else "cprojs"].append(
                {"id": "emptyp", "pre": p["id"], "post": p["id"], "plain": [], "insts": [], "instWs": []})
        elif kind == "empty_il":
            ns["ilists"].append({"id": "emptyil", "comp": "pg", "pop": ns["pops"][0]["id"], "inputs": [], "inputWs": []})
        elif kind == "frac0":
            p = ns["pops"][0]
            ns["ilists"].append({"id": "ilf0", "comp": "pg", "pop": p["id"],
                                 "inputs": [mk_inp(3, gen_ref(rng, p), seg=1, frac=F(0)), mk_inp(1, gen_ref(rng, p), frac=F(1, 4))],
                                 "inputWs": []})
        elif kind == "dangling_pre":
            t = first_table(spec, "cprojs")
            if not t:
                continue
            for k in ("plain", "insts", "instWs"):
                for c in t[1][k]:
                    c["preComp"] = "undefinedComp"
        elif kind == "mixed_syn":
            t = first_table(spec, rng.choice(["eprojs", "cprojs"]))
            if not t:
                continue
            allc = t[1]["plain"] + t[1]["insts"] + t[1]["instWs"]
            if len(allc) < 2:
                continue
            allc[-1]["syn"] = "gj2" if allc[0]["syn"] == "gj" else ("gj" if allc[0]["syn"] == "gj2" else
                                                                  ("gs2" if allc[0]["syn"] == "gs1" else "gs1"))
        elif kind == "w_sized":
            sized = [p for p in ns["pops"] if not pop_is_inst(p)]
            if not sized:
                continue
            p = sized[0]
            ns["eprojs"].append({"id": "ew", "pre": p["id"], "post": p["id"], "plain": [], "insts": [
                mk_conn(4, ["bracket", p["id"], 0], ["bracket", p["id"], 0], syn="gj")],
                "instWs": [mk_conn(9, ["bracket", p["id"], 0], ["bracket", p["id"], 0], weight=F(1, 2), syn="gj")]})
        elif kind == "inst_ids":
            ips = [p for p in ns["pops"] if len(p["insts"]) >= 2]
            if not ips:
                continue
            for j, i in enumerate(ips[0]["insts"]):
                i[0] = 5 + 2 * j
        elif kind == "name_sub":
            p = ns["pops"][0]
            old = p["id"]
            new = rng.choice(["projection_", "inputList_", "my_population_"]) + old
            txt = json.dumps(ns).replace('"%s"' % old, '"%s"' % new)
            spec["nets"][0] = json.loads(txt)
        elif kind in ("spaces", "regions", "cellsets"):
            ns.setdefault("extras", {})["spaces"] = True
            if kind == "regions":
                ns["extras"]["regions"] = True
            if kind == "cellsets":
                ns["extras"] = {"cell_sets": True}
        elif kind == "popnotes":
            ns["pops"][0]["xnotes"] = "notes of a population"
        elif kind == "ijk":
            ips = [p for p in ns["pops"] if p["insts"]]
            if not ips:
                continue
            ips[0]["ijk"] = True
        elif kind == "tagcolon":
            ns["pops"][0]["props"] = [["a:b", "v1"]]
        elif kind == "dest":
            if not ns["ilists"]:
                continue
            ns["ilists"][0]["dest"] = "someOtherPort"
        elif kind == "sizenone":
            ns["pops"].append(mk_pop("nosize", "iz", size=None))
        elif kind == "bigid":
            t = first_table(spec, "eprojs")
            if not t:
                continue
            allc = t[1]["plain"] + t[1]["insts"] + t[1]["instWs"]
            allc[0]["id"] = I24 + 1
        return spec
    return gen_doc(rng)


# ------------------------------------------------------------------------------------------------ real library
SYS_ATTRS = {"CLASS", "VERSION", "TITLE", "FILTERS", "GENERATED_BY", "PYTABLES_FORMAT_VERSION"}


def close_all():
    try:
        import tables
        tables.file._open_files.close_all()
    except Exception:
        pass


def exc_name(e):
    n = type(e).__name__
    return n if n in ("IndexError", "ValueError", "NodeError", "TypeError", "KeyError", "AttributeError", "Exception",
                      "AssertionError") \
        else "Other:" + n


def attr_json(v):
    import numpy as np
    if v is None:
        return None
    if isinstance(v, (bool, np.bool_)):
        return {"s": str(v)}
    if isinstance(v, (int, np.integer)):
        return {"i": int(v)}
    if isinstance(v, bytes):
        return {"s": v.decode("utf-8")}
    return {"s": str(v)}


def user_attrs(node_attrs):
    return [[k, attr_json(node_attrs[k])] for k in node_attrs._v_attrnames if k not in SYS_ATTRS]


def dump_h5(path):
    """real file -> H5 JSON (same shape as the driver's)"""
    import numpy as np
    import tables
    h = tables.open_file(path, mode="r")
    try:
        g = h.root.neuroml
        attrs = [a for a in user_attrs(g._v_attrs) if a[0] != "neuroml_top_level"]
        top = None
        if "neuroml_top_level" in g._v_attrs._v_attrnames:
            top = comps_of_xml(str(g._v_attrs["neuroml_top_level"]))
        net = None
        for node in g:
            if node._c_classid == "GROUP" and node._v_name == "network":
                leaves = []
                for lf in node:
                    arrays = []
                    for a in lf:
                        cols = []
                        for k in a.attrs._v_attrnames:
                            if k.startswith("column_"):
                                cols.append([int(k[len("column_"):]), str(a.attrs[k])])
                        data = np.array(a)
                        assert data.dtype == np.float32
                        arrays.append({"name": a.name, "cols": cols,
                                       "rows": [[jr(F(float(x))) for x in row] for row in data]})
                    leaves.append({"name": lf._v_name, "attrs": user_attrs(lf._v_attrs), "arrays": arrays})
                net = {"attrs": user_attrs(node._v_attrs), "leaves": leaves}
        return {"attrs": attrs, "top": top, "net": net}
    finally:
        h.close()


def canon_h5(h):
    if h is None or "err" in h:
        return h

    def ca(attrs):
        return sorted(attrs, key=lambda a: a[0])

    def carr(a):
        return {"name": a["name"], "cols": sorted(a["cols"]), "rows": a["rows"]}
    net = None
    if h["net"] is not None:
        net = {"attrs": ca(h["net"]["attrs"]),
               "leaves": sorted(({"name": l["name"], "attrs": ca(l["attrs"]),
                                  "arrays": sorted((carr(a) for a in l["arrays"]), key=lambda a: a["name"])}
                                 for l in h["net"]["leaves"]), key=lambda l: l["name"])}
    return {"attrs": ca(h["attrs"]), "top": None if h["top"] is None else sorted(h["top"]), "net": net}


def write_real(spec, path):
    import neuroml.writers as w
    doc = build_real(spec)
    try:
        w.NeuroMLHdf5Writer.write(doc, path)
        return None
    except Exception as e:  # noqa
        return exc_name(e)
    finally:
        close_all()


def reset_builder():
    """NetworkBuilder keeps its dictionaries on the class: start every load from an empty state (the leak between
    loads is not C05's topic; without this a dangling population reference would depend on the cases run before)"""
    from neuroml.hdf5.NetworkBuilder import NetworkBuilder as NB
    for k in ("populations", "projections", "projection_syns", "projection_types", "projection_syns_pre", "input_lists",
              "weightDelays"):
        d = getattr(NB, k, None)          # (C07's repair moves these tables to the instance)
        if isinstance(d, dict):
            d.clear()


def load_real(path, optimized=False):
    import neuroml.loaders as L
    reset_builder()
    try:
        if optimized:
            return L.NeuroMLHdf5Loader.load(path, optimized=True), None
        return L.NeuroMLHdf5Loader.load(path), None
    except Exception as e:  # noqa
        return None, exc_name(e)
    finally:
        close_all()


def materialise(h, xml, path):
    """model-built H5 JSON -> real file, written with PyTables the way the writer does"""
    import numpy as np
    import tables

    def put(node, attrs):
        for (k, v) in attrs:
            node._f_setattr(k, None if v is None else (v["s"] if "s" in v else int(v["i"])))
    f = tables.open_file(path, mode="w", title="t")
    try:
        root = f.create_group("/", "neuroml", "Root NeuroML group")
        put(root, h["attrs"])
        if h["top"] is not None:
            root._f_setattr("neuroml_top_level", xml)
        if h["net"] is not None:
            ng = f.create_group(root, "network")
            put(ng, h["net"]["attrs"])
            for l in h["net"]["leaves"]:
                lg = f.create_group(ng, l["name"])
                put(lg, l["attrs"])
                for a in l["arrays"]:
                    data = np.array([[float(unj(x)) for x in row] for row in a["rows"]], dtype=np.float32)
                    arr = f.create_carray(lg, a["name"], obj=data, title="Connections of cells in " + a["name"])
                    for (n_, nm) in a["cols"]:
                        arr._f_setattr("column_%d" % n_, nm)
    finally:
        f.close()


# ------------------------------------------------------------------------------------------------ canonical Doc JSON
def f32j(p):
    return None if p is None else jr(f32(unj(p)))


def canon_doc(d, round32):
    """sort the id-keyed lists; with round32 every table-derived value is viewed through float32"""
    if d is None or "err" in d:
        return d
    rr = f32j if round32 else (lambda p: p)

    def cc(c):
        c = dict(c)
        c["preFrac"], c["postFrac"], c["weight"] = rr(c["preFrac"]), rr(c["postFrac"]), rr(c["weight"])
        c["delay"] = [rr(c["delay"][0]), c["delay"][1]]
        return c

    def ci(i):
        i = dict(i)
        i["frac"], i["weight"] = rr(i["frac"]), rr(i["weight"])
        return i
    nets = []
    for ns in d["nets"]:
        nets.append({
            "id": ns["id"], "notes": ns["notes"], "temperature": ns["temperature"],
            "pops": sorted(({"id": p["id"], "comp": p["comp"], "size": p["size"], "typ": p["typ"],
                             "insts": [[i[0], rr(i[1]), rr(i[2]), rr(i[3])] for i in p["insts"]],
                             "props": sorted(p["props"])} for p in ns["pops"]), key=lambda p: p["id"]),
            "projs": sorted(({"id": p["id"], "pre": p["pre"], "post": p["post"], "syn": p["syn"],
                              "conns": [cc(c) for c in p["conns"]], "connWDs": [cc(c) for c in p["connWDs"]]}
                             for p in ns["projs"]), key=lambda p: p["id"]),
            "eprojs": sorted(({"id": p["id"], "pre": p["pre"], "post": p["post"],
                               "plain": [cc(c) for c in p["plain"]], "insts": [cc(c) for c in p["insts"]],
                               "instWs": [cc(c) for c in p["instWs"]]} for p in ns["eprojs"]), key=lambda p: p["id"]),
            "cprojs": sorted(({"id": p["id"], "pre": p["pre"], "post": p["post"],
                               "plain": [cc(c) for c in p["plain"]], "insts": [cc(c) for c in p["insts"]],
                               "instWs": [cc(c) for c in p["instWs"]]} for p in ns["cprojs"]), key=lambda p: p["id"]),
            "ilists": sorted(({"id": l["id"], "comp": l["comp"], "pop": l["pop"],
                               "inputs": [ci(i) for i in l["inputs"]], "inputWs": [ci(i) for i in l["inputWs"]]}
                              for l in ns["ilists"]), key=lambda l: l["id"]),
        })
    top = [[t[0], t[1], "<generated>"] if (t[0] == "silentSynapse" and t[1].startswith("silentSyn_")) else list(t)
           for t in d["top"]]
    return {"id": d["id"], "notes": d["notes"], "nets": nets, "top": sorted(top)}


# ------------------------------------------------------------------------------------------------ semantic projection (oracle side)
def end_of(dflt, r):
    return [dflt, r[1]] if r[0] == "plain" else [r[1], r[2]]


def delay_ms(d):
    v, u = unj(d[0]), d[1]
    return v if u == "ms" else (v * 1000 if u == "s" else v / 1000)


def ne(s):
    return s if s else None


def py_sem(d):
    """the property's reading of a document (Doc JSON): cells by population + index, delays in ms, defaults filled in"""
    def sc(c, with_id, pre, post):
        return {"id": c["id"] if with_id else None, "pre": end_of(pre, c["pre"]), "post": end_of(post, c["post"]),
                "preSeg": c["preSeg"], "postSeg": c["postSeg"], "preFrac": unj(c["preFrac"]),
                "postFrac": unj(c["postFrac"]), "weight": F(1) if c["weight"] is None else unj(c["weight"]),
                "delay": delay_ms(c["delay"]), "syn": c["syn"], "preComp": c["preComp"]}

    def si(i, pop):
        return {"id": i["id"], "cell": end_of(pop, i["target"]), "seg": i["seg"] or 0,
                "frac": F(1, 2) if i["frac"] is None else unj(i["frac"]),
                "weight": F(1) if i["weight"] is None else unj(i["weight"])}
    nets = []
    for ns in d["nets"]:
        nets.append({
            "id": ns["id"], "notes": ne(ns["notes"]), "temperature": ne(ns["temperature"]),
            "pops": [{"id": p["id"], "comp": p["comp"],
                      "size": len(p["insts"]) if p["insts"] else (p["size"] or 0),
                      "instIds": [i[0] for i in p["insts"]],
                      "locs": [[unj(i[1]), unj(i[2]), unj(i[3])] for i in p["insts"]],
                      "props": [list(x) for x in p["props"]]} for p in ns["pops"]],
            "projs": [{"id": p["id"], "pre": p["pre"], "post": p["post"], "syn": p["syn"],
                       "conns": [sc(c, False, p["pre"], p["post"]) for c in p["conns"] + p["connWDs"]]} for p in ns["projs"]],
            "eprojs": [{"id": p["id"], "pre": p["pre"], "post": p["post"], "syn": "",
                        "conns": [sc(c, True, p["pre"], p["post"]) for c in p["plain"] + p["insts"] + p["instWs"]]}
                       for p in ns["eprojs"]],
            "cprojs": [{"id": p["id"], "pre": p["pre"], "post": p["post"], "syn": "",
                        "conns": [sc(c, True, p["pre"], p["post"]) for c in p["plain"] + p["insts"] + p["instWs"]]}
                       for p in ns["cprojs"]],
            "ils": [{"id": l["id"], "comp": l["comp"], "pop": l["pop"],
                     "inputs": [si(i, l["pop"]) for i in l["inputs"] + l["inputWs"]]} for l in ns["ilists"]],
        })
    return {"id": d["id"], "notes": ne(d["notes"]), "nets": nets}


def i32(n):
    """an integer stored in a float32 cell and read back with int()"""
    return None if n is None else int(f32(F(n)))


def py_expect(s, ints=True):
    """float32 view + canonical order (weight-1 entries first) — what must be equal before and after"""
    ii = i32 if ints else (lambda n: n)

    def rc(c):
        c = dict(c)
        for k in ("preFrac", "postFrac", "weight", "delay"):
            c[k] = f32(c[k])
        c["id"], c["preSeg"], c["postSeg"] = ii(c["id"]), ii(c["preSeg"]), ii(c["postSeg"])
        c["pre"], c["post"] = [c["pre"][0], ii(c["pre"][1])], [c["post"][0], ii(c["post"][1])]
        return c

    def canon(l):
        return [x for x in l if x["weight"] == 1] + [x for x in l if x["weight"] != 1]

    def ri(i):
        i = dict(i)
        i["frac"], i["weight"] = f32(i["frac"]), f32(i["weight"])
        i["id"], i["seg"], i["cell"] = ii(i["id"]), ii(i["seg"]), [i["cell"][0], ii(i["cell"][1])]
        return i
    nets = []
    for ns in s["nets"]:
        n2 = dict(ns)
        n2["pops"] = sorted(({**p, "locs": [[f32(x) for x in l] for l in p["locs"]], "props": sorted(p["props"])}
                             for p in ns["pops"]), key=lambda p: p["id"])
        n2["projs"] = sorted(({**p, "conns": [rc(c) for c in p["conns"]]} for p in ns["projs"]), key=lambda p: p["id"])
        for k in ("eprojs", "cprojs"):
            n2[k] = sorted(({**p, "conns": canon([rc(c) for c in p["conns"]])} for p in ns[k]), key=lambda p: p["id"])
        n2["ils"] = sorted(({**l, "inputs": canon([ri(i) for i in l["inputs"]])} for l in ns["ils"]), key=lambda l: l["id"])
        nets.append(n2)
    return {"id": s["id"], "notes": s["notes"], "nets": nets}


def sem_from_lean(j):
    """driver `sem` output -> same shape as py_expect (Fractions)"""
    def c(x):
        x = dict(x)
        for k in ("preFrac", "postFrac", "weight", "delay"):
            x[k] = unj(x[k])
        return x

    def i(x):
        x = dict(x)
        x["frac"], x["weight"] = unj(x["frac"]), unj(x["weight"])
        return x
    nets = []
    for ns in j["nets"]:
        n2 = dict(ns)
        n2["pops"] = sorted(({**p, "locs": [[unj(v) for v in l] for l in p["locs"]], "props": sorted(p["props"])}
                             for p in ns["pops"]), key=lambda p: p["id"])
        for k in ("projs", "eprojs", "cprojs"):
            n2[k] = sorted(({**p, "conns": [c(x) for x in p["conns"]]} for p in ns[k]), key=lambda p: p["id"])
        n2["ils"] = sorted(({**l, "inputs": [i(x) for x in l["inputs"]]} for l in ns["ils"]), key=lambda l: l["id"])
        nets.append(n2)
    return {"id": j["id"], "notes": j["notes"], "nets": nets}


def sem_diffs(a, b):
    """positional differences between two expected-form semantic values: list of (section, owner id, field, a, b)"""
    out = []
    for k in ("id", "notes"):
        if a[k] != b[k]:
            out.append(("doc", "", k, a[k], b[k]))
    if len(a["nets"]) != len(b["nets"]):
        out.append(("doc", "", "nets.len", len(a["nets"]), len(b["nets"])))
        return out
    for na, nb in zip(a["nets"], b["nets"]):
        for k in ("id", "notes", "temperature"):
            if na[k] != nb[k]:
                out.append(("net", na["id"], k, na[k], nb[k]))
        for sec, inner in (("pops", None), ("projs", "conns"), ("eprojs", "conns"), ("cprojs", "conns"), ("ils", "inputs")):
            ia = {x["id"]: x for x in na[sec]}
            ib = {x["id"]: x for x in nb[sec]}
            if sorted(ia) != sorted(ib) or len(na[sec]) != len(nb[sec]):
                out.append((sec, "", "ids", sorted(ia), sorted(ib)))
                continue
            for k_, xa in ia.items():
                xb = ib[k_]
                for f_ in xa:
                    if f_ == inner:
                        continue
                    if xa[f_] != xb[f_]:
                        out.append((sec, k_, f_, xa[f_], xb[f_]))
                if inner:
                    if len(xa[inner]) != len(xb[inner]):
                        out.append((sec, k_, "rows.len", len(xa[inner]), len(xb[inner])))
                        continue
                    for ra, rb in zip(xa[inner], xb[inner]):
                        for f_ in ra:
                            if ra[f_] != rb[f_]:
                                out.append((sec, k_, f_, ra[f_], rb[f_]))
    return out


# ------------------------------------------------------------------------------------------------ oracle
def py_has(name, sub):
    return name.count(sub) >= 1


_COUNT_TESTS = None


def parser_uses_count():
    """does the parser of the tree under test still classify groups with `name.count(..)` (before the C05 repair)?"""
    global _COUNT_TESTS
    if _COUNT_TESTS is None:
        try:
            src = open(os.path.join(fw.REPO, "neuroml", "hdf5", "NeuroMLHdf5Parser.py")).read()
            _COUNT_TESTS = '_v_name.count("' in src
        except OSError:
            _COUNT_TESTS = False
    return _COUNT_TESTS


def ambiguous_names(spec):
    out = []
    if not parser_uses_count():
        return out
    for ns in spec["nets"]:
        names = ["population_" + p["id"] for p in ns["pops"]] + \
                ["projection_" + p["id"] for p in ns["projs"] + ns["eprojs"] + ns["cprojs"]] + \
                ["inputList_" + l["id"] for l in ns["ilists"]]
        for nm in names:
            k = sum([py_has(nm, "population_"), py_has(nm, "projection_"),
                     py_has(nm, "inputList_") or py_has(nm, "input_list_")])
            if k != 1:
                out.append(nm)
    return out


def must_refuse(spec):
    """constructs the format cannot hold (own reading of the format, not the model's)"""
    r = []
    if len(spec["nets"]) > 1:
        r.append("several-networks")
    for ns in spec["nets"]:
        if ns.get("nSyn"):
            r.append("synapticConnection")
        if ns.get("nExp"):
            r.append("explicitInput")
        names = ["population_" + p["id"] for p in ns["pops"]] + \
                ["projection_" + p["id"] for p in ns["projs"] + ns["eprojs"] + ns["cprojs"]] + \
                ["inputList_" + l["id"] for l in ns["ilists"]]
        if len(set(names)) != len(names):
            r.append("duplicate-group-name")
        for p in ns["projs"]:
            if any(c["delay"][1] == "us" for c in p["connWDs"]):
                r.append("delay-in-us")
        for p in ns["eprojs"] + ns["cprojs"]:
            if not (p["plain"] or p["insts"] or p["instWs"]):
                r.append("empty-gap-or-continuous-projection")
        for l in ns["ilists"]:
            if not (l["inputs"] or l["inputWs"]):
                r.append("empty-input-list")
        for p in ns["pops"]:
            if p["size"] is None and not p["insts"]:
                r.append("population-without-size")
    return r


def may_refuse(spec):
    """documents the library is allowed (not obliged) to refuse: the format as it is cannot hold them"""
    r = []
    for ns in spec["nets"]:
        pops = {q["id"]: q for q in ns["pops"]}
        for sec in ("eprojs", "cprojs"):
            for p in ns[sec]:
                allc = p["plain"] + p["insts"] + p["instWs"]
                if len({(c["syn"], c["preComp"]) for c in allc}) > 1:
                    r.append("mixed-synapse-in-projection")
                if p["pre"] in pops and p["post"] in pops and not pop_is_inst(pops[p["pre"]]) \
                        and not pop_is_inst(pops[p["post"]]) and \
                        any(c["weight"] is not None and f32(unj(c["weight"])) != 1 for c in p["instWs"]):
                    r.append("weight-between-sized-populations")
    return r


def classify(spec, sec, owner, field, va, vb):
    ns = spec["nets"][0] if spec["nets"] else None
    if field == "notes" and va is None and vb == "None":
        return "C05:notes-none-becomes-string"
    if sec in ("eprojs", "cprojs") and field == "id":
        return "C05:conn-id-lost:" + ("electrical" if sec == "eprojs" else "continuous")
    if field == "weight" and va == 1 and vb == 0:
        return "C05:unweighted-row-weight-zero"
    if sec == "ils" and field == "frac" and va == 0 and vb == F(1, 2):
        return "C05:input-fraction-zero"
    if sec == "pops" and field == "instIds":
        return "C05:instance-ids-renumbered"
    if sec == "pops" and field == "props" and any(":" in t for (t, _) in va):
        return "C05:silently-dropped:property-tag-after-colon"
    if ns and sec in ("eprojs", "cprojs") and field in ("syn", "preComp", "weight"):
        p = [q for q in ns[sec] if q["id"] == owner]
        if p:
            p = p[0]
            allc = p["plain"] + p["insts"] + p["instWs"]
            if field in ("syn", "preComp") and len({(c["syn"], c["preComp"]) for c in allc}) > 1:
                return "C05:mixed-synapse-in-projection"
            if field == "preComp" and sec == "cprojs":
                ids = {t[1] for t in spec["topspec"]}
                if any(c["preComp"] not in ids for c in allc):
                    return "C05:dangling-pre-component"
            if field == "weight" and sec == "eprojs":
                pops = {q["id"]: q for q in ns["pops"]}
                if p["pre"] in pops and p["post"] in pops and not pop_is_inst(pops[p["pre"]]) \
                        and not pop_is_inst(pops[p["post"]]):
                    return "C05:weight-dropped-sized-populations"
    return "C05:mismatch:%s.%s" % (sec, field)


def check_extras(spec, doc2):
    """members the generator planted that the format has no place for: present after the load?"""
    out = []
    for ns, net in zip(spec["nets"], doc2.networks):
        ex = ns.get("extras", {})
        for k in ("spaces", "regions", "cell_sets"):
            if ex.get(k) and len(getattr(net, k)) == 0:
                out.append("C05:silently-dropped:Network." + k)
        pops = {p.id: p for p in net.populations}
        for ps in ns["pops"]:
            p = pops.get(ps["id"])
            if p is None:
                continue
            if ps.get("xnotes") and p.notes != ps["xnotes"]:
                out.append("C05:silently-dropped:Population.notes")
            if ps.get("ijk") and any(i.i is None for i in p.instances):
                out.append("C05:silently-dropped:Instance.i")
        ils = {l.id: l for l in net.input_lists}
        for ls in ns["ilists"]:
            l = ils.get(ls["id"])
            if l is not None and "dest" in ls and any(i.destination != ls["dest"] for i in list(l.input) + list(l.input_ws)):
                out.append("C05:silently-dropped:Input.destination")
    return out


def show(v):
    if isinstance(v, F):
        return str(v)
    if isinstance(v, list):
        return [show(x) for x in v]
    return v


def path_form_errors(after):
    """in the loaded document every cell reference must have the form that fits its population: `../pop/i/comp` for
    a population with instances, `../pop[i]` for a sized one, a bare index only in the non-instance classes"""
    out = []
    for ns in after["nets"]:
        pops = {p["id"]: p for p in ns["pops"]}

        def ok(ref, pop_id, bare_ok):
            if ref[0] == "plain":
                return bare_ok
            p = pops.get(pop_id)
            if p is None or ref[1] != pop_id:
                return False
            if p["insts"]:
                return ref[0] == "slash" and ref[3] == p["comp"]
            return ref[0] == "bracket"
        for p in ns["projs"]:
            for c in p["conns"] + p["connWDs"]:
                if not (ok(c["pre"], p["pre"], False) and ok(c["post"], p["post"], False)):
                    out.append("projection " + p["id"])
        for p in ns["eprojs"] + ns["cprojs"]:
            for k in ("plain", "insts", "instWs"):
                for c in p[k]:
                    if not (ok(c["pre"], p["pre"], k == "plain") and ok(c["post"], p["post"], k == "plain")):
                        out.append("projection " + p["id"])
        for l in ns["ilists"]:
            for i in l["inputs"] + l["inputWs"]:
                if not ok(i["target"], l["pop"], False):
                    out.append("inputList " + l["id"])
    return out


def oracle(ctx, spec, before, werr, doc2, lerr, after):
    """the full property on the real code. before/after: Doc JSON of the real objects"""
    case = {"spec": spec}
    refused = werr or lerr
    mr = must_refuse(spec)
    if mr:
        ctx.count("oracle:must-refuse")
        if not refused:
            ctx.fail("C05:not-refused:" + mr[0], "a construct the format cannot hold (%s) was written and loaded "
                     "without an exception" % mr[0], case)
        return
    amb = ambiguous_names(spec)
    exp = py_expect(py_sem(before))
    if refused:
        if may_refuse(spec):
            ctx.count("oracle:allowed-refusal")
            return
        if amb:
            ctx.fail("C05:group-name-substring", "group name %s triggers several of the parser's name tests: %s"
                     % (amb[0], refused), case)
            return
        ctx.fail("C05:supported-input-refused:%s:%s" % ("write" if werr else "load", refused),
                 "a document within the supported constructs was refused (%s)" % refused, case)
        return
    got = py_expect(py_sem(after))
    diffs = sem_diffs(exp, got)
    topa, topb = sorted(before["top"]), sorted(after["top"])
    if amb and (diffs or topa != topb):
        ctx.fail("C05:group-name-substring", "group name %s triggers several of the parser's name tests; "
                 "first difference: %s" % (amb[0], str(diffs[:1])), case)
        return
    keys = {}
    for (sec, owner, field, va, vb) in diffs:
        k = classify(spec, sec, owner, field, va, vb)
        keys.setdefault(k, "%s %s field %s: expected %r, loaded %r" % (sec, owner, field, show(va), show(vb)))
    if topa != topb:
        extra = [t for t in topb if t not in topa]
        missing = [t for t in topa if t not in topb]
        ids = {t[1] for t in spec["topspec"]}
        dangling = any(c["preComp"] not in ids for ns in spec["nets"] for p in ns["cprojs"]
                       for c in p["plain"] + p["insts"] + p["instWs"])
        if not missing and extra and all(t[1].startswith("silentSyn_") for t in extra) and dangling:
            keys.setdefault("C05:dangling-pre-component", "a SilentSynapse %s was generated for an undefined preComponent"
                            % extra[0][1])
        else:
            keys.setdefault("C05:top-level-components-differ", "missing %s extra %s" % (missing[:2], extra[:2]))
    pf = path_form_errors(after)
    if pf and not amb:
        keys.setdefault("C05:loaded-path-form", "a cell reference in the loaded %s does not have the form of its "
                        "population (instance based: ../pop/i/comp, sized: ../pop[i])" % pf[0])
    for k in check_extras(spec, doc2):
        keys.setdefault(k, "a child element the format has no place for was dropped without an exception")
    for k, what in sorted(keys.items()):
        ctx.fail(k, what, case)


def oracle_opt(ctx, spec, before, oerr, after):
    """the full property for NeuroMLHdf5Loader.load(optimized=True) (the write succeeded)"""
    if must_refuse(spec):
        return
    case = {"spec": spec, "optimized": True}
    ns = spec["nets"][0] if spec["nets"] else None
    if oerr:
        if ns is None:
            key = "C05:optimized:refused:no-network"
        elif ns["eprojs"] or ns["cprojs"]:
            key = "C05:optimized:refused:electrical-or-continuous-projection"
        elif oerr == "AssertionError":
            key = "C05:optimized:refused:input-ids-not-row-index"
        else:
            key = "C05:optimized:refused:" + oerr
        ctx.fail(key, "the optimized loader refused a document within the supported constructs (%s)" % oerr, case)
        return
    diffs = sem_diffs(py_expect(py_sem(before)), py_expect(py_sem(after)))
    keys = {}
    for (sec, owner, field, va, vb) in diffs:
        k = None
        if sec == "projs":
            p = [q for q in ns["projs"] if q["id"] == owner]
            if p and any(f32(unj(c["weight"])) != 1 or delay_ms(c["delay"]) != 0 for c in p[0]["connWDs"]):
                k = "C05:optimized:weight-delay-dropped"
        if sec == "ils":
            l = [q for q in ns["ilists"] if q["id"] == owner]
            if l and any(i["weight"] is not None and f32(unj(i["weight"])) != 1 for i in l[0]["inputWs"]):
                k = "C05:optimized:input-weight-dropped"
            elif field == "frac" and va == 0 and vb == F(1, 2):
                k = "C05:input-fraction-zero"
        if sec == "pops" and field == "instIds":
            k = "C05:instance-ids-renumbered"
        if k is None:
            k = "C05:optimized:mismatch:%s.%s" % (sec, field)
        keys.setdefault(k, "optimized loader: %s %s field %s: expected %r, loaded %r" % (sec, owner, field, show(va), show(vb)))
    if sorted(before["top"]) != sorted(after["top"]):
        keys.setdefault("C05:optimized:top-level-components-differ", "non-network components differ")
    for k, what in sorted(keys.items()):
        ctx.fail(k, what, case)


# ------------------------------------------------------------------------------------------------ member kinds (stream `fate`)
def fate_base():
    """a document in which every member the layout stores has a non-default value"""
    import neuroml as n
    doc = n.NeuroMLDocument(id="fdoc", notes="doc notes")
    for kind, cid in STD_TOP:
        getattr(doc, TOP_LIST[kind]).append(TOP_KINDS[kind](n, cid))
    net = n.Network(id="fnet", notes="net notes", temperature="32degC", type="networkWithTemperature")
    doc.networks.append(net)
    zp = n.Population(id="zp", component="iz", size=4)
    zp.properties.append(n.Property(tag="color", value="1 0 0"))
    ap = n.Population(id="ap", component="iaf", type="populationList", size=3)
    for k in range(3):
        inst = n.Instance(id=k)
        inst.location = n.Location(x=1.5 + k, y=0.25, z=-3.0)
        ap.instances.append(inst)
    net.populations += [zp, ap]
    pr = n.Projection(id="pr", presynaptic_population="zp", postsynaptic_population="ap", synapse="syn1")
    pr.connections.append(n.Connection(id=0, pre_cell_id="../zp[1]", post_cell_id="../ap/2/iaf", pre_segment_id=2,
                                       post_segment_id=3, pre_fraction_along=0.25, post_fraction_along=0.75))
    prw = n.Projection(id="prw", presynaptic_population="zp", postsynaptic_population="ap", synapse="syn2")
    net.projections.append(prw)
    prw.connection_wds.append(n.ConnectionWD(id=0, pre_cell_id="../zp[3]", post_cell_id="../ap/1/iaf", pre_segment_id=1,
                                            post_segment_id=4, pre_fraction_along=0.125, post_fraction_along=0.875,
                                            weight=0.5, delay="2.5ms"))
    net.projections.append(pr)
    ep = n.ElectricalProjection(id="ep", presynaptic_population="zp", postsynaptic_population="zp")
    ep.electrical_connections.append(n.ElectricalConnection(id=4, pre_cell="1", post_cell="2", pre_segment=2, post_segment=3,
                                                            pre_fraction_along=0.25, post_fraction_along=0.75, synapse="gj"))
    ep2 = n.ElectricalProjection(id="ep2", presynaptic_population="zp", postsynaptic_population="ap")
    kw = dict(pre_cell="../zp[1]", post_cell="../ap/2/iaf", pre_segment=2, post_segment=3, pre_fraction_along=0.25,
              post_fraction_along=0.75)
    ep2.electrical_connection_instances.append(n.ElectricalConnectionInstance(id=6, synapse="gj2", **kw))
    ep2.electrical_connection_instance_ws.append(n.ElectricalConnectionInstanceW(id=9, synapse="gj2", weight=0.5, **kw))
    cp = n.ContinuousProjection(id="cp", presynaptic_population="zp", postsynaptic_population="zp")
    cp.continuous_connections.append(n.ContinuousConnection(id=4, pre_cell="1", post_cell="2", pre_segment=2, post_segment=3,
                                                            pre_fraction_along=0.25, post_fraction_along=0.75,
                                                            pre_component="silent1", post_component="gs1"))
    cp2 = n.ContinuousProjection(id="cp2", presynaptic_population="zp", postsynaptic_population="ap")
    ckw = dict(kw, pre_component="gs2", post_component="gs1")
    cp2.continuous_connection_instances.append(n.ContinuousConnectionInstance(id=6, **ckw))
    cp2.continuous_connection_instance_ws.append(n.ContinuousConnectionInstanceW(id=9, weight=0.5, **ckw))
    net.electrical_projections += [ep, ep2]
    net.continuous_projections += [cp, cp2]
    il = n.InputList(id="il", component="pg", populations="ap")
    il.input.append(n.Input(id=3, target="../ap/1/iaf", destination="synapses", segment_id=2, fraction_along=0.25))
    il.input_ws.append(n.InputW(id=5, target="../ap/2/iaf", destination="synapses", segment_id=4, fraction_along=0.75,
                                weight=0.5))
    net.input_lists.append(il)
    return doc


def fate_obj(doc, cls, member=""):
    net = doc.networks[0]

    def by(lst, i):
        return [x for x in lst if x.id == i][0]
    zp, ap = by(net.populations, "zp"), by(net.populations, "ap")
    if cls == "NeuroMLDocument":
        return doc
    if cls == "Network":
        return net
    if cls == "Population":
        return ap
    if cls == "Property":
        return zp.properties[0]
    if cls == "Instance":
        return ap.instances[1]
    if cls == "Location":
        return ap.instances[1].location
    if cls == "Projection":
        return by(net.projections, "prw" if member == "connection_wds" else "pr")
    if cls == "Connection":
        return by(net.projections, "pr").connections[0]
    if cls == "ConnectionWD":
        return by(net.projections, "prw").connection_wds[0]
    if cls == "ElectricalProjection":
        return by(net.electrical_projections, "ep" if member == "electrical_connections" else "ep2")
    if cls == "ElectricalConnection":
        return by(net.electrical_projections, "ep").electrical_connections[0]
    if cls == "ElectricalConnectionInstance":
        return by(net.electrical_projections, "ep2").electrical_connection_instances[0]
    if cls == "ElectricalConnectionInstanceW":
        return by(net.electrical_projections, "ep2").electrical_connection_instance_ws[0]
    if cls == "ContinuousProjection":
        return by(net.continuous_projections, "cp" if member == "continuous_connections" else "cp2")
    if cls == "ContinuousConnection":
        return by(net.continuous_projections, "cp").continuous_connections[0]
    if cls == "ContinuousConnectionInstance":
        return by(net.continuous_projections, "cp2").continuous_connection_instances[0]
    if cls == "ContinuousConnectionInstanceW":
        return by(net.continuous_projections, "cp2").continuous_connection_instance_ws[0]
    if cls == "InputList":
        return net.input_lists[0]
    if cls == "Input":
        return net.input_lists[0].input[0]
    if cls == "InputW":
        return net.input_lists[0].input_ws[0]
    raise KeyError(cls)


def fate_plant(obj, cls, member):
    """give an unset member a value"""
    import neuroml as n
    cur = getattr(obj, member)
    if isinstance(cur, list):
        child = {"spaces": lambda: n.Space(id="sp1"), "regions": lambda: n.Region(id="reg1", spaces="sp1"),
                 "extracellular_properties": lambda: n.ExtracellularPropertiesLocal(),
                 "cell_sets": lambda: n.CellSet(id="cs1", select="x"),
                 "properties": lambda: n.Property(tag="ptag", value="pval"),
                 "synaptic_connections": lambda: n.SynapticConnection(from_="zp[0]", to="zp[1]", synapse="syn1"),
                 "explicit_inputs": lambda: n.ExplicitInput(target="zp[0]", input="pg")}[member]()
        cur.append(child)
        return
    val = {"metaid": "meta_1", "annotation": None, "neuro_lex_id": "NLXCELL:1", "notes": "member notes",
           "extracellular_properties": "extra1", "layout": None, "i": 1, "j": 2, "k": 3,
           "destination": "someOtherPort"}[member]
    if member == "annotation":
        val = n.Annotation()
    if member == "layout":
        val = n.Layout(spaces="sp1")
    setattr(obj, member, val)


def fate_same(a, b):
    if isinstance(a, list):
        return isinstance(b, list) and len(a) == len(b) and len(a) > 0
    if a is None or b is None:
        return a is None and b is None
    if hasattr(a, "member_data_items_"):
        return type(a) is type(b)
    try:
        if isinstance(a, str) and re.fullmatch(r"[-0-9.eE]+(ms|s)", a):
            return delay_ms(parse_delay(a)) == delay_ms(parse_delay(b))
        return f32(rat(a)) == f32(rat(b))
    except Exception:
        return str(a) == str(b)


def run_fate(ctx):
    """every member `nml.py` declares for a class of the network subtree: what the real writer + loader do with it
    (kept / lost / refused) against the model's classification (`memberFateAll`); a member that is lost without an
    exception is a violation of the statement's last clause"""
    rc, out = fw.run_driver("C05", [json.dumps({"op": "fate", "cfg": {}})])
    if rc != 0 or len(out) != 1:
        ctx.disagree("driver", "fate", "\n".join(out[-3:]), None)
        return
    table = json.loads(out[0])["ok"]
    root = tempfile.mkdtemp(prefix="verif_c05f_")
    try:
        for k, (cls, member, fate) in enumerate(table):
            doc = fate_base()
            obj = fate_obj(doc, cls, member)
            cur = getattr(obj, member)
            planted = False
            if cur is None or (isinstance(cur, list) and not cur) or fate in ("dropped", "refused"):
                fate_plant(obj, cls, member)
                planted = True
            want = getattr(obj, member)
            want = list(want) if isinstance(want, list) else want
            path = os.path.join(root, "f%d.nml.h5" % k)
            import neuroml.writers as w
            err = None
            try:
                w.NeuroMLHdf5Writer.write(doc, path)
            except Exception as e:  # noqa
                err = exc_name(e)
            finally:
                close_all()
            got = None
            if err is None:
                doc2, err = load_real(path)
                if doc2 is not None:
                    try:
                        got = getattr(fate_obj(doc2, cls, member), member)
                    except Exception as e:  # noqa
                        err = "gone:" + type(e).__name__
            seen = "refused" if err and not str(err).startswith("gone:") else \
                ("kept" if err is None and fate_same(want, got) else "lost")
            ctx.corr_evals += 1
            ctx.count("fate:%s:%s" % (fate, seen))
            ctx.seen(["fate", cls, member], nontrivial=True)
            expect = {"stored": "kept", "derived": "kept", "refused": "refused", "dropped": "lost"}[fate]
            case = {"fate": [cls, member], "planted": planted}
            if seen != expect:
                ctx.disagree("fate", case, seen, fate)
            if seen == "lost":
                ctx.fail("C05:silently-dropped:%s.%s" % (cls, member),
                         "member %s.%s is written and loaded without an exception and its value is gone" % (cls, member), case)
            try:
                os.remove(path)
            except OSError:
                pass
    finally:
        close_all()
        shutil.rmtree(root, ignore_errors=True)


# ------------------------------------------------------------------------------------------------ float32 (stream `f32`)
def run_f32(ctx):
    """the model's round-to-nearest-even on 24 bits against numpy.float32, and its idempotence, on doubles of every
    magnitude (ties, subnormals, integers around 2^24 included)"""
    import struct
    rng = ctx.rng
    xs = [F(0), F(1), F(1, 2), F(16777217), F(16777219), F(-16777217), F(1, 1 << 150), F(3, 1 << 150), F(1, 1 << 149),
          F(0.1), F(0.3), F(1.0000000001), F(12345.678), F((1 << 24) + 1, 1 << 24), F((1 << 25) + 1, 1 << 25),
          F((1 << 25) + 3, 1 << 25)]
    for _ in range(ctx.n(300, 3000)):
        style = rng.random()
        if style < 0.4:
            xs.append(F(rng.uniform(-1e4, 1e4)))
        elif style < 0.6:
            xs.append(F(struct.unpack("<d", struct.pack("<Q", rng.getrandbits(64) & 0x47EFFFFFFFFFFFFF | (rng.getrandbits(1) << 63)))[0]))
        elif style < 0.8:
            m = rng.getrandbits(25) | 1          # 25 significant bits: exactly between two float32 values
            xs.append(F(m, 1 << rng.randrange(0, 60)) * rng.choice([1, -1]))
        else:
            xs.append(F(rng.randrange(-(1 << 26), 1 << 26)))
    xs = [x for x in xs if abs(x) < F(2) ** 127]
    rc, out = fw.run_driver("C05", [json.dumps({"op": "f32", "cfg": {}, "xs": [jr(x) for x in xs]})])
    if rc != 0 or len(out) != 1:
        ctx.disagree("driver", "f32", "\n".join(out[-3:]), None)
        return
    ys = [unj(p) for p in json.loads(out[0])["ok"]]
    rc, out2 = fw.run_driver("C05", [json.dumps({"op": "f32", "cfg": {}, "xs": [jr(y) for y in ys]})])
    zs = [unj(p) for p in json.loads(out2[0])["ok"]]
    for x, y, z in zip(xs, ys, zs):
        ctx.corr_evals += 1
        ctx.count("f32:values")
        if f32(x) != y:
            ctx.disagree("f32", {"x": str(x)}, str(f32(x)), str(y))
        if z != y:
            ctx.disagree("f32-idempotence", {"x": str(x)}, str(y), str(z))


# ------------------------------------------------------------------------------------------------ correspondence
def frac_truthy():
    """does Input.get_fraction_along still take 0.0 for "not set" (C19's defect)?"""
    import neuroml as n
    return n.Input(id=0, target="../a[0]", destination="synapses", fraction_along=0.0).get_fraction_along() == 0.5


def perturb(rng, h):
    """column permutations / dropped optional columns on one table of a model-built file"""
    h = json.loads(json.dumps(h))
    if h["net"] is None:
        return h, "same"
    cands = [a for l in h["net"]["leaves"] if not l["name"].startswith("population_") for a in l["arrays"]]
    if not cands:
        return h, "same"
    a = rng.choice(cands)
    ncol = len(a["cols"])
    mode = rng.choice(["perm", "perm", "drop", "same", "dropreq", "loc"])
    if mode == "loc":
        return perturb_loc(rng, h)
    if mode == "dropreq":
        # forget the NAME of a required column (the data stays): the reader's index keeps its initial -1
        req = [c for c in a["cols"] if c[1] in ("pre_cell_id", "post_cell_id", "target_cell_id")]
        if not req:
            return h, "same"
        a["cols"].remove(rng.choice(req))
        return h, mode
    if mode == "perm":
        pi = list(range(ncol))
        rng.shuffle(pi)                     # old column k moves to position pi[k]
        a["cols"] = [[pi[k], nm] for (k, nm) in a["cols"]]
        a["rows"] = [[row[pi.index(j)] for j in range(ncol)] for row in a["rows"]]
    elif mode == "drop":
        opt = [k for (k, nm) in a["cols"] if nm not in ("pre_cell_id", "post_cell_id", "target_cell_id")]
        if not opt or ncol <= 1:
            return h, "same"
        k0 = rng.choice(opt)
        a["cols"] = [[k - (1 if k > k0 else 0), nm] for (k, nm) in a["cols"] if k != k0]
        a["rows"] = [[v for (j, v) in enumerate(row) if j != k0] for row in a["rows"]]
    return h, mode


def perturb_loc(rng, h):
    """location tables as older writers produced them: 4 columns (id x y z), with or without column names, names
    permuted, or a width the reader has no fallback for"""
    locs = [a for l in h["net"]["leaves"] if l["name"].startswith("population_") for a in l["arrays"]]
    if not locs:
        return h, "same"
    a = rng.choice(locs)
    kind = rng.choice(["id4", "id4-noname", "noname3", "perm3", "id4-badid", "wide5"])
    rows = a["rows"]
    if kind in ("id4", "id4-noname", "id4-badid"):
        ids = [k if kind != "id4-badid" else 7 + 2 * k for k in range(len(rows))]
        a["rows"] = [[jr(F(ids[k]))] + row for k, row in enumerate(rows)]
        a["cols"] = [] if kind == "id4-noname" else [[0, "id"], [1, "x"], [2, "y"], [3, "z"]]
        if kind == "id4-badid" and rng.random() < 0.5:
            a["cols"] = []
    elif kind == "noname3":
        a["cols"] = [c for c in a["cols"] if rng.random() < 0.4]
    elif kind == "perm3":
        pi = [0, 1, 2]
        rng.shuffle(pi)
        a["cols"] = [[pi[k], nm] for (k, nm) in a["cols"]]
        a["rows"] = [[row[pi.index(j)] for j in range(3)] for row in rows]
    else:
        a["rows"] = [row + [jr(F(9)), jr(F(8))] for row in rows]
        a["cols"] = [c for c in a["cols"] if rng.random() < 0.5]
    return h, "loc:" + kind


def is_nontrivial(spec):
    for ns in spec["nets"]:
        for p in ns["projs"]:
            if len(p["conns"]) + len(p["connWDs"]) >= 2:
                return True
        for p in ns["eprojs"] + ns["cprojs"]:
            if len(p["plain"]) + len(p["insts"]) + len(p["instWs"]) >= 2:
                return True
        for l in ns["ilists"]:
            if len(l["inputs"]) + len(l["inputWs"]) >= 2:
                return True
    return False


def spec_core(spec, top):
    d = {"id": spec["id"], "notes": spec["notes"], "top": top, "nets": []}
    for ns in spec["nets"]:
        d["nets"].append({k: ns[k] for k in ("id", "notes", "temperature", "nSyn", "nExp", "pops", "projs", "eprojs",
                                             "cprojs", "ilists")})
        d["nets"][-1]["pops"] = [{k: p[k] for k in ("id", "comp", "size", "typ", "insts", "props")} for p in ns["pops"]]
        d["nets"][-1]["ilists"] = [{k: l[k] for k in ("id", "comp", "pop", "inputs", "inputWs")} for l in ns["ilists"]]
    return d


def short(spec):
    out = {"special": spec.get("special"), "nets": []}
    for ns in spec["nets"]:
        out["nets"].append({
            "pops": ["%s:%s" % (p["id"], "inst%d" % len(p["insts"]) if p["insts"] else "size%s" % p["size"]) for p in ns["pops"]],
            "projs": ["%s:%d+%dwd" % (p["id"], len(p["conns"]), len(p["connWDs"])) for p in ns["projs"]],
            "eprojs": ["%s:%d/%d/%d" % (p["id"], len(p["plain"]), len(p["insts"]), len(p["instWs"])) for p in ns["eprojs"]],
            "cprojs": ["%s:%d/%d/%d" % (p["id"], len(p["plain"]), len(p["insts"]), len(p["instWs"])) for p in ns["cprojs"]],
            "ilists": ["%s:%d+%dw" % (l["id"], len(l["inputs"]), len(l["inputWs"])) for l in ns["ilists"]]})
    return out


def run_cases(ctx, specs):
    warnings.simplefilter("ignore")
    ft = frac_truthy()
    ctx.extra["input_fraction_truthiness_defect_present"] = ft
    cfg = {"fracTruthy": ft}
    root = tempfile.mkdtemp(prefix="verif_c05_")
    try:
        # ---- pass 0: real objects, harness-side JSON of them
        prepared = []
        for k, spec in enumerate(specs):
            doc = build_real(spec)
            before = doc_to_json(doc)
            _, xml = top_comps(doc)
            core = spec_core(spec, before["top"])
            if canon_doc(core, False) != canon_doc(before, False):
                ctx.disagree("spec-vs-objects", {"spec": spec}, canon_doc(before, False), canon_doc(core, False))
            prepared.append((spec, core, before, xml))
        # ---- pass 1: model enc / sem / rt
        lines = []
        for (spec, core, before, xml) in prepared:
            lines.append(json.dumps({"op": "enc", "cfg": cfg, "doc": core}))
            lines.append(json.dumps({"op": "sem", "cfg": cfg, "doc": core}))
            lines.append(json.dumps({"op": "rt", "cfg": cfg, "doc": core}))
            lines.append(json.dumps({"op": "rtopt", "cfg": dict(cfg, popNames=True), "doc": core}))
        rc, out = fw.run_driver("C05", lines)
        if rc != 0 or len(out) != len(lines):
            ctx.disagree("driver", "driver failed rc=%s" % rc, "\n".join(out[-5:]), None)
            return
        dec_jobs = []
        for k, (spec, core, before, xml) in enumerate(prepared):
            m_enc, m_sem, m_rt, m_opt = (json.loads(out[4 * k + j]) for j in range(4))
            case = {"spec": spec}
            nt = is_nontrivial(spec)
            ctx.count("special:%s" % spec["special"] if spec.get("special") else "valid-stream")
            for ns in spec["nets"]:
                ctx.count("populations", len(ns["pops"]))
                ctx.count("projections", len(ns["projs"]))
                ctx.count("electrical_projections", len(ns["eprojs"]))
                ctx.count("continuous_projections", len(ns["cprojs"]))
                ctx.count("input_lists", len(ns["ilists"]))
            ctx.sample(short(spec))
            # sem stream
            ctx.corr_evals += 1
            if "ok" in m_sem:
                mine = py_expect(py_sem(before), ints=False)
                theirs = sem_from_lean(m_sem["ok"])
                if mine != theirs:
                    ctx.disagree("sem", case, json.loads(json.dumps(mine, default=str)),
                                 json.loads(json.dumps(theirs, default=str)))
            else:
                ctx.disagree("sem", case, "ok", m_sem)
            # enc stream
            path = os.path.join(root, "c%d.nml.h5" % k)
            werr = write_real(spec, path)
            ctx.corr_evals += 1
            ctx.count("write:" + (werr or "ok"))
            if werr:
                if m_enc != {"err": werr}:
                    ctx.disagree("enc", case, {"err": werr}, m_enc)
            else:
                real_h = canon_h5(dump_h5(path))
                mod_h = canon_h5(m_enc.get("ok")) if "ok" in m_enc else m_enc
                if real_h != mod_h:
                    ctx.disagree("enc", case, real_h, mod_h)
            # load + oracle + e2e model comparison
            doc2, lerr, after = None, None, None
            if not werr:
                doc2, lerr = load_real(path)
                ctx.count("load:" + (lerr or "ok"))
                if doc2 is not None:
                    after = doc_to_json(doc2)
            ctx.seen(canon_doc(core, False), nontrivial=nt and not werr and not lerr)
            oracle(ctx, spec, before, werr, doc2, lerr, after)
            ctx.corr_evals += 1
            if m_rt.get("err") == "unmodelled":
                ctx.count("rt:unmodelled")
            elif werr or lerr:
                if m_rt != {"err": werr or lerr}:
                    ctx.disagree("rt", case, {"err": werr or lerr}, m_rt)
            else:
                ra, rm = canon_doc(after, True), (canon_doc(m_rt["ok"], True) if "ok" in m_rt else m_rt)
                if ra != rm:
                    ctx.disagree("rt", case, ra, rm)
            # the optimized loader on the same file: correspondence (`roundTripOpt`) and the full property
            if not werr:
                doc3, oerr = load_real(path, optimized=True)
                after3 = None
                if doc3 is not None:
                    try:
                        after3 = doc_to_json(doc3)          # the containers build their entries while they are read
                    except Exception as e:  # noqa
                        oerr = exc_name(e)
                ctx.count("opt:" + (oerr or "ok"))
                ctx.corr_evals += 1
                if m_opt.get("err") == "unmodelled":
                    ctx.count("opt:unmodelled")
                elif oerr:
                    if m_opt != {"err": oerr}:
                        ctx.disagree("opt", case, {"err": oerr}, m_opt)
                else:
                    ra, rm = canon_doc(after3, True), (canon_doc(m_opt["ok"], True) if "ok" in m_opt else m_opt)
                    if ra != rm:
                        ctx.disagree("opt", case, ra, rm)
                oracle_opt(ctx, spec, before, oerr, after3)
            try:
                os.remove(path)
            except OSError:
                pass
            # dec stream jobs: model-built file, perturbed
            if "ok" in m_enc:
                for j in range(2):
                    h2, mode = perturb(ctx.rng, m_enc["ok"]) if j else (m_enc["ok"], "same")
                    dec_jobs.append((spec, h2, mode, xml))
        # ---- pass 2: model dec vs real loader on model-built files
        lines = [json.dumps({"op": "dec", "cfg": cfg, "h5": h2}) for (_, h2, _, _) in dec_jobs]
        rc, out = fw.run_driver("C05", lines) if lines else (0, [])
        if rc != 0 or len(out) != len(lines):
            ctx.disagree("driver", "driver failed (dec) rc=%s" % rc, "\n".join(out[-5:]), None)
            return
        for k, (spec, h2, mode, xml) in enumerate(dec_jobs):
            m = json.loads(out[k])
            path = os.path.join(root, "m%d.nml.h5" % k)
            case = {"spec": spec, "h5": h2, "mode": mode}
            try:
                materialise(h2, xml, path)
            except Exception as e:  # noqa  (e.g. zero-row table): nothing to compare
                ctx.count("dec:not-materialisable")
                close_all()
                continue
            doc2, lerr = load_real(path)
            ctx.corr_evals += 1
            ctx.count("dec:" + mode)
            if m.get("err") == "unmodelled":
                ctx.count("dec:unmodelled")
            elif lerr:
                if m != {"err": lerr}:
                    ctx.disagree("dec", case, {"err": lerr}, m)
            else:
                ra = canon_doc(doc_to_json(doc2), True)
                rm = canon_doc(m["ok"], True) if "ok" in m else m
                if ra != rm:
                    ctx.disagree("dec", case, ra, rm)
            try:
                os.remove(path)
            except OSError:
                pass
    finally:
        close_all()
        shutil.rmtree(root, ignore_errors=True)


# ------------------------------------------------------------------------------------------------ corpus
def _base(special=None, **netkw):
    """two populations (one sized, one instance based) and the standard top-level components"""
    pops = [mk_pop("zpop", "iz", size=5, props=[["color", "1 0 0"]]),
            mk_pop("apop", "iaf", insts=[(0, F(0), F(0.1), F(-3)), (1, F(1.5), F(0.1), F(-3)), (2, F(3), F(0.1), F(-3))])]
    d = mk_doc("d1", [mk_net("net1", pops, **netkw)], STD_TOP)
    if special:
        d["special"] = special
    return d


def _zb(i):
    return ["bracket", "zpop", i]


def _as(i):
    return ["slash", "apop", i, "iaf"]


def _corpus():
    out = []
    # (i) electrical / continuous connection ids unrelated to the row index (repaired: parser `indexId >= 0`)
    out.append(_base("corpus:conn-ids", eprojs=[{"id": "ep1", "pre": "zpop", "post": "zpop", "insts": [], "instWs": [], "plain": [
        mk_conn(10, ["plain", 1], ["plain", 2], syn="gj"),
        mk_conn(15, ["plain", 3], ["plain", 2], preSeg=1, postFrac=F(1, 4), syn="gj")]}],
        cprojs=[{"id": "cp1", "pre": "zpop", "post": "apop", "plain": [], "instWs": [], "insts": [
            mk_conn(7, _zb(1), _as(2), syn="gs1", preComp="silent1"), mk_conn(3, _zb(0), _as(0), syn="gs1", preComp="silent1")]}]))
    # (iii) notes=None on document and network (repaired: attribute written only when set); notes set elsewhere
    d = _base("corpus:notes")
    out.append(d)
    d = _base("corpus:notes-set", notes="Network notes", temperature="32degC")
    d["notes"] = "Document notes"
    out.append(d)
    # (v) rows without a weight in tables that have a weight column (repaired: default weight 1)
    out.append(_base("corpus:unweighted-rows",
        projs=[{"id": "pr1", "pre": "zpop", "post": "apop", "syn": "syn1",
                "conns": [mk_conn(7, _zb(1), _as(2))],
                "connWDs": [mk_conn(3, _zb(4), _as(0), preSeg=2, weight=F(1, 4), delay=[jr(F(2)), "ms"]),
                            mk_conn(4, _zb(4), _as(1), weight=F(1), delay=[jr(F(1, 2)), "s"])]}],
        eprojs=[{"id": "ep1", "pre": "zpop", "post": "apop", "plain": [], "insts": [mk_conn(11, _zb(1), _as(2), syn="gj")],
                 "instWs": [mk_conn(5, _zb(2), _as(1), weight=F(1, 2), syn="gj"), mk_conn(6, _zb(2), _as(0), weight=F(1), syn="gj")]}],
        cprojs=[{"id": "cp1", "pre": "zpop", "post": "apop", "plain": [], "insts": [mk_conn(11, _zb(1), _as(2), syn="gs1", preComp="silent1")],
                 "instWs": [mk_conn(5, _zb(2), _as(1), weight=F(2), syn="gs1", preComp="silent1")]}],
        ilists=[{"id": "il1", "comp": "pg", "pop": "apop", "inputs": [mk_inp(4, _as(1))],
                 "inputWs": [mk_inp(2, _as(2), seg=3, frac=F(1, 4), weight=F(1, 2)), mk_inp(9, _as(0), weight=F(1))]}]))
    # KNOWN (ii): Input.fraction_along = 0.0 is written as 0.5 (C19's accessor defect)
    out.append(_base("corpus:frac0", ilists=[{"id": "il1", "comp": "pg", "pop": "zpop", "inputWs": [],
                                               "inputs": [mk_inp(3, _zb(1), seg=1, frac=F(0)), mk_inp(1, _zb(2), frac=F(1, 4))]}]))
    # KNOWN (iv): dangling pre_component of a continuous projection
    out.append(_base("corpus:dangling-pre", cprojs=[{"id": "cp1", "pre": "zpop", "post": "zpop", "insts": [], "instWs": [], "plain": [
        mk_conn(0, ["plain", 1], ["plain", 2], syn="gs1", preComp="undefinedComp"),
        mk_conn(1, ["plain", 2], ["plain", 3], syn="gs1", preComp="undefinedComp")]}]))
    # KNOWN: two synapses inside one electrical projection
    out.append(_base("corpus:mixed-syn", eprojs=[{"id": "ep1", "pre": "zpop", "post": "zpop", "insts": [], "instWs": [], "plain": [
        mk_conn(0, ["plain", 1], ["plain", 2], syn="gj"), mk_conn(1, ["plain", 2], ["plain", 3], syn="gj2")]}]))
    # both at once (was classified as a difference in the top-level components only)
    out.append(_base("corpus:mixed-and-dangling", cprojs=[{"id": "cp1", "pre": "zpop", "post": "zpop", "insts": [], "instWs": [], "plain": [
        mk_conn(0, ["plain", 1], ["plain", 2], syn="gs1", preComp="undefinedComp"),
        mk_conn(1, ["plain", 2], ["plain", 3], syn="gs2", preComp="undefinedComp")]}]))
    # KNOWN: weighted electrical connection between two sized populations
    out.append(_base("corpus:w-sized", eprojs=[{"id": "ep1", "pre": "zpop", "post": "zpop", "plain": [],
        "insts": [mk_conn(4, _zb(0), _zb(1), syn="gj")], "instWs": [mk_conn(9, _zb(1), _zb(2), weight=F(1, 2), syn="gj")]}]))
    # KNOWN: instance ids that are not the row index
    d = _base("corpus:inst-ids")
    for j, i in enumerate(d["nets"][0]["pops"][1]["insts"]):
        i[0] = 5 + 2 * j
    out.append(d)
    # KNOWN: population id containing "projection_"
    d = _base("corpus:name-sub")
    d["nets"][0]["pops"].append(mk_pop("projection_x", "iz", size=2))
    out.append(d)
    # KNOWN: children the format has no place for are dropped silently
    for kind in ("spaces", "regions", "cell_sets"):
        d = _base("corpus:" + kind)
        d["nets"][0]["extras"] = {"spaces": True, "regions": kind == "regions"} if kind != "cell_sets" else {"cell_sets": True}
        out.append(d)
    d = _base("corpus:popnotes")
    d["nets"][0]["pops"][0]["xnotes"] = "notes of a population"
    d["nets"][0]["pops"][1]["ijk"] = True
    d["nets"][0]["pops"][0]["props"] = [["a:b", "v1"]]
    out.append(d)
    out.append(_base("corpus:dest", ilists=[{"id": "il1", "comp": "pg", "pop": "zpop", "inputWs": [], "dest": "someOtherPort",
                                              "inputs": [mk_inp(3, _zb(1))]}]))
    # refusals
    d = _base("corpus:synconn")
    d["nets"][0]["nSyn"] = 1
    out.append(d)
    d = _base("corpus:explicit")
    d["nets"][0]["nExp"] = 1
    out.append(d)
    d = _base("corpus:twonets")
    d["nets"].append(mk_net("net2", [mk_pop("q", "iz", size=1)]))
    out.append(d)
    out.append(_base("corpus:empty-e", eprojs=[{"id": "ep1", "pre": "zpop", "post": "zpop", "plain": [], "insts": [], "instWs": []}]))
    out.append(_base("corpus:empty-proj", projs=[{"id": "pr1", "pre": "zpop", "post": "apop", "syn": "syn1", "conns": [], "connWDs": []}]))
    out.append(_base("corpus:usdelay", projs=[{"id": "pr1", "pre": "zpop", "post": "apop", "syn": "syn1", "conns": [],
                                                "connWDs": [mk_conn(0, _zb(0), _as(0), weight=F(1), delay=[jr(F(250)), "us"])]}]))
    # delays / weights / fractions that need the whole float32 mantissa (a "%g" in the loader would keep 6 digits)
    out.append(_base("corpus:full-mantissa", projs=[{"id": "pr1", "pre": "zpop", "post": "apop", "syn": "syn1", "conns": [],
        "connWDs": [mk_conn(0, _zb(0), _as(0), weight=F(0.123456789), delay=[jr(F(12.345678)), "ms"], preFrac=F(0.87654321)),
                    mk_conn(1, _zb(1), _as(1), weight=F(1234.5678), delay=[jr(F(10000.25)), "ms"]),
                    mk_conn(2, _zb(2), _as(2), weight=F(1), delay=[jr(F(3217, 1 << 20)), "s"])]}]))
    d = _base("corpus:no-network")
    d["nets"] = []
    out.append(d)
    # chemical projection without segment information but ids unrelated to the row index (ids are not stored)
    out.append(_base("corpus:chem-ids", projs=[{"id": "pr1", "pre": "apop", "post": "zpop", "syn": "syn2", "connWDs": [],
                                                 "conns": [mk_conn(40, _as(2), _zb(3)), mk_conn(7, _as(0), _zb(1)), mk_conn(8, _as(1), _zb(1))]}]))
    return out


CORPUS = _corpus()


def run_fresh(ctx):
    """a new interpreter that imports only `neuroml` and `neuroml.writers` (not the loaders) writes a projection"""
    import subprocess
    import sys
    d = tempfile.mkdtemp(prefix="verif_c05n_")
    try:
        code = ("import warnings; warnings.simplefilter('ignore')\n"
                "import neuroml, neuroml.writers as w\n"
                "d = neuroml.NeuroMLDocument(id='d'); n = neuroml.Network(id='n'); d.networks.append(n)\n"
                "n.populations.append(neuroml.Population(id='p', component='c', size=2))\n"
                "pr = neuroml.Projection(id='pr', presynaptic_population='p', postsynaptic_population='p', synapse='s')\n"
                "n.projections.append(pr)\n"
                "pr.connections.append(neuroml.Connection(id=0, pre_cell_id='../p[0]', post_cell_id='../p[1]'))\n"
                "try:\n    w.NeuroMLHdf5Writer.write(d, %r)\n    print('RESULT ok')\n"
                "except Exception as e:\n    print('RESULT ' + type(e).__name__)\n" % os.path.join(d, "x.nml.h5"))
        env = dict(os.environ, PYTHONPATH=fw.REPO, PYTHONDONTWRITEBYTECODE="1")
        pr = subprocess.run([sys.executable, "-c", code], env=env, stdout=subprocess.PIPE, stderr=subprocess.STDOUT,
                            text=True, timeout=300)
        res = [l for l in pr.stdout.split("\n") if l.startswith("RESULT ")]
        res = res[-1][len("RESULT "):] if res else "crash"
        ctx.count("fresh-interpreter:" + res)
        ctx.seen(["fresh-interpreter"], nontrivial=False)
        if res != "ok":
            ctx.fail("C05:supported-input-refused:write:%s:fresh-interpreter" % res,
                     "in an interpreter that imported only neuroml and neuroml.writers the HDF5 writer refuses a document "
                     "with one chemical projection (%s)" % res, {"fresh": True, "code": code})
    finally:
        shutil.rmtree(d, ignore_errors=True)


def run(ctx):
    run_fresh(ctx)
    run_fate(ctx)
    run_f32(ctx)
    n = ctx.n(300, 2400) * min(ctx.search_mult, 3)      # a broken obligation triples the search (failing inputs are dense)
    specs = [json.loads(json.dumps(c)) for c in CORPUS]
    big = ctx.tier == "thorough"
    for i in range(n):
        specs.append(gen_special(ctx.rng) if i % 4 == 3 else
                     (gen_optdoc(ctx.rng, big=big) if i % 4 == 1 else gen_doc(ctx.rng, big=big)))
    # batches keep the driver input and the temporary directory small
    for i in range(0, len(specs), 150):
        run_cases(ctx, specs[i:i + 150])


def replay(ctx, payload):
    case = payload.get("case", payload)
    spec = case["spec"] if "spec" in case else case
    if not isinstance(case, dict):
        case = {}
    import contextlib
    with contextlib.redirect_stdout(io.StringIO()), contextlib.redirect_stderr(io.StringIO()):   # the library prints
        if case.get("fresh"):
            run_fresh(ctx)
        elif "fate" in case:
            run_fate(ctx)
            ctx.failures = [f for f in ctx.failures if f["case"].get("fate") == case["fate"]]
            ctx.corr_disagreements = [d for d in ctx.corr_disagreements if d["case"].get("fate") == case["fate"]]
        else:
            run_cases(ctx, [spec])
    known = fw.known_findings("C05")
    viol = [f for f in ctx.failures if f["key"] not in known]
    return {"fails": bool(viol or ctx.corr_disagreements), "failures": viol,
            "known_findings": sorted({f["key"] for f in ctx.failures if f["key"] in known}),
            "disagreements": ctx.corr_disagreements[:3]}
