"""C06 — include resolution merges everything once and always terminates.

Tie: hand model (lean/NmlVerif/Model/Include.lean) + correspondence on generated include graphs materialised on
disk; the same graphs are evaluated against a harness-side oracle (reachability union) on the real loader.
"""
import json
import os
import shutil
import sys
import tempfile

import fw

LEAN_PROPS = ["NmlVerif.Props.C06"]
LEVEL = "proof"
RULE = ("random include graphs (1-7 files, nested directories, XML/HDF5/bad-extension/missing targets, self loops, "
        "2/3-cycles, diamonds, cwd-relative and file-relative hrefs, colliding ids) x {file entry, string entry} x "
        "{2 working directories}; a case is non-trivial when the entry has >=1 include that resolves; distinct = "
        "distinct canonical (graph, cwd, entry) descriptions")
TRUST = [
    "hand-written model of loaders._read_neuroml2/read_neuroml2_file/read_neuroml2_string and utils.add_all_to_document, tied by correspondence only",
    "os.path.abspath/normpath modelled on component lists without symlinks; lxml/PyTables parsing of each single file not modelled",
]
ASSUMPTIONS = [
    "theorems c06_union*/c06_terminates* assume H5Leaf (an included HDF5 file has no includes of its own); HDF5 files with includes are covered by correspondence only, cycles through an HDF5 file are a known finding",
    "files do not change while being read; no symlinks",
]

LISTS = ["izhikevich_cells", "iaf_cells", "pulse_generators", "exp_one_synapses"]
DIRS = [["r"], ["r", "sub"], ["r", "sub", "deep"], ["r", "other"], ["elsewhere"]]


def _mk(list_name, cid, payload):
    import neuroml as n
    if list_name == "izhikevich_cells":
        return n.IzhikevichCell(id=cid, v0="-70mV", thresh="30mV", a="0.02", b="0.2", c="-65", d="6", notes=payload)
    if list_name == "iaf_cells":
        return n.IafCell(id=cid, leak_reversal="-50mV", thresh="-55mV", reset="-70mV", C="0.2nF",
                         leak_conductance="0.01uS", notes=payload)
    if list_name == "pulse_generators":
        return n.PulseGenerator(id=cid, delay="0ms", duration="1ms", amplitude="1nA", notes=payload)
    return n.ExpOneSynapse(id=cid, gbase="1nS", erev="0mV", tau_decay="1ms", notes=payload)


def relpath(from_dir, to_path):
    """components of a relative href from from_dir to to_path (both component lists)"""
    i = 0
    while i < len(from_dir) and i < len(to_path) - 1 and from_dir[i] == to_path[i]:
        i += 1
    return [".."] * (len(from_dir) - i) + to_path[i:]


def gen_case(rng, big=False):
    nfiles = rng.randint(1, 9 if big else 6)
    files = []
    names = []
    for i in range(nfiles):
        d = rng.choice(DIRS[:4])
        r = rng.random()
        kind = "xml" if r < 0.78 else ("h5" if r < 0.93 else "other")
        ext = {"xml": rng.choice([".nml", ".nml", ".xml"]), "h5": ".nml.h5", "other": ".txt"}[kind]
        if i == 0:
            kind, ext = ("xml", ".nml") if rng.random() < 0.9 else ("h5", ".nml.h5")
        path = d + ["f%d%s" % (i, ext)]
        names.append(path)
        files.append({"path": path, "kind": kind, "hrefs": [], "comps": []})
    ids = ["c%d" % k for k in range(rng.randint(2, 8))]
    for i, f in enumerate(files):
        for _ in range(rng.randint(0, 4)):
            f["comps"].append([rng.choice(LISTS[: rng.randint(1, 4)]), rng.choice(ids), "from_f%d" % i])
        if rng.random() < 0.15 and f["comps"]:
            f["comps"].append(list(f["comps"][0][:2]) + ["dup_in_f%d" % i])   # duplicate id inside one file
        nh = rng.choice([0, 1, 1, 2, 2, 3])
        if f["kind"] == "h5" and rng.random() < 0.7:
            nh = 0
        if f["kind"] == "other":
            nh = 0
        for _ in range(nh):
            r = rng.random()
            if r < 0.08:
                tgt = f["path"]                                   # self loop
            elif r < 0.16:
                tgt = f["path"][:-1] + ["missing%d.nml" % rng.randint(0, 2)]
            else:
                tgt = rng.choice(names)
            style = rng.random()
            base = f["path"][:-1]
            if style < 0.6:
                href = relpath(base, tgt)
            elif style < 0.75:
                href = ["."] + relpath(base, tgt)
            elif style < 0.9:
                href = relpath(["r"], tgt)                         # relative to directory r (resolves only from there)
            else:
                href = [".."] + [base[-1]] + relpath(base, tgt) if len(base) > 1 else relpath(base, tgt)
            f["hrefs"].append(href)
    cwds = [rng.choice(DIRS), ["elsewhere"]]
    entry = "string" if (files[0]["kind"] == "xml" and rng.random() < 0.3) else "file"
    base_given = rng.random() < 0.8
    return {"fs": files, "cwds": cwds, "entry": entry, "base_given": base_given}


# ---------------------------------------------------------------- real library
def materialise(case, root):
    import neuroml as n
    import neuroml.writers as w
    for d in DIRS:
        os.makedirs(os.path.join(root, *d), exist_ok=True)
    for f in case["fs"]:
        doc = n.NeuroMLDocument(id="doc_" + f["path"][-1].split(".")[0])
        for h in f["hrefs"]:
            doc.includes.append(n.IncludeType(href="/".join(h)))
        for (l, cid, pay) in f["comps"]:
            getattr(doc, l).append(_mk(l, cid, pay))
        p = os.path.join(root, *f["path"])
        if f["kind"] == "h5":
            w.NeuroMLHdf5Writer.write(doc, p)
        else:
            w.NeuroMLWriter.write(doc, p)


def dump_doc(doc):
    out = []
    for l in sorted(LISTS):
        for c in getattr(doc, l):
            out.append([l, c.id, c.notes])
    return out


def run_real(case, root, cwd):
    import neuroml.loaders as L
    old = os.getcwd()
    os.chdir(os.path.join(root, *cwd))
    lim = sys.getrecursionlimit()
    sys.setrecursionlimit(400)
    try:
        f0 = case["fs"][0]
        p = os.path.join(root, *f0["path"])
        try:
            if case["entry"] == "file":
                doc = L.read_neuroml2_file(p, include_includes=True)
            else:
                with open(p) as fh:
                    text = fh.read()
                base = os.path.dirname(p) if case["base_given"] else None
                doc = L.read_neuroml2_string(text, include_includes=True, base_path=base)
            return {"res": "ok", "doc": dump_doc(doc), "includes_left": len(doc.includes)}
        except RecursionError:
            return {"res": "outOfFuel"}
        except SystemExit:
            return {"res": "missing"}
        except Exception as e:  # noqa
            s = str(e)
            if "maximum recursion depth" in s:     # RecursionError re-wrapped by NeuroMLLoader as a plain Exception
                return {"res": "outOfFuel"}
            if "Unrecognised extension" in s:
                return {"res": "badExt"}
            if isinstance(e, (OSError, IOError)) or "does not exist" in s or "No such file" in s:
                return {"res": "missing"}
            return {"res": "exc:" + type(e).__name__ + ":" + s[:80]}
    finally:
        sys.setrecursionlimit(lim)
        os.chdir(old)
        try:
            import tables
            tables.file._open_files.close_all()
        except Exception:
            pass


# ---------------------------------------------------------------- model (Lean driver)
def model_line(case, cwd):
    f0 = case["fs"][0]
    fuel = len(case["fs"]) + sum(len(f["hrefs"]) for f in case["fs"]) + 3
    j = {"fs": case["fs"], "cwd": cwd, "fuel": fuel}
    if case["entry"] == "file":
        j["entry_file"] = f0["path"]
    else:
        j["base"] = f0["path"][:-1] if case["base_given"] else cwd
        j["hrefs"] = f0["hrefs"]
        j["comps"] = f0["comps"]
    return json.dumps(j)


def canon_model(r):
    if r.get("res") != "ok":
        return {"res": r.get("res", "error:" + str(r))}
    doc = sorted(r["doc"], key=lambda c: c[0])  # stable: by list name, in-list order kept
    return {"res": "ok", "doc": doc}


# ---------------------------------------------------------------- oracle (independent of the Lean model)
def norm(parts):
    acc = []
    for c in parts:
        if c in (".", ""):
            continue
        if c == "..":
            acc = acc[:-1]
        else:
            acc.append(c)
    return acc


def oracle(case, cwd):
    """expected outcome by the property's own words: union over reachable files, once per (list,id)"""
    fsd = {tuple(f["path"]): f for f in case["fs"]}

    def resolve(base, href):
        a = tuple(norm(cwd + href))
        if a in fsd:
            return a
        return tuple(norm(base + href))
    f0 = case["fs"][0]
    start_base = f0["path"][:-1] if (case["entry"] == "file" or case["base_given"]) else cwd
    seen, order, bad = set(), [], None
    h5_on_cycle = False
    stack = [(tuple(f0["path"]) if case["entry"] == "file" else None, start_base, f0)]
    if case["entry"] == "file":
        seen.add(tuple(f0["path"]))
    keys = set((c[0], c[1]) for c in f0["comps"])
    todo = [(start_base, f0)]
    while todo:
        base, f = todo.pop()
        for h in f["hrefs"]:
            t = resolve(base, h)
            if t in seen:
                continue
            seen.add(t)
            if t not in fsd:
                bad = bad or "error"
                continue
            g = fsd[t]
            if g["kind"] == "other":
                bad = bad or "error"
                continue
            keys |= set((c[0], c[1]) for c in g["comps"])
            todo.append((list(t[:-1]), g))
    # does an include cycle pass through an HDF5 file (reachable)?
    reach = [fsd[t] for t in seen if t in fsd] + [f0]
    for g in reach:
        if g["kind"] != "h5":
            continue
        # can g reach itself?
        s2, td = set(), [(g["path"][:-1], g)]
        while td:
            b, x = td.pop()
            for h in x["hrefs"]:
                t = resolve(b, h)
                if t == tuple(g["path"]):
                    h5_on_cycle = True
                if t in s2 or t not in fsd:
                    continue
                s2.add(t)
                td.append((list(t[:-1]), fsd[t]))
    return {"keys": keys, "bad": bad, "h5_on_cycle": h5_on_cycle, "n_reach": len(seen)}


def resolves_from(case, cwd):
    fsd = {tuple(f["path"]) for f in case["fs"]}
    return any(tuple(norm(cwd + h)) in fsd for f in case["fs"] for h in f["hrefs"])


def check_case(ctx, case, root, model_out):
    """model_out: list of canonical model results, one per cwd"""
    results = []
    for ci, cwd in enumerate(case["cwds"]):
        real = run_real(case, root, cwd)
        results.append(real)
        canon = {"fs": case["fs"], "cwd": cwd, "entry": case["entry"], "base": case["base_given"]}
        orc = oracle(case, cwd)
        ctx.seen(canon, nontrivial=orc["n_reach"] >= 2)
        ctx.count("res:" + real["res"].split(":")[0])
        ctx.count("entry:" + case["entry"])
        # --- correspondence with the Lean model
        ctx.corr_evals += 1
        m = model_out[ci]
        r_c = {"res": real["res"]} if real["res"] != "ok" else {"res": "ok", "doc": real["doc"]}
        if m != r_c:
            # error kinds: the real code may hit a missing file and a bad extension in either order only through the
            # same path as the model, so they must agree exactly
            ctx.disagree("include-model", {"case": case, "cwd": cwd}, r_c, m)
        # --- full-property oracle on the real code
        if real["res"] == "outOfFuel":
            key = "C06:cycle-through-hdf5" if orc["h5_on_cycle"] else "C06:nontermination"
            ctx.fail(key, "include resolution does not terminate (RecursionError)", {"case": case, "cwd": cwd})
            continue
        if orc["h5_on_cycle"]:
            continue
        if orc["bad"]:
            if real["res"] == "ok":
                ctx.fail("C06:error-swallowed", "a missing / unreadable include was silently dropped",
                         {"case": case, "cwd": cwd, "real": real})
            continue
        if real["res"] != "ok":
            ctx.fail("C06:unexpected-error", "reading a well-formed include graph failed: %s" % real["res"],
                     {"case": case, "cwd": cwd, "real": real})
            continue
        got = [(c[0], c[1]) for c in real["doc"]]
        entry_keys = [(c[0], c[1]) for c in case["fs"][0]["comps"]]
        if set(got) != orc["keys"]:
            ctx.fail("C06:union-mismatch", "result is not the union over reachable files",
                     {"case": case, "cwd": cwd, "missing": sorted(orc["keys"] - set(got)),
                      "extra": sorted(set(got) - orc["keys"])})
        elif len(set(entry_keys)) == len(entry_keys) and len(got) != len(set(got)):
            ctx.fail("C06:duplicate-id", "a component id appears twice in one list", {"case": case, "cwd": cwd})
        elif real["includes_left"]:
            ctx.fail("C06:includes-left", "include entries left in the result", {"case": case, "cwd": cwd})
    # cwd independence
    if (not resolves_from(case, case["cwds"][0]) and not resolves_from(case, case["cwds"][1])
            and (case["entry"] == "file" or case["base_given"])):
        ctx.count("cwd-pair-compared")
        if results[0] != results[1]:
            ctx.fail("C06:cwd-dependence", "result depends on the working directory",
                     {"case": case, "results": results})


CORPUS = [
    # a.nml <-> b.nml two-cycle (was: unbounded recursion before the fix)
    {"fs": [{"path": ["r", "f0.nml"], "kind": "xml", "hrefs": [["f1.nml"]], "comps": [["izhikevich_cells", "c0", "from_f0"]]},
            {"path": ["r", "f1.nml"], "kind": "xml", "hrefs": [["f0.nml"]], "comps": [["izhikevich_cells", "c1", "from_f1"]]}],
     "cwds": [["r"], ["elsewhere"]], "entry": "file", "base_given": True},
    # self loop
    {"fs": [{"path": ["r", "f0.nml"], "kind": "xml", "hrefs": [["f0.nml"], [".", "f0.nml"]], "comps": [["iaf_cells", "c0", "from_f0"]]}],
     "cwds": [["r", "sub"], ["elsewhere"]], "entry": "file", "base_given": True},
    # diamond with colliding ids, nested dirs, string entry
    {"fs": [{"path": ["r", "f0.nml"], "kind": "xml", "hrefs": [["sub", "f1.nml"], ["other", "f2.nml"]], "comps": [["izhikevich_cells", "c0", "from_f0"]]},
            {"path": ["r", "sub", "f1.nml"], "kind": "xml", "hrefs": [["deep", "f3.nml"]], "comps": [["izhikevich_cells", "c0", "from_f1"], ["iaf_cells", "c1", "from_f1"]]},
            {"path": ["r", "other", "f2.nml"], "kind": "xml", "hrefs": [["..", "sub", "deep", "f3.nml"]], "comps": [["iaf_cells", "c1", "from_f2"]]},
            {"path": ["r", "sub", "deep", "f3.nml"], "kind": "xml", "hrefs": [], "comps": [["pulse_generators", "c2", "from_f3"]]}],
     "cwds": [["r", "other"], ["elsewhere"]], "entry": "string", "base_given": True},
    # KNOWN FINDING: cycle through an HDF5 file
    {"fs": [{"path": ["r", "f0.nml"], "kind": "xml", "hrefs": [["f1.nml.h5"]], "comps": []},
            {"path": ["r", "f1.nml.h5"], "kind": "h5", "hrefs": [["f0.nml"]], "comps": [["izhikevich_cells", "c0", "from_f1"]]}],
     "cwds": [["r"], ["elsewhere"]], "entry": "file", "base_given": True},
]


def run_cases(ctx, cases):
    lines = []
    for c in cases:
        for cwd in c["cwds"]:
            lines.append(model_line(c, cwd))
    rc, out = fw.run_driver("C06", lines)
    if rc != 0 or len(out) != len(lines):
        ctx.disagree("driver", "driver failed rc=%s" % rc, "\n".join(out[-5:]), None)
        mouts = [{"res": "driver-error"}] * len(lines)
    else:
        mouts = [canon_model(json.loads(l)) for l in out]
    k = 0
    for c in cases:
        root = tempfile.mkdtemp(prefix="verif_c06_")
        try:
            materialise(c, root)
            check_case(ctx, c, root, mouts[k:k + len(c["cwds"])])
        finally:
            shutil.rmtree(root, ignore_errors=True)
        k += len(c["cwds"])
        ctx.sample({"files": [("/".join(f["path"]), ["/".join(h) for h in f["hrefs"]]) for f in c["fs"]],
                    "entry": c["entry"], "cwds": ["/".join(x) for x in c["cwds"]]})


def run(ctx):
    n = ctx.n(150, 1500) * ctx.search_mult
    cases = [json.loads(json.dumps(c)) for c in CORPUS]
    for i in range(n):
        cases.append(gen_case(ctx.rng, big=(ctx.tier == "thorough")))
    run_cases(ctx, cases)


def replay(ctx, payload):
    case = payload["case"]["case"] if "case" in payload.get("case", {}) else payload["case"]
    run_cases(ctx, [case])
    return {"fails": bool(ctx.failures or ctx.corr_disagreements), "failures": ctx.failures,
            "disagreements": ctx.corr_disagreements}
