"""C06 — include resolution merges everything once and always terminates.

Tie: hand model (lean/NmlVerif/Model/Include.lean) + correspondence on generated include graphs materialised on
disk: result document (every member list, in order, id-less elements included) and the log of files parsed, real
loader vs `Drivers/C06.lean`.  The same graphs are evaluated against a harness-side oracle on the real loader:
reachability, every reachable file parsed exactly once, occurrence counts of the elements that have no id, id
sets, duplicates, include entries left, errors, working-directory independence.
"""
import collections
import inspect
import json
import os
import shutil
import sys
import tempfile

import fw

LEAN_PROPS = ["NmlVerif.Props.C06", "NmlVerif.Props.C06Tree", "NmlVerif.Props.C06Marks"]
LEVEL = "proof"
RULE = ("include graphs: random (1-9 files) and templates (k-way diamonds over a shared file, ladders in which every "
        "level includes all lower ones, one file including another several times, an HDF5 file and its includer sharing "
        "an include, grandchildren including the entry) over nested directories; targets XML / HDF5 (with and without "
        "includes of their own) / bad extension / missing; hrefs spelled plain, ./x, ../dir/x, sibling/../x, absolute, "
        "relative to another directory; top-level elements with ids (colliding across files and inside one file), "
        "without an id attribute (<property>, <ComponentType>; unique and identical across files) and with the id "
        "omitted; x {read_neuroml2_file (entry path absolute / relative / dotted), read_neuroml2_string with and "
        "without base_path, _read_neuroml2 directly, include_includes=False} x {2 working directories}; a case is "
        "non-trivial when >=2 files are reachable; distinct = distinct canonical (graph, cwd, entry) descriptions")
TRUST = [
    "hand-written model of loaders._read_neuroml2/read_neuroml2_file/read_neuroml2_string, NeuroMLHdf5Loader.load + NeuroMLHdf5Parser.parse (include handling only) and utils.add_all_to_document, tied by correspondence only",
    "os.path.abspath/normpath/exists modelled lexically on component lists (no symlinks; hrefs that walk through a non-existent directory are not generated); lxml/PyTables parsing of each single file not modelled",
    "the log of files parsed is observed by wrapping NeuroMLLoader.load / NeuroMLHdf5Loader.load in the harness",
]
ASSUMPTIONS = [
    "the un-repaired code (HDF5 parser keeps an include list of its own, before 738393e): theorems take H5Leaf (an included HDF5 file has no includes of its own); without it they fail (witness theorems, known findings C06:cycle-through-hdf5, C06:twice-through-hdf5). With fixes/C06-hdf5-shared-include-list.patch applied (today's /repo, commit 738393e) the same theorems hold without H5Leaf (sh = true); the harness detects which variant the tree under test is and uses the matching model",
    "files do not change while being read; no symlinks (file identity = os.path.abspath)",
    "a member list never mixes classes with and without an id attribute (true of everything the parser builds)",
]

ID_LISTS = ["izhikevich_cells", "iaf_cells", "pulse_generators", "exp_one_synapses"]
NOID_LISTS = ["properties", "ComponentType"]
ALL_LISTS = sorted(ID_LISTS + NOID_LISTS)
DIRS = [["r"], ["r", "sub"], ["r", "sub", "deep"], ["r", "other"], ["elsewhere"]]
DIRSET = {()} | {tuple(d[:i]) for d in DIRS for i in range(1, len(d) + 1)}
SHARED_TAG = "common"       # an id-less payload that several files carry verbatim


def _mk(list_name, kind, cid, payload):
    import neuroml as n
    if list_name == "properties":
        return n.Property(tag=payload, value="v")
    if list_name == "ComponentType":
        return n.ComponentType(name=payload)
    cid = cid if kind == "id" else None
    if list_name == "izhikevich_cells":
        return n.IzhikevichCell(id=cid, v0="-70mV", thresh="30mV", a="0.02", b="0.2", c="-65", d="6", notes=payload)
    if list_name == "iaf_cells":
        return n.IafCell(id=cid, leak_reversal="-50mV", thresh="-55mV", reset="-70mV", C="0.2nF",
                         leak_conductance="0.01uS", notes=payload)
    if list_name == "pulse_generators":
        return n.PulseGenerator(id=cid, delay="0ms", duration="1ms", amplitude="1nA", notes=payload)
    return n.ExpOneSynapse(id=cid, gbase="1nS", erev="0mV", tau_decay="1ms", notes=payload)


# ---------------------------------------------------------------- lexical path helpers (harness side)
def norm(parts):
    acc = []
    for c in parts:
        if c in (".", ""):
            continue
        if c == "..":
            acc = acc[:-1]
        else:
            acc.append(c)
    return acc


def is_abs(href):
    return bool(href) and href[0] == ""


def join(base, href):
    return list(href) if is_abs(href) else list(base) + list(href)


def walk_ok(base, href):
    """would the operating system find its way along base/href (every intermediate directory exists, never above the root)"""
    cur = [] if is_abs(href) else list(base)
    for c in href[:-1]:
        if c in (".", ""):
            continue
        if c == "..":
            if not cur:
                return False
            cur.pop()
        else:
            cur.append(c)
            if tuple(cur) not in DIRSET:
                return False
    return True


def relpath(from_dir, to_path):
    """components of a relative href from from_dir to to_path (both component lists)"""
    i = 0
    while i < len(from_dir) and i < len(to_path) - 1 and from_dir[i] == to_path[i]:
        i += 1
    return [".."] * (len(from_dir) - i) + to_path[i:]


def spell(rng, base, tgt, style=None):
    rel = relpath(base, tgt)
    s = rng.random() if style is None else style
    if s < 0.47:
        return rel
    if s < 0.61:
        return ["."] + rel
    if s < 0.67:
        return relpath(["r"], tgt)                       # relative to directory r (resolves only from there)
    if s < 0.77:
        return [".."] + [base[-1]] + rel if base else rel
    if s < 0.87:
        kids = [d[-1] for d in DIRS if d[:-1] == list(base)]
        return [rng.choice(kids), ".."] + rel if kids else ["."] + rel
    return [""] + list(tgt)                              # absolute


def fix_hrefs(case):
    """the model decides `os.path.exists` lexically; replace every spelling for which that is not what the operating
    system would say (a lexically existing target reached through a directory that does not exist)"""
    files = {tuple(f["path"]) for f in case["fs"]}
    for f in case["fs"]:
        base = f["path"][:-1]
        out = []
        for h in f["hrefs"]:
            bases = [base] + case["cwds"]
            bad = [b for b in bases if tuple(norm(join(b, h))) in files and not walk_ok(b, h)]
            if bad:
                tgt = norm(join(base, h))
                h = relpath(base, tgt)
                if [b for b in bases if tuple(norm(join(b, h))) in files and not walk_ok(b, h)]:
                    continue
            out.append(h)
        f["hrefs"] = out
    return case


# ---------------------------------------------------------------- generator
def _comps(rng, i, ids, rich):
    out = []
    for _ in range(rng.randint(0, 4)):
        kind = "none" if rng.random() < 0.08 else "id"
        out.append([rng.choice(ID_LISTS[: rng.randint(1, 4)]), kind, rng.choice(ids) if kind == "id" else "", "from_f%d" % i])
    if rng.random() < 0.15 and out:
        out.append(list(out[0][:3]) + ["dup_in_f%d" % i])            # duplicate id inside one file
    if rng.random() < (0.85 if rich else 0.4):
        for k in range(rng.randint(1, 3)):
            pay = SHARED_TAG if rng.random() < 0.2 else "p%d_%d" % (i, k)
            out.append([rng.choice(NOID_LISTS), "noid", "", pay])
        rng.shuffle(out)
    return out


def _new_file(rng, i, kind=None, entry=False, others=()):
    d = rng.choice(DIRS[:4])
    if kind is None:
        r = rng.random()
        kind = "xml" if r < 0.78 else ("h5" if r < 0.93 else "other")
    if entry:
        kind = "xml" if rng.random() < 0.86 else "h5"
    ext = {"xml": rng.choice([".nml", ".nml", ".xml"]), "h5": ".nml.h5", "other": ".txt"}[kind]
    if entry and kind == "xml":
        ext = ".nml"
    name = "f%d%s" % (i, ext)
    # now and then the same file name in another directory (file identity is the whole path, not the name)
    twins = [o["path"] for o in others if o["kind"] == kind and o["path"][-1].endswith(ext) and o["path"][:-1] != d]
    if twins and rng.random() < 0.25 and not any(o["path"] == d + [twins[0][-1]] for o in others):
        name = twins[0][-1]
    return {"path": d + [name], "kind": kind, "hrefs": [], "comps": []}


def gen_random(rng, big):
    nfiles = rng.randint(1, 9 if big else 6)
    files = []
    for i in range(nfiles):
        files.append(_new_file(rng, i, entry=(i == 0), others=files))
    names = [f["path"] for f in files]
    for i, f in enumerate(files):
        nh = rng.choice([0, 1, 1, 2, 2, 3])
        if f["kind"] == "h5" and rng.random() < 0.6:
            nh = 0
        if f["kind"] == "other":
            nh = 0
        for _ in range(nh):
            r = rng.random()
            if r < 0.08:
                tgt = f["path"]                                   # self loop
            elif r < 0.13:
                tgt = f["path"][:-1] + ["missing%d.nml" % rng.randint(0, 2)]
            else:
                tgt = rng.choice(names)
            f["hrefs"].append(spell(rng, f["path"][:-1], tgt))
    return files


def gen_template(rng, big):
    t = rng.random()
    files = [_new_file(rng, 0, entry=True)]

    def add(kind=None):
        r = rng.random()
        k = kind or ("xml" if r < 0.86 else "h5")
        files.append(_new_file(rng, len(files), kind=k, others=files))
        return files[-1]

    def link(a, b, n=1):
        for _ in range(n):
            a["hrefs"].append(spell(rng, a["path"][:-1], b["path"]))
    top = files[0]
    if t < 0.34:                                   # k-way diamond over a shared file
        shared = add()
        for _ in range(rng.randint(2, 4)):
            br = add()
            link(top, br)
            link(br, shared, n=rng.choice([1, 1, 2]))
        if rng.random() < 0.3:
            link(shared, top)                      # the grandchild includes the entry file
        if rng.random() < 0.3:
            link(shared, add())
        if rng.random() < 0.3:
            link(top, shared)
        files[1], files[-1] = files[-1], files[1]  # the shared file need not be listed second
    elif t < 0.62:                                 # ladder: every level includes lower ones
        n = rng.randint(3, 7 if big else 5)
        lv = [top] + [add() for _ in range(n - 1)]
        for i in range(n - 1):
            link(lv[i], lv[i + 1])
            for j in range(i + 2, n):
                if rng.random() < 0.7:
                    link(lv[i], lv[j])
            rng.shuffle(lv[i]["hrefs"])
        if rng.random() < 0.25:
            link(lv[-1], lv[rng.randint(0, n - 2)])    # close a cycle
    elif t < 0.80:                                 # one file includes another several times, variously spelled
        x = add()
        link(top, x, n=rng.randint(2, 4))
        if rng.random() < 0.5:
            top["hrefs"].append(list(top["hrefs"][0]))           # the very same spelling twice
        if rng.random() < 0.5:
            y = add()
            link(x, y, n=2)
            link(top, y)
        if rng.random() < 0.3:
            link(x, top)
    elif t < 0.88:                                 # a plain href that names one file from the working directory and
        a = add("xml")                             # another one from the including file's directory
        x = add("xml")
        x["path"] = a["path"][:-1] + ["sh%d.nml" % len(files)]
        link(top, a)
        a["hrefs"].append([x["path"][-1]])
        others = [d for d in DIRS[:4] if d != a["path"][:-1]]
        shadow = add("xml")
        shadow["path"] = rng.choice(others) + [x["path"][-1]]
        files[0]["_cwd"] = shadow["path"][:-1]
        if rng.random() < 0.5:
            link(top, shadow)
    else:                                          # an HDF5 file and its includer share an include
        h = add("h5")
        s = add("xml")
        link(h, s)
        order = [h, s] if rng.random() < 0.5 else [s, h]
        for o in order:
            link(top, o)
        if rng.random() < 0.4:
            link(s, add())
        if rng.random() < 0.12:
            link(s, top)                           # cycle through the HDF5 file (known finding today)
    return files


def gen_case(rng, big=False):
    while True:
        files = gen_template(rng, big) if rng.random() < 0.5 else gen_random(rng, big)
        if len({tuple(f["path"]) for f in files}) == len(files):
            break
    ids = ["c%d" % k for k in range(rng.randint(2, 8))]
    rich = rng.random() < 0.7
    for i, f in enumerate(files):
        f["comps"] = _comps(rng, i, ids, rich)
    # the entry file is files[0]; make sure it still is after template shuffles
    cwds = [files[0].pop("_cwd", None) or rng.choice(DIRS), ["elsewhere"]]
    r = rng.random()
    entry = "file"
    if files[0]["kind"] == "xml" and r < 0.24:
        entry = "string"
    elif r < 0.30:
        entry = "internal"
    elif r < 0.36:
        entry = "noinc"
    case = {"fs": files, "cwds": cwds, "entry": entry, "base_given": rng.random() < 0.8,
            "spelling": rng.choice(["abs", "abs", "rel", "dotted"]),
            # get_summary() reads with optimized=True: an HDF5 entry file then goes through the parser's other branch
            "optimized": files[0]["kind"] == "h5" and entry in ("file", "noinc") and rng.random() < 0.5}
    return fix_hrefs(case)


# ---------------------------------------------------------------- real library
def href_text(h, root):
    if is_abs(h):
        return root + "/" + "/".join(h[1:])
    return "/".join(h)


def materialise(case, root):
    import neuroml as n
    import neuroml.writers as w
    for d in DIRS:
        os.makedirs(os.path.join(root, *d), exist_ok=True)
    for f in case["fs"]:
        doc = n.NeuroMLDocument(id="doc_" + f["path"][-1].split(".")[0])
        for h in f["hrefs"]:
            doc.includes.append(n.IncludeType(href=href_text(h, root)))
        for (l, kind, cid, pay) in f["comps"]:
            getattr(doc, l).append(_mk(l, kind, cid, pay))
        p = os.path.join(root, *f["path"])
        if case.get("optimized") and f is case["fs"][0]:
            net = n.Network(id="net")               # the optimized HDF5 reader needs a network to be present
            net.populations.append(n.Population(id="pop", component="c0", size=1))
            doc.networks.append(net)
        if f["kind"] == "h5":
            w.NeuroMLHdf5Writer.write(doc, p)
        else:
            w.NeuroMLWriter.write(doc, p)


def dump_doc(doc):
    out = []
    for l in ALL_LISTS:
        for c in getattr(doc, l):
            if l == "properties":
                out.append([l, "noid", "", c.tag])
            elif l == "ComponentType":
                out.append([l, "noid", "", c.name])
            elif c.id is None:
                out.append([l, "none", "", c.notes])
            else:
                out.append([l, "id", c.id, c.notes])
    return out


class ReadLog:
    """records every file handed to the two file parsers while a read is in progress"""

    def __init__(self, root):
        self.root, self.log, self.saved = root, [], []

    def _wrap(self, cls):
        orig = cls.__dict__["load"]
        log, root = self.log, self.root

        def load(c, src, *a, **k):
            try:
                log.append(norm(os.path.relpath(os.path.abspath(src), root).split("/")))
            except Exception:
                log.append(["?"])
            return orig.__func__(c, src, *a, **k)
        self.saved.append((cls, orig))
        cls.load = classmethod(load)

    def __enter__(self):
        import neuroml.loaders as L
        self._wrap(L.NeuroMLLoader)
        self._wrap(L.NeuroMLHdf5Loader)
        return self

    def __exit__(self, *a):
        for cls, orig in self.saved:
            cls.load = orig


def entry_text(case, root, cwd):
    f0 = case["fs"][0]
    p = os.path.join(root, *f0["path"])
    sp = case.get("spelling", "abs")
    if sp == "rel":
        return os.path.relpath(p, os.path.join(root, *cwd))
    if sp == "dotted":
        d = f0["path"][:-1]
        return os.path.join(root, *d[:-1], ".", d[-1], "..", d[-1], f0["path"][-1])
    return p


def run_real(case, root, cwd):
    import neuroml.loaders as L
    old = os.getcwd()
    os.chdir(os.path.join(root, *cwd))
    lim = sys.getrecursionlimit()
    sys.setrecursionlimit(600)
    rl = ReadLog(root)
    try:
        f0 = case["fs"][0]
        p = os.path.join(root, *f0["path"])
        try:
            with rl:
                opt = bool(case.get("optimized"))
                if case["entry"] == "file":
                    doc = L.read_neuroml2_file(entry_text(case, root, cwd), include_includes=True, optimized=opt)
                elif case["entry"] == "noinc":
                    doc = L.read_neuroml2_file(entry_text(case, root, cwd), include_includes=False, optimized=opt)
                elif case["entry"] == "internal":
                    if not os.path.isfile(p):
                        raise SystemExit()
                    doc = L._read_neuroml2(p, include_includes=True)
                else:
                    with open(p) as fh:
                        text = fh.read()
                    base = os.path.dirname(p) if case["base_given"] else None
                    doc = L.read_neuroml2_string(text, include_includes=True, base_path=base)
            return {"res": "ok", "doc": dump_doc(doc), "log": rl.log, "includes_left": len(doc.includes)}
        except RecursionError:
            return {"res": "outOfFuel"}
        except SystemExit:
            return {"res": "missing"}
        except Exception as e:  # noqa
            s = str(e)
            if "maximum recursion depth" in s:     # RecursionError re-wrapped by NeuroMLLoader as a plain Exception
                return {"res": "outOfFuel"}
            if "Unrecognised extension" in s:
                return {"res": "badExt"}
            if isinstance(e, (OSError, IOError)) or "does not exist" in s or "No such file" in s:
                return {"res": "missing"}
            return {"res": "exc:" + type(e).__name__ + ":" + s[:80]}
    finally:
        sys.setrecursionlimit(lim)
        os.chdir(old)
        try:
            import tables
            tables.file._open_files.close_all()
        except Exception:
            pass


KEPT = ["kept-sentinel.nml"]          # what the caller's list holds before the call (a path no case has)


def run_real_kept(case, root, cwd):
    """the same call with an `already_included` list the caller keeps: outcome class + the list after the call
    (paths relative to the tree, in the order of the list)"""
    import neuroml.loaders as L
    old = os.getcwd()
    os.chdir(os.path.join(root, *cwd))
    lim = sys.getrecursionlimit()
    sys.setrecursionlimit(600)
    kept = [os.path.join(root, *KEPT)]
    try:
        f0 = case["fs"][0]
        p = os.path.join(root, *f0["path"])
        res = "ok"
        try:
            opt = bool(case.get("optimized"))
            if case["entry"] == "file":
                L.read_neuroml2_file(entry_text(case, root, cwd), include_includes=True, optimized=opt,
                                     already_included=kept)
            else:
                with open(p) as fh:
                    text = fh.read()
                base = os.path.dirname(p) if case["base_given"] else None
                L.read_neuroml2_string(text, include_includes=True, base_path=base, already_included=kept)
        except RecursionError:
            res = "outOfFuel"
        except SystemExit:
            res = "missing"
        except Exception as e:  # noqa
            s = str(e)
            if "maximum recursion depth" in s:
                res = "outOfFuel"
            elif "Unrecognised extension" in s:
                res = "badExt"
            elif isinstance(e, (OSError, IOError)) or "does not exist" in s or "No such file" in s:
                res = "missing"
            else:
                res = "exc:" + type(e).__name__ + ":" + s[:80]
        out = []
        for x in kept:
            # a (missing) location above the root of the generated tree: the model's paths are clamped at the root
            # (`norm` pops nothing from the empty path), so clamp here too
            r = [c for c in os.path.relpath(os.path.normpath(x), root).split(os.sep)]
            while r and r[0] == "..":
                r = r[1:]
            out.append(r)
        return {"res": res, "kept": out}
    finally:
        sys.setrecursionlimit(lim)
        os.chdir(old)
        try:
            import tables
            tables.file._open_files.close_all()
        except Exception:
            pass


_SH = None
_SH_TRANSLATED = "unset"
_RM = None


def _translator():
    tdir = os.path.join(fw.VERIF, "translators")
    if tdir not in sys.path:
        sys.path.insert(0, tdir)
    import include_extract
    return include_extract


def regenerate(ctx):
    """translator step: the include-handling code of fw.REPO's current tree -> Gen/IncludeShape.lean (`sh`, `genSameId`);
    every statement of the anchored functions that is not the modelled one is a gap"""
    global _SH_TRANSLATED
    global _RM
    sh, gaps = _translator().regenerate(fw.REPO, os.path.join(fw.LEAN, "NmlVerif", "Gen", "IncludeShape.lean"))
    _SH_TRANSLATED = sh
    _RM = _translator().LAST_RESTORES
    return gaps


def probe_restores():
    import neuroml.loaders as L
    try:
        return "del already_included[" in inspect.getsource(L.read_neuroml2_file)
    except Exception:
        return False


def tree_restores():
    """do the entry points of the tree under test take back the marks of a failed read (C08's repair)?  Decided by the
    translator from the source; when it had to refuse (or in a replay, where no regenerate step ran), by looking at the
    loaded library"""
    global _RM
    if _RM is None:
        try:
            if _SH_TRANSLATED == "unset":
                _translator().analyse(fw.REPO)
                _RM = _translator().LAST_RESTORES
        except Exception:
            _RM = None
        if _RM is None:
            _RM = probe_restores()
    return bool(_RM)


def probe_shares_list():
    import neuroml.loaders as L
    try:
        return "already_included" in inspect.signature(L.NeuroMLHdf5Loader.load).parameters
    except Exception:
        return False


def tree_shares_list():
    """does the tree under test pass `already_included` through to the HDF5 loader (the proposed repair)?  Decided by
    the translator from the source; when it had to refuse, by looking at the loaded library"""
    global _SH, _SH_TRANSLATED
    if _SH is None:
        if _SH_TRANSLATED == "unset":              # replay: no regenerate step ran
            try:
                _SH_TRANSLATED = _translator().analyse(fw.REPO)[0]
            except Exception:
                _SH_TRANSLATED = None
        _SH = probe_shares_list() if _SH_TRANSLATED is None else bool(_SH_TRANSLATED)
    return _SH


# ---------------------------------------------------------------- model (Lean driver)
def model_line(case, cwd):
    f0 = case["fs"][0]
    nh5 = sum(1 for f in case["fs"] if f["kind"] == "h5")
    fuel = (nh5 + 2) * (len(case["fs"]) + 2) + 3
    j = {"fs": case["fs"], "cwd": cwd, "fuel": fuel, "sh": tree_shares_list(), "mode": case["entry"]}
    if case["entry"] == "string":
        j["base"] = f0["path"][:-1] if case["base_given"] else cwd
        j["hrefs"] = f0["hrefs"]
        j["comps"] = f0["comps"]
    else:
        j["entry_file"] = f0["path"]
    return json.dumps(j)


def model_line_kept(case, cwd):
    j = json.loads(model_line(case, cwd))
    j["mode"] = "file-kept" if case["entry"] == "file" else "string-kept"
    j["rm"] = tree_restores()
    j["al0"] = [KEPT]
    return json.dumps(j)


def canon_model_kept(r):
    # the model keeps the list newest-first, Python appends
    return {"res": r.get("res", "error:" + str(r)), "kept": list(reversed(r.get("kept", [])))}


def canon_model(r, case):
    if r.get("res") != "ok":
        return {"res": r.get("res", "error:" + str(r))}
    doc = sorted(r["doc"], key=lambda c: c[0])  # stable: by list name, in-list order kept
    left = len(case["fs"][0]["hrefs"]) if (case["entry"] == "noinc" and case["fs"][0]["kind"] != "h5") else 0
    return {"res": "ok", "doc": doc, "log": r["log"], "includes_left": left}


# ---------------------------------------------------------------- oracle (independent of the Lean model)
def ext_kind(path):
    s = path[-1]
    if s.endswith(".nml.h5"):
        return "h5"
    if s.endswith(".nml") or s.endswith(".xml"):
        return "xml"
    return "other"


def oracle(case, cwd):
    """expected outcome by the property's own words: every file reachable through include links, once"""
    fsd = {tuple(f["path"]): f for f in case["fs"]}

    def resolve(base, href):
        a = tuple(norm(join(cwd, href)))
        if a in fsd:
            return a
        return tuple(norm(join(base, href)))

    def succ(t):
        return [resolve(list(t[:-1]), h) for h in fsd[t]["hrefs"]]

    def closure(starts):
        seen, todo, bad = set(), list(starts), False
        while todo:
            t = todo.pop()
            if t in seen:
                continue
            seen.add(t)
            if t not in fsd or ext_kind(t) == "other":
                bad = True
                continue
            todo.extend(succ(t))
        return seen, bad
    f0 = case["fs"][0]
    e = tuple(f0["path"])
    if case["entry"] == "string":
        base = f0["path"][:-1] if case["base_given"] else cwd
        starts = [resolve(base, h) for h in f0["hrefs"]]
        reach, bad = closure(starts)
        roots_h5 = set()
    else:
        reach, bad = closure([e]) if e in fsd else ({e}, True)
        if e in fsd and ext_kind(e) == "other":        # the entry file is parsed whatever its extension
            bad = False
            reach, bad = closure(succ(e))
            reach.add(e)
        roots_h5 = {e} if f0["kind"] == "h5" else set()
    good = {t for t in reach if t in fsd and (ext_kind(t) != "other" or t == e)}
    # HDF5 files on an include cycle; files below a non-entry HDF5 file that has includes
    h5_on_cycle, below_h5 = False, set()
    for t in good:
        if fsd[t]["kind"] != "h5":
            continue
        sub, _ = closure(succ(t))
        if t in sub:
            h5_on_cycle = True
        if t not in roots_h5 and fsd[t]["hrefs"]:
            below_h5 |= sub
    idless = collections.Counter()
    keys = set()
    own = [f0["comps"]] if case["entry"] == "string" else []
    for comps in own + [fsd[t]["comps"] for t in good]:
        for c in comps:
            if c[1] == "noid":
                idless[(c[0], c[3])] += 1
            else:
                keys.add((c[0], c[1], c[2]))
    src = collections.defaultdict(set)
    for t in good:
        for c in fsd[t]["comps"]:
            if c[1] == "noid":
                src[(c[0], c[3])].add(t)
    return {"reads": good, "bad": bad, "h5_on_cycle": h5_on_cycle, "below_h5": below_h5, "idless": idless,
            "keys": keys, "src": src, "n_reach": len(reach)}


def no_cwd_hit(case, cwd, orc):
    """no (relative) href of a reachable file, or of the string itself, resolves from cwd"""
    fsd = {tuple(f["path"]): f for f in case["fs"]}
    hs = [h for t in orc["reads"] for h in fsd[t]["hrefs"]]
    if case["entry"] == "string":
        hs += case["fs"][0]["hrefs"]
    return not any((not is_abs(h)) and tuple(norm(join(cwd, h))) in fsd for h in hs)


def check_case(ctx, case, root, model_out, kept_out=None):
    """model_out: list of canonical model results, one per cwd; kept_out: the same for the call with a caller-kept list"""
    results, orcs = [], []
    for ci, cwd in enumerate(case["cwds"]):
        if kept_out is not None and case["entry"] in ("file", "string"):
            # --- correspondence, stream kept-list: the caller's `already_included` after the call, failed reads included
            rk, mk = run_real_kept(case, root, cwd), kept_out[ci]
            ctx.corr_evals += 1
            if "outOfFuel" in (rk["res"], mk["res"]):
                ctx.count("kept:recursion-error-not-compared")
                if rk["res"] != mk["res"]:
                    ctx.disagree("kept-list", {"case": case, "cwd": cwd}, rk, mk)
            else:
                ctx.count("kept:ok" if rk["res"] == "ok" else
                          ("kept:failed-read-marks-left" if len(rk["kept"]) > 1 else "kept:failed-read-list-as-at-entry"))
                if rk != mk:
                    ctx.disagree("kept-list", {"case": case, "cwd": cwd}, rk, mk)
        real = run_real(case, root, cwd)
        results.append(real)
        canon = {"fs": case["fs"], "cwd": cwd, "entry": case["entry"], "base": case["base_given"],
                 "sp": case.get("spelling"), "opt": bool(case.get("optimized"))}
        orc = oracle(case, cwd)
        orcs.append(orc)
        ctx.seen(canon, nontrivial=orc["n_reach"] >= 2)
        ctx.count("res:" + real["res"].split(":")[0])
        ctx.count("entry:" + case["entry"])
        where = {"case": case, "cwd": cwd}
        # --- correspondence with the Lean model: outcome, document (order included), log of files parsed
        ctx.corr_evals += 1
        m = model_out[ci]
        if m != real:
            ctx.disagree("include-model", where, real, m)
        if case["entry"] in ("internal", "noinc"):
            continue                      # outside the property's entry points: compared with the model only
        # --- full-property oracle on the real code
        if real["res"] == "outOfFuel":
            key = "C06:cycle-through-hdf5" if orc["h5_on_cycle"] else "C06:nontermination"
            ctx.fail(key, "include resolution does not terminate (RecursionError)", where)
            continue
        if orc["bad"]:
            if real["res"] == "ok":
                ctx.fail("C06:error-swallowed", "a missing / unreadable include was silently dropped",
                         dict(where, real=real))
            continue
        if real["res"] != "ok":
            ctx.fail("C06:unexpected-error", "reading a well-formed include graph failed: %s" % real["res"],
                     dict(where, real=real))
            continue
        nreads = collections.Counter(tuple(p) for p in real["log"])
        ctx.count("reads:max=%d" % min(max(nreads.values() or [0]), 3))
        twice = sorted(t for t, k in nreads.items() if k > 1)
        got_idless = collections.Counter((c[0], c[3]) for c in real["doc"] if c[1] == "noid")
        got_keys = [(c[0], c[1], c[2]) for c in real["doc"] if c[1] != "noid"]
        own = case["fs"][0]["comps"]
        entry_keys = [(c[0], c[1], c[2]) for c in own if c[1] != "noid"]
        if sum(got_idless.values()):
            ctx.count("idless-in-result")
        if twice:
            through = all(t in orc["below_h5"] for t in twice)
            ctx.fail("C06:twice-through-hdf5" if through else "C06:file-read-twice",
                     "a file reachable through several include paths was read %s times" % max(nreads.values()),
                     dict(where, read_twice=["/".join(t) for t in twice]))
        elif set(nreads) != orc["reads"]:
            ctx.fail("C06:reads-not-reachable-set", "the files read are not the files reachable through include links",
                     dict(where, not_read=sorted("/".join(t) for t in orc["reads"] - set(nreads)),
                          extra=sorted("/".join(t) for t in set(nreads) - orc["reads"])))
        elif got_idless != orc["idless"]:
            surplus = {k for k in got_idless if got_idless[k] > orc["idless"].get(k, 0)}
            lost = {k for k in orc["idless"] if got_idless.get(k, 0) < orc["idless"][k]}
            through = bool(surplus) and not lost and all(orc["src"][k] & orc["below_h5"] for k in surplus)
            ctx.fail("C06:twice-through-hdf5" if through else "C06:idless-count",
                     "an element without an id does not occur once per reachable file that holds it",
                     dict(where, got=sorted([list(k), v] for k, v in got_idless.items()),
                          expected=sorted([list(k), v] for k, v in orc["idless"].items())))
        elif set(got_keys) != orc["keys"]:
            ctx.fail("C06:union-mismatch", "result is not the union over reachable files",
                     dict(where, missing=sorted(orc["keys"] - set(got_keys)), extra=sorted(set(got_keys) - orc["keys"])))
        elif ((len(set(entry_keys)) == len(entry_keys) or case["fs"][0]["kind"] == "h5")
              and len(got_keys) != len(set(got_keys))):
            ctx.fail("C06:duplicate-id", "a component id appears twice in one list", where)
        elif real["includes_left"]:
            ctx.fail("C06:includes-left", "include entries left in the result", where)
    # cwd independence: every outcome (document, order, files read, error) is the same
    if (case["entry"] == "file" or (case["entry"] == "string" and case["base_given"])) and \
            no_cwd_hit(case, case["cwds"][0], orcs[0]) and no_cwd_hit(case, case["cwds"][1], orcs[1]):
        ctx.count("cwd-pair-compared")
        if results[0] != results[1] and not (orcs[0]["h5_on_cycle"] and "outOfFuel" in (results[0]["res"], results[1]["res"])):
            ctx.fail("C06:cwd-dependence", "result depends on the working directory",
                     {"case": case, "results": results})


def _f(path, kind, hrefs, comps):
    return {"path": path, "kind": kind, "hrefs": hrefs, "comps": comps}


CORPUS = [
    # a.nml <-> b.nml two-cycle (was: unbounded recursion before the fix 5bb970b)
    {"fs": [_f(["r", "f0.nml"], "xml", [["f1.nml"]], [["izhikevich_cells", "id", "c0", "from_f0"]]),
            _f(["r", "f1.nml"], "xml", [["f0.nml"]], [["izhikevich_cells", "id", "c1", "from_f1"]])],
     "cwds": [["r"], ["elsewhere"]], "entry": "file", "base_given": True, "spelling": "abs"},
    # self loop
    {"fs": [_f(["r", "f0.nml"], "xml", [["f0.nml"], [".", "f0.nml"]], [["iaf_cells", "id", "c0", "from_f0"]])],
     "cwds": [["r", "sub"], ["elsewhere"]], "entry": "file", "base_given": True, "spelling": "rel"},
    # diamond with colliding ids, nested dirs, string entry
    {"fs": [_f(["r", "f0.nml"], "xml", [["sub", "f1.nml"], ["other", "f2.nml"]], [["izhikevich_cells", "id", "c0", "from_f0"]]),
            _f(["r", "sub", "f1.nml"], "xml", [["deep", "f3.nml"]],
               [["izhikevich_cells", "id", "c0", "from_f1"], ["iaf_cells", "id", "c1", "from_f1"]]),
            _f(["r", "other", "f2.nml"], "xml", [["..", "sub", "deep", "f3.nml"]], [["iaf_cells", "id", "c1", "from_f2"]]),
            _f(["r", "sub", "deep", "f3.nml"], "xml", [], [["pulse_generators", "id", "c2", "from_f3"]])],
     "cwds": [["r", "other"], ["elsewhere"]], "entry": "string", "base_given": True, "spelling": "abs"},
    # KNOWN FINDING (today's tree): cycle through an HDF5 file
    {"fs": [_f(["r", "f0.nml"], "xml", [["f1.nml.h5"]], []),
            _f(["r", "f1.nml.h5"], "h5", [["f0.nml"]], [["izhikevich_cells", "id", "c0", "from_f1"]])],
     "cwds": [["r"], ["elsewhere"]], "entry": "file", "base_given": True, "spelling": "abs"},
    # KNOWN FINDING (today's tree): a file included directly and by an included HDF5 file is read twice
    {"fs": [_f(["r", "f0.nml"], "xml", [["f1.nml.h5"], ["sub", "f2.nml"]], [["properties", "noid", "", "p0"]]),
            _f(["r", "f1.nml.h5"], "h5", [["sub", "f2.nml"]], [["properties", "noid", "", "p1"]]),
            _f(["r", "sub", "f2.nml"], "xml", [], [["properties", "noid", "", "p2"], ["iaf_cells", "id", "c0", "from_f2"]])],
     "cwds": [["r", "sub"], ["elsewhere"]], "entry": "file", "base_given": True, "spelling": "abs"},
    # the diamond of seeded change C06-1: the shared file holds elements without an id, an id, and a missing id;
    # it is spelled differently by its two includers and includes the entry file
    {"fs": [_f(["r", "f0.nml"], "xml", [["sub", "f1.nml"], [".", "other", "f2.nml"]],
               [["iaf_cells", "id", "top", "from_f0"], ["properties", "noid", "", SHARED_TAG]]),
            _f(["r", "sub", "f1.nml"], "xml", [["..", "sub", "deep", "f3.nml"]], [["pulse_generators", "id", "pg", "from_f1"]]),
            _f(["r", "other", "f2.nml"], "xml", [["", "r", "sub", "deep", "f3.nml"], ["..", "sub", "deep", "f3.nml"]],
               [["pulse_generators", "id", "pg", "from_f2"], ["pulse_generators", "none", "", "from_f2"]]),
            _f(["r", "sub", "deep", "f3.nml"], "xml", [["..", "..", "f0.nml"]],
               [["properties", "noid", "", "origin"], ["properties", "noid", "", SHARED_TAG],
                ["ComponentType", "noid", "", "sharedType"], ["iaf_cells", "id", "leak", "from_f3"],
                ["pulse_generators", "none", "", "from_f3"]])],
     "cwds": [["r", "other"], ["elsewhere"]], "entry": "file", "base_given": True, "spelling": "dotted"},
    # ladder: four levels, every level includes all lower ones; string entry without base_path
    {"fs": [_f(["r", "f0.nml"], "xml", [["sub", "f2.xml"], ["f1.nml"], ["other", "f3.nml"]], [["ComponentType", "noid", "", "t0"]]),
            _f(["r", "f1.nml"], "xml", [["other", "f3.nml"], ["sub", "f2.xml"]], [["ComponentType", "noid", "", "t1"]]),
            _f(["r", "sub", "f2.xml"], "xml", [["..", "other", "f3.nml"]], [["ComponentType", "noid", "", "t2"]]),
            _f(["r", "other", "f3.nml"], "xml", [], [["ComponentType", "noid", "", "t3"], ["properties", "noid", "", "t3"]])],
     "cwds": [["r"], ["elsewhere"]], "entry": "string", "base_given": False, "spelling": "abs"},
    # the same include written three times; include_includes=False and the internal entry point
    {"fs": [_f(["r", "sub", "f0.nml"], "xml", [["f1.nml"], ["f1.nml"], ["deep", "..", "f1.nml"], ["f0.nml"]],
               [["properties", "noid", "", "p0"]]),
            _f(["r", "sub", "f1.nml"], "xml", [], [["properties", "noid", "", "p1"]])],
     "cwds": [["r", "sub"], ["elsewhere"]], "entry": "internal", "base_given": True, "spelling": "abs"},
    {"fs": [_f(["r", "sub", "f0.nml"], "xml", [["f1.nml"], ["f1.nml"]], [["properties", "noid", "", "p0"]]),
            _f(["r", "sub", "f1.nml"], "xml", [], [["properties", "noid", "", "p1"]])],
     "cwds": [["r", "sub"], ["elsewhere"]], "entry": "noinc", "base_given": True, "spelling": "abs"},
    # HDF5 entry file whose embedded XML includes an XML file that includes a second HDF5 file (a leaf)
    {"fs": [_f(["r", "f0.nml.h5"], "h5", [["sub", "f1.nml"]], [["iaf_cells", "id", "c0", "from_f0"], ["iaf_cells", "id", "c0", "dup_in_f0"]]),
            _f(["r", "sub", "f1.nml"], "xml", [["..", "other", "f2.nml.h5"], ["..", "f0.nml.h5"]][:1], [["properties", "noid", "", "p1"]]),
            _f(["r", "other", "f2.nml.h5"], "h5", [], [["properties", "noid", "", "p2"], ["iaf_cells", "id", "c0", "from_f2"]])],
     "cwds": [["r"], ["elsewhere"]], "entry": "file", "base_given": True, "spelling": "rel", "optimized": True},
]


def run_cases(ctx, cases):
    lines = []
    for c in cases:
        for cwd in c["cwds"]:
            lines.append(model_line(c, cwd))
    rc, out = fw.run_driver("C06", lines)
    if rc != 0 or len(out) != len(lines):
        ctx.disagree("driver", "driver failed rc=%s" % rc, "\n".join(out[-5:]), None)
        mouts = [{"res": "driver-error"}] * len(lines)
    else:
        mouts, k = [], 0
        for c in cases:
            for _ in c["cwds"]:
                mouts.append(canon_model(json.loads(out[k]), c))
                k += 1
    klines = [model_line_kept(c, cwd) for c in cases if c["entry"] in ("file", "string") for cwd in c["cwds"]]
    rc, out = fw.run_driver("C06", klines)
    kouts = {}
    if rc != 0 or len(out) != len(klines):
        ctx.disagree("driver", "driver failed on the kept-list lines rc=%s" % rc, "\n".join(out[-5:]), None)
    else:
        k = 0
        for ci, c in enumerate(cases):
            if c["entry"] in ("file", "string"):
                kouts[ci] = [canon_model_kept(json.loads(x)) for x in out[k:k + len(c["cwds"])]]
                k += len(c["cwds"])
    k = 0
    ctx.count("tree:entry-points-restore-marks" if tree_restores() else "tree:entry-points-leave-marks")
    if _translator().LAST_RESTORES is not None and bool(_translator().LAST_RESTORES) != probe_restores():
        ctx.disagree("shape", "translator and loaded library disagree on whether a failed read takes its marks back",
                     probe_restores(), _translator().LAST_RESTORES)
    ctx.count("tree:hdf5-loader-shares-include-list" if tree_shares_list() else "tree:hdf5-parser-own-include-list")
    if _SH_TRANSLATED is not None and bool(_SH_TRANSLATED) != probe_shares_list():
        ctx.disagree("shape", "translator and loaded library disagree on how HDF5 includes are resolved",
                     probe_shares_list(), _SH_TRANSLATED)
    for ci, c in enumerate(cases):
        root = os.path.realpath(tempfile.mkdtemp(prefix="verif_c06_"))
        try:
            materialise(c, root)
            check_case(ctx, c, root, mouts[k:k + len(c["cwds"])], kouts.get(ci))
        finally:
            shutil.rmtree(root, ignore_errors=True)
        k += len(c["cwds"])
        ctx.count("files:%d" % min(len(c["fs"]), 8))
        if any(f["kind"] == "h5" and f["hrefs"] for f in c["fs"][1:]):
            ctx.count("has:included-hdf5-with-includes")
        if any(is_abs(h) for f in c["fs"] for h in f["hrefs"]):
            ctx.count("has:absolute-href")
        if any(len({tuple(h) for h in f["hrefs"]}) < len(f["hrefs"]) for f in c["fs"]):
            ctx.count("has:same-href-twice")
        ctx.sample({"files": [("/".join(f["path"]), ["/".join(h) for h in f["hrefs"]]) for f in c["fs"]],
                    "entry": c["entry"], "cwds": ["/".join(x) for x in c["cwds"]]})


def run(ctx):
    n = ctx.n(220, 2200) * ctx.search_mult
    cases = [json.loads(json.dumps(c)) for c in CORPUS]
    for i in range(n):
        cases.append(gen_case(ctx.rng, big=(ctx.tier == "thorough")))
    run_cases(ctx, cases)


def replay(ctx, payload):
    case = payload["case"]["case"] if "case" in payload.get("case", {}) else payload["case"]
    run_cases(ctx, [case])
    return {"fails": bool(ctx.failures or ctx.corr_disagreements), "failures": ctx.failures,
            "disagreements": ctx.corr_disagreements}
