"""C07 — a load's result depends on its input alone: no history or interleaving effects.

Tie = translator + correspondence:
  * regenerate(): translators/glue_extract.py scans the loader / network-builder modules of fw.REPO's current tree for
    shared mutable variables and per-entry read-before-write / write summaries -> lean/NmlVerif/Gen/Glue.lean; the Lean
    obligation `c07_table_ok` (Props/C07Gen.lean) fails on any violating variable outside `Known`.
  * run(): (a) HISTORY oracle on the real code: every loader entry point on generated files (XML, HDF5, includes,
    strings, optimized, array morphologies, parser-driven builds), repeated and after other files / other library
    use, each result compared with the result of the same call in a FRESH process;
    (b) INTERLEAVING oracle: handler-call sequences recorded from NeuroMLHdf5Parser / NeuroMLXMLParser solo runs are
    replayed against two fresh NetworkBuilder instances in generated interleavings (handler-call granularity, common
    population / projection / input-list ids), each document compared with its solo document;
    (c) correspondence: the same interleavings through the Lean model (Drivers/C07.lean, table-derived sharing
    configuration) must give the documents the real builders gave.
"""
import contextlib
import copy
import hashlib
import io
import json
import os
import re
import shutil
import subprocess
import sys
import tempfile
from concurrent.futures import ThreadPoolExecutor

import fw

LEAN_PROPS = ["NmlVerif.Props.C07", "NmlVerif.Props.C07Gen"]
LEVEL = "proof"
RULE = ("history stream: sessions of 8-16 actions over two generated file sets with common ids (network XML/HDF5 "
        "files with instance/size populations, chemical/electrical/continuous projections, input lists; include "
        "chains incl. an HDF5 include; strings with base_path; optimized HDF5; array morphologies; parser-driven "
        "NetworkBuilder builds; dangling-reference files; files rewritten in place; returned documents mutated after "
        "dumping; hand-built optimized containers used between loads), every action's deep dump compared with the "
        "dump of the same action in a fresh process; non-trivial = the action is a repeat or follows a load of another "
        "file. interleaving stream: two recorded handler-call sequences (HDF5- and XML-parser driven, common ids) "
        "replayed on two fresh builders under generated schedules; non-trivial = both sequences declare a common "
        "population/projection/input-list id and the schedule really alternates; distinct = distinct canonical "
        "(case, schedule) / (session, step)")
TRUST = [
    "translators/glue_extract.py (AST scan: name-based call/attribute resolution inside the scanned modules, alias and "
    "escape analysis, whitelists of pure builtins / reader methods / immutable constructors) is validated by the "
    "history and interleaving streams and by mutation testing, not verified; state kept OUTSIDE the scanned modules "
    "(warnings filters, logging configuration, PyTables' open-file registry, lxml) is not in the table",
    "the generic theorems speak about any semantics that Respects the extracted summaries; that the real code does is "
    "the translator's claim",
    "Model/NetBuilder.lean is a hand model of NetworkBuilder's handler methods tied by correspondence only",
]
ASSUMPTIONS = [
    "entry points are called sequentially in one process (no threads); 'at the same time' means interleaved handler "
    "calls of two builders, as in the property's quantifier",
    "class objects are not rebound through variables holding a class (e.g. k = NetworkBuilder; k.x = ..) and shared "
    "state is not reached through getattr with computed names on classes/modules: such constructs are flagged opaque "
    "only in their syntactic forms (setattr on a class/module, globals()[..] =, __dict__ writes, exec/eval)",
    "files do not change while a load is running",
]
TABLE_OBLIGATIONS = ["violations(Gen.Glue.table) ⊆ Known (c07_table_ok, decide +kernel)"]

GLUE_LEAN = os.path.join(fw.LEAN, "NmlVerif", "Gen", "Glue.lean")
HARNESS = os.path.dirname(os.path.dirname(os.path.abspath(__file__)))
_GLUE = {}


# ------------------------------------------------------------------------------------------------ translator step
def _tree_key(repo):
    sys.path.insert(0, os.path.join(fw.VERIF, "translators"))
    import glue_extract as G
    h = hashlib.sha1()
    for m in G.MODULES:
        with open(os.path.join(repo, m), "rb") as fh:
            h.update(m.encode() + b"\0" + fh.read() + b"\0")
    with open(G.__file__, "rb") as fh:
        h.update(fh.read())
    return h.hexdigest(), G


def lean_list(name):
    src = open(fw.module_path("NmlVerif.Props.C07Gen")).read()
    m = re.search(r"def %s : List String :=\s*\[(.*?)\]" % name, src, re.S)
    return sorted(re.findall(r'"([^"]*)"', m.group(1))) if m else None


def regenerate(ctx):
    """(re)write Gen/Glue.lean from fw.REPO's current tree.  The analysis is a pure function of the scanned sources
    and of the translator, so its output is memoised by their content hash (in lean/.lake, never committed)."""
    key, G = _tree_key(fw.REPO)
    cdir = os.path.join(fw.LEAN, ".lake", "c07_glue_cache")
    os.makedirs(cdir, exist_ok=True)
    cj, cl = os.path.join(cdir, key + ".json"), os.path.join(cdir, key + ".lean")
    if os.path.exists(cj) and os.path.exists(cl) and not os.environ.get("VERIF_NO_CACHE"):
        side = json.load(open(cj))
        text = open(cl).read()
        if not os.path.exists(GLUE_LEAN) or open(GLUE_LEAN).read() != text:
            with open(GLUE_LEAN, "w") as fh:
                fh.write(text)
    else:
        w, table, stats = G.analyse(fw.REPO)
        side = G.emit(w, table, stats, GLUE_LEAN, cj)
        shutil.copyfile(GLUE_LEAN, cl)
    viol = G.violations(side)
    _GLUE.update(side=side, violating=sorted({v for _, v in viol}))
    ctx.extra["glue"] = dict(stats=side["stats"], violating_vars=_GLUE["violating"],
                             written=sorted({v for e in side["entries"] for v in e["writes"]}),
                             opaque=side["gaps"])
    gaps = ["opaque construct: " + g for g in side["gaps"]]
    known_json = sorted(k.split("C07:shared-mutable:", 1)[1] for k in fw.known_findings("C07")
                        if k.startswith("C07:shared-mutable:"))
    kl, benign = lean_list("Known"), lean_list("Benign") or []
    ctx.extra["glue"]["benign_memo_caches"] = benign
    if kl != known_json:
        gaps.append("Known list in Props/C07Gen.lean %r differs from known_findings.d/C07.json %r" % (kl, known_json))
    stale = [b for b in benign if b not in _GLUE["violating"]]
    if stale:
        ctx.notes.append("Benign entries no longer reported by the scan (can be removed): %r" % stale)
    _GLUE["unexpected"] = [v for v in _GLUE["violating"] if v not in benign and v not in known_json]
    ctx.extra["glue"]["unexpected_violating_vars"] = _GLUE["unexpected"]
    return gaps


# ------------------------------------------------------------------------------------------------ generators
def cell_path(pop, i, comp, inst):
    return "../%s/%i/%s" % (pop, i, comp) if inst else "../%s[%i]" % (pop, i)


def gen_net(rng, tag, rich=True, dangling=False):
    """a network document whose ids are drawn from small pools, so that two documents collide on purpose"""
    import neuroml as n
    d = n.NeuroMLDocument(id="doc" + tag)
    if rng.random() < 0.5:
        d.notes = "notes of " + tag
    cells = []
    for i in range(rng.randint(1, 2)):
        cid = "cell%d" % i
        d.izhikevich_cells.append(n.IzhikevichCell(id=cid, v0="-70mV", thresh="30mV", a="0.02", b="0.2", c="-65",
                                                   d=str(rng.randint(1, 9))))
        cells.append(cid)
    d.exp_one_synapses.append(n.ExpOneSynapse(id="syn0", gbase="%dnS" % rng.randint(1, 9), erev="0mV", tau_decay="1ms"))
    d.gap_junctions.append(n.GapJunction(id="gj0", conductance="%dpS" % rng.randint(1, 9)))
    d.silent_synapses.append(n.SilentSynapse(id="silent0"))
    d.graded_synapses.append(n.GradedSynapse(id="gs0", conductance="5pS", delta="5mV", Vth="-55mV", k="0.025per_ms",
                                             erev="0mV"))
    d.pulse_generators.append(n.PulseGenerator(id="pg0", delay="0ms", duration="%dms" % rng.randint(1, 9),
                                               amplitude="1nA"))
    net = n.Network(id="net" + (tag if rng.random() < 0.5 else "X"))
    if rng.random() < 0.3:
        net.type = "networkWithTemperature"
        net.temperature = "%d degC" % rng.randint(20, 37)
    if rng.random() < 0.3:
        net.notes = "net notes " + tag
    d.networks.append(net)
    pops = []
    for i in range(rng.randint(1, 3)):
        pid = "pop%d" % i
        comp = rng.choice(cells)
        inst = rng.random() < 0.6
        size = rng.randint(1, 4)
        p = n.Population(id=pid, component=comp, size=size)
        if inst:
            p.type = "populationList"
            for k in range(size):
                ins = n.Instance(id=k)
                ins.location = n.Location(x=float(rng.randint(0, 50)) / 2, y=float(k), z=float(rng.randint(0, 9)))
                p.instances.append(ins)
        if rng.random() < 0.3:
            p.properties.append(n.Property(tag="color", value="%d 0 0" % rng.randint(0, 1)))
        net.populations.append(p)
        pops.append((pid, comp, inst, size))
    refpops = list(pops)
    if dangling:   # a projection / input list that names a population this file does not declare
        refpops = [("pop%d" % len(pops), cells[0], rng.random() < 0.5, 2)]

    def pick():
        return rng.choice(refpops)
    nproj = rng.randint(0, 2) if not dangling else 1
    for i in range(nproj):
        pre, post = pick(), pick()
        pr = n.Projection(id="proj%d" % i, presynaptic_population=pre[0], postsynaptic_population=post[0], synapse="syn0")
        wd = rng.random() < 0.5
        for k in range(rng.randint(1 if dangling else 0, 3)):
            a = dict(id=k, pre_cell_id=cell_path(pre[0], rng.randrange(pre[3]), pre[1], pre[2]),
                     post_cell_id=cell_path(post[0], rng.randrange(post[3]), post[1], post[2]),
                     pre_segment_id=rng.choice([0, 0, 2]), post_segment_id=0,
                     pre_fraction_along=rng.choice([0.5, 0.25]), post_fraction_along=0.5)
            if wd:
                pr.connection_wds.append(n.ConnectionWD(weight=rng.choice([1.0, 0.5, 2.0]),
                                                        delay="%dms" % rng.choice([0, 1, 5]), **a))
            else:
                pr.connections.append(n.Connection(**a))
        net.projections.append(pr)
    if rich and rng.random() < 0.5:
        pre, post = pick(), pick()
        ep = n.ElectricalProjection(id="eproj0", presynaptic_population=pre[0], postsynaptic_population=post[0])
        inst = pre[2] or post[2]
        for k in range(rng.randint(1, 3)):
            if not inst:
                ep.electrical_connections.append(n.ElectricalConnection(
                    id=k, pre_cell="%d" % rng.randrange(pre[3]), post_cell="%d" % rng.randrange(post[3]), pre_segment=0,
                    post_segment=0, pre_fraction_along=0.5, post_fraction_along=0.5, synapse="gj0"))
            else:
                a = dict(id=k, pre_cell=cell_path(pre[0], rng.randrange(pre[3]), pre[1], pre[2]),
                         post_cell=cell_path(post[0], rng.randrange(post[3]), post[1], post[2]), pre_segment=0,
                         post_segment=0, pre_fraction_along=0.5, post_fraction_along=0.5, synapse="gj0")
                if rng.random() < 0.5:
                    ep.electrical_connection_instances.append(n.ElectricalConnectionInstance(**a))
                else:
                    ep.electrical_connection_instance_ws.append(
                        n.ElectricalConnectionInstanceW(weight=rng.choice([0.5, 2.0]), **a))
        net.electrical_projections.append(ep)
    if rich and rng.random() < 0.5:
        pre, post = pick(), pick()
        cp = n.ContinuousProjection(id="cproj0", presynaptic_population=pre[0], postsynaptic_population=post[0])
        inst = pre[2] or post[2]
        for k in range(rng.randint(1, 3)):
            if not inst:
                cp.continuous_connections.append(n.ContinuousConnection(
                    id=k, pre_cell="%d" % rng.randrange(pre[3]), post_cell="%d" % rng.randrange(post[3]), pre_segment=0,
                    post_segment=0, pre_fraction_along=0.5, post_fraction_along=0.5, pre_component="silent0",
                    post_component="gs0"))
            else:
                a = dict(id=k, pre_cell=cell_path(pre[0], rng.randrange(pre[3]), pre[1], pre[2]),
                         post_cell=cell_path(post[0], rng.randrange(post[3]), post[1], post[2]), pre_segment=0,
                         post_segment=0, pre_fraction_along=0.5, post_fraction_along=0.5, pre_component="silent0",
                         post_component="gs0")
                if rng.random() < 0.5:
                    cp.continuous_connection_instances.append(n.ContinuousConnectionInstance(**a))
                else:
                    cp.continuous_connection_instance_ws.append(
                        n.ContinuousConnectionInstanceW(weight=rng.choice([0.5, 2.0]), **a))
        net.continuous_projections.append(cp)
    for i in range(rng.randint(0, 2) if not dangling else 1):
        tp = pick()
        il = n.InputList(id="il%d" % i, component="pg0", populations=tp[0])
        for k in range(rng.randint(1, 3)):
            a = dict(id=k, target=cell_path(tp[0], rng.randrange(tp[3]), tp[1], tp[2]), destination="synapses")
            if rng.random() < 0.3:
                a["segment_id"] = 2
            if rng.random() < 0.3:
                a["fraction_along"] = 0.25
            if rng.random() < 0.6:
                il.input.append(n.Input(**a))
            else:
                il.input_ws.append(n.InputW(weight=rng.choice([0.5, 2.0]), **a))
        net.input_lists.append(il)
    return d


def doc_xml(doc):
    import neuroml.writers as W
    buf = io.StringIO()
    W.NeuroMLWriter.write(doc, buf, close=False)
    return buf.getvalue()


def write_fileset(rng, root, tag, seedling):
    """files of one set under root/<tag>/ ; returns {key: relative path} and the recipe (for replay)"""
    import neuroml as n
    import neuroml.loaders  # noqa: F401  (nml.py's exportHdf5 uses neuroml.utils without importing it)
    import neuroml.utils  # noqa: F401
    import neuroml.writers as W
    d = os.path.join(root, tag)
    os.makedirs(os.path.join(d, "sub"), exist_ok=True)
    r = __import__("random").Random(seedling)
    net = gen_net(r, tag, rich=True)
    simple = gen_net(r, tag, rich=False)           # no electrical / continuous projections: optimized HDF5 can load it
    bad = gen_net(r, tag, rich=False, dangling=True)
    files = {}
    W.NeuroMLWriter.write(net, os.path.join(d, "net.nml"))
    W.NeuroMLHdf5Writer.write(net, os.path.join(d, "net.nml.h5"))
    W.NeuroMLWriter.write(simple, os.path.join(d, "simple.nml"))
    W.NeuroMLHdf5Writer.write(simple, os.path.join(d, "simple.nml.h5"))
    W.NeuroMLWriter.write(bad, os.path.join(d, "bad.nml"))
    W.NeuroMLHdf5Writer.write(bad, os.path.join(d, "bad.nml.h5"))
    # include chain: main.nml -> sub/cells.nml -> sub/more.nml ; main.nml -> simple.nml.h5
    more = n.NeuroMLDocument(id="more" + tag)
    more.iaf_cells.append(n.IafCell(id="iaf0", leak_reversal="-50mV", thresh="-55mV", reset="-70mV", C="0.2nF",
                                    leak_conductance="0.0%duS" % r.randint(1, 9)))
    W.NeuroMLWriter.write(more, os.path.join(d, "sub", "more.nml"))
    cellsdoc = n.NeuroMLDocument(id="cells" + tag)
    cellsdoc.includes.append(n.IncludeType(href="more.nml"))
    cellsdoc.izhikevich_cells.append(n.IzhikevichCell(id="incCell", v0="-70mV", thresh="30mV", a="0.02", b="0.2",
                                                      c="-65", d=str(r.randint(1, 9))))
    W.NeuroMLWriter.write(cellsdoc, os.path.join(d, "sub", "cells.nml"))
    main = n.NeuroMLDocument(id="main" + tag)
    main.includes.append(n.IncludeType(href="sub/cells.nml"))
    main.includes.append(n.IncludeType(href="simple.nml.h5"))
    main.pulse_generators.append(n.PulseGenerator(id="pgMain", delay="0ms", duration="%dms" % r.randint(1, 9),
                                                  amplitude="1nA"))
    W.NeuroMLWriter.write(main, os.path.join(d, "main.nml"))
    # a network whose cell lives in an included file (the XML parser resolves it through the includes)
    netinc = n.NeuroMLDocument(id="netinc" + tag)
    netinc.includes.append(n.IncludeType(href="sub/cells.nml"))
    nw = n.Network(id="netinc" + tag)
    netinc.networks.append(nw)
    pp = n.Population(id="pop0", component="incCell", size=r.randint(1, 3), type="populationList")
    for k in range(pp.size):
        ins = n.Instance(id=k)
        ins.location = n.Location(x=float(k), y=float(r.randint(0, 9)), z=0.0)
        pp.instances.append(ins)
    nw.populations.append(pp)
    W.NeuroMLWriter.write(netinc, os.path.join(d, "netinc.nml"))
    # an array morphology file
    try:
        import numpy as np
        from neuroml import arraymorph as am
        k = r.randint(2, 5)
        verts = [[float(i), float(r.randint(0, 5)), 0.0, 1.0] for i in range(k)]
        conn = [-1] + [r.randint(0, i) for i in range(k - 1)]
        morph = am.ArrayMorphology(vertices=verts, connectivity=conn, id="am" + tag)
        W.ArrayMorphWriter.write(morph, os.path.join(d, "morph.h5"))
    except Exception:
        pass
    _close_tables()
    return d


def _close_tables():
    try:
        import tables
        tables.file._open_files.close_all()
    except Exception:
        pass


# ------------------------------------------------------------------------------------------------ dumps
SKIP_ATTRS = {"parent_object_", "gds_elementtree_node_", "gds_collector_"}


def deep_dump(o, seen=None, depth=0):
    """canonical structural dump of an arbitrary object graph (no addresses; floats as repr; first-visit numbering)"""
    if seen is None:
        seen = {}
    if o is None or isinstance(o, (bool, int, str)):
        return o
    if isinstance(o, float):
        return "f:" + repr(o)
    if isinstance(o, bytes):
        return "b:" + o.decode("latin1")
    tn = type(o).__module__ + "." + type(o).__name__
    if tn.startswith("numpy."):
        import numpy as np
        if isinstance(o, np.ndarray):
            return {"nd": str(o.dtype), "shape": list(o.shape), "v": [deep_dump(x, seen, depth + 1) for x in o.tolist()]}
        if isinstance(o, np.generic):
            return "np:%s:%r" % (o.dtype, o.item())
    if isinstance(o, (list, tuple)):
        return [deep_dump(x, seen, depth + 1) for x in o]
    if isinstance(o, dict):
        return {"dict": sorted(([str(k), deep_dump(v, seen, depth + 1)] for k, v in o.items()), key=lambda kv: kv[0])}
    if isinstance(o, (set, frozenset)):
        return {"set": sorted(json.dumps(deep_dump(x, seen, depth + 1), sort_keys=True) for x in o)}
    if tn.startswith("lxml.") or callable(o) and not hasattr(o, "__dict__"):
        return "<%s>" % tn
    if id(o) in seen:
        return {"ref": seen[id(o)]}
    seen[id(o)] = len(seen)
    if depth > 60:
        return "<deep>"
    d = getattr(o, "__dict__", None)
    if d is None:
        return "<%s>" % tn
    out = {"cls": type(o).__name__}
    for k in sorted(d):
        if k in SKIP_ATTRS:
            continue
        out[k] = deep_dump(d[k], seen, depth + 1)
    return out


def exc_tag(e):
    s = str(e)
    s = re.sub(r"/[^\s'\"]*/", "<dir>/", s)        # no temp-dir names
    s = re.sub(r"0x[0-9a-f]+", "0x", s)
    return "%s:%s" % (type(e).__name__, s[:90])


# ------------------------------------------------------------------------------------------------ actions (real code)
ENTRIES = ["NeuroMLLoader.load", "NeuroMLHdf5Loader.load", "NeuroMLHdf5Loader.load[optimized]", "read_neuroml2_file",
           "read_neuroml2_file[includes]", "read_neuroml2_file[h5]", "read_neuroml2_file[h5,optimized]",
           "read_neuroml2_string", "read_neuroml2_string[includes]", "ArrayMorphLoader.load",
           "NeuroMLXMLParser+NetworkBuilder", "NeuroMLHdf5Parser+NetworkBuilder", "NeuroMLHdf5Loader.load[bad]",
           "NeuroMLXMLParser+NetworkBuilder[bad]", "read_neuroml2_file[xml-simple]",
           "NeuroMLXMLParser+NetworkBuilder[includes]", "read_neuroml2_file[netinc]"]


def perform(entry, d, cwd_neutral=True):
    """run one loader action on the file set in directory d; returns the loaded object or raises"""
    import neuroml.loaders as L
    p = lambda *a: os.path.join(d, *a)
    if entry == "NeuroMLLoader.load":
        return L.NeuroMLLoader.load(p("net.nml"))
    if entry == "NeuroMLHdf5Loader.load":
        return L.NeuroMLHdf5Loader.load(p("net.nml.h5"))
    if entry == "NeuroMLHdf5Loader.load[bad]":
        return L.NeuroMLHdf5Loader.load(p("bad.nml.h5"))
    if entry == "NeuroMLHdf5Loader.load[optimized]":
        return L.NeuroMLHdf5Loader.load(p("simple.nml.h5"), optimized=True)
    if entry == "read_neuroml2_file":
        return L.read_neuroml2_file(p("net.nml"))
    if entry == "read_neuroml2_file[xml-simple]":
        return L.read_neuroml2_file(p("simple.nml"), include_includes=True)
    if entry == "read_neuroml2_file[netinc]":
        return L.read_neuroml2_file(p("netinc.nml"), include_includes=True)
    if entry == "read_neuroml2_file[includes]":
        return L.read_neuroml2_file(p("main.nml"), include_includes=True)
    if entry == "read_neuroml2_file[h5]":
        return L.read_neuroml2_file(p("net.nml.h5"), include_includes=True)
    if entry == "read_neuroml2_file[h5,optimized]":
        return L.read_neuroml2_file(p("simple.nml.h5"), optimized=True)
    if entry == "read_neuroml2_string":
        with open(p("net.nml")) as fh:
            return L.read_neuroml2_string(fh.read())
    if entry == "read_neuroml2_string[includes]":
        with open(p("main.nml")) as fh:
            return L.read_neuroml2_string(fh.read(), include_includes=True, base_path=d)
    if entry == "ArrayMorphLoader.load":
        return L.ArrayMorphLoader.load(p("morph.h5"))
    if entry.startswith("NeuroMLXMLParser+NetworkBuilder"):
        from neuroml.hdf5.NetworkBuilder import NetworkBuilder
        from neuroml.hdf5.NeuroMLXMLParser import NeuroMLXMLParser
        b = NetworkBuilder()
        NeuroMLXMLParser(b).parse(p("bad.nml" if entry.endswith("[bad]") else
                                    ("netinc.nml" if entry.endswith("[includes]") else "net.nml")))
        return b.get_nml_doc()
    if entry == "NeuroMLHdf5Parser+NetworkBuilder":
        from neuroml.hdf5.NetworkBuilder import NetworkBuilder
        from neuroml.hdf5.NeuroMLHdf5Parser import NeuroMLHdf5Parser
        b = NetworkBuilder()
        NeuroMLHdf5Parser(b).parse(p("net.nml.h5"))
        return b.get_nml_doc()
    raise ValueError(entry)


def run_action(entry, d):
    """-> canonical result {"res": "ok", "dump":.., "xml": sha} | {"res": "exc:.."}; never raises"""
    out = None
    sink = io.StringIO()
    with contextlib.redirect_stdout(sink), contextlib.redirect_stderr(sink):
        try:
            doc = perform(entry, d)
            dump = deep_dump(doc)
            try:
                xml = hashlib.sha1(doc_xml(doc).encode()).hexdigest()
            except Exception as e:      # optimized containers cannot always be exported: that is a result, too
                xml = "exc:" + exc_tag(e)
            out = {"res": "ok", "dump": dump, "xml": xml}
            _scribble(doc)
        except SystemExit:
            out = {"res": "exc:SystemExit"}
        except BaseException as e:   # noqa
            out = {"res": "exc:" + exc_tag(e)}
        finally:
            _close_tables()
    return out


def _scribble(doc):
    """mutate the returned document after it has been dumped: a later load must not hand the same objects back"""
    try:
        doc.id = "SCRIBBLED"
        doc.notes = "scribbled"
        for net in list(getattr(doc, "networks", [])):
            net.id = "SCRIBBLED"
            for pop in list(net.populations):
                pop.component = "SCRIBBLED"
        for c in list(getattr(doc, "izhikevich_cells", [])):
            c.d = "99"
        if getattr(doc, "izhikevich_cells", None):
            del doc.izhikevich_cells[:]
    except Exception:
        pass


def use_containers():
    """other library use between loads: build an optimized population by hand and iterate it"""
    import neuroml as n
    from neuroml.hdf5.NetworkContainer import InputListContainer, PopulationContainer, ProjectionContainer
    sink = io.StringIO()
    with contextlib.redirect_stdout(sink), contextlib.redirect_stderr(sink):
        pc = PopulationContainer(id="hand", component="izzy")
        for k in range(2):
            inst = n.Instance(id=k)
            inst.location = n.Location(x=1.0 * k, y=2.0, z=3.0)
            pc.instances.append(inst)
        for _ in pc.instances:
            pass
        prc = ProjectionContainer(id="hp", presynaptic_population="hand", postsynaptic_population="hand", synapse="s")
        prc.connections.append(n.Connection(id=0, pre_cell_id="../hand/0/izzy", post_cell_id="../hand/1/izzy"))
        for _ in prc.connections:
            pass


def fresh_reference(entry, d):
    """the same action in a fresh interpreter"""
    code = ("import sys, json; sys.path.insert(0, %r); sys.path.insert(0, %r); sys.path.insert(0, %r); "
            "from props import c07; print('@@' + json.dumps(c07.run_action(%r, %r)))") % (
                HARNESS, os.path.join(HARNESS), fw.REPO, entry, d)
    env = dict(os.environ)
    env["VERIF_REPO"] = fw.REPO
    p = subprocess.run(["/venv/bin/python", "-c", code], stdout=subprocess.PIPE, stderr=subprocess.PIPE, text=True,
                       env=env, cwd=d, timeout=600)
    for line in p.stdout.split("\n"):
        if line.startswith("@@"):
            return json.loads(line[2:])
    return {"res": "subprocess-failed", "stderr": p.stderr[-400:]}


def first_diff(a, b, path=""):
    if type(a) != type(b):
        return "%s: %r vs %r" % (path, str(a)[:80], str(b)[:80])
    if isinstance(a, dict):
        for k in sorted(set(a) | set(b)):
            if k not in a or k not in b:
                return "%s.%s: only on one side" % (path, k)
            r = first_diff(a[k], b[k], path + "." + str(k))
            if r:
                return r
        return None
    if isinstance(a, list):
        if len(a) != len(b):
            return "%s: length %d vs %d" % (path, len(a), len(b))
        for i, (x, y) in enumerate(zip(a, b)):
            r = first_diff(x, y, "%s[%d]" % (path, i))
            if r:
                return r
        return None
    return None if a == b else "%s: %r vs %r" % (path, a, b)


# ------------------------------------------------------------------------------------------------ history stream
def gen_session(rng, nsteps):
    """a history: steps are ("load", set, entry) | ("rewrite", set) | ("use",)"""
    seeds = {"A": rng.randrange(10 ** 6), "B": rng.randrange(10 ** 6)}
    steps = []
    pool = [e for e in ENTRIES]
    focus = rng.sample(pool, 3)
    for i in range(nsteps):
        r = rng.random()
        if r < 0.08:
            steps.append(["use"])
        elif r < 0.16:
            steps.append(["rewrite", rng.choice("AB"), rng.randrange(10 ** 6)])
        else:
            e = rng.choice(focus) if rng.random() < 0.6 else rng.choice(pool)
            steps.append(["load", rng.choice("AB"), e])
    return {"seeds": seeds, "steps": steps}


def run_session(ctx, sess, pool):
    root = tempfile.mkdtemp(prefix="verif_c07_")
    old_cwd = os.getcwd()
    try:
        sink = io.StringIO()
        dirs, version = {}, {}
        with contextlib.redirect_stdout(sink), contextlib.redirect_stderr(sink):
            for tag in "AB":
                dirs[tag] = write_fileset(ctx.rng, root, tag, sess["seeds"][tag])
                version[tag] = sess["seeds"][tag]
        os.chdir(root)
        results, refjobs = [], {}
        loaded_before = []
        for si, st in enumerate(sess["steps"]):
            if st[0] == "use":
                use_containers()
                loaded_before.append("use")
                continue
            if st[0] == "rewrite":
                # the reference for the old content must be taken before the files change
                for k, fut in list(refjobs.items()):
                    if k[0] == st[1]:
                        fut.result()
                with contextlib.redirect_stdout(sink), contextlib.redirect_stderr(sink):
                    shutil.rmtree(dirs[st[1]])
                    write_fileset(ctx.rng, root, st[1], st[2])
                version[st[1]] = st[2]
                continue
            _, tag, entry = st
            key = (tag, version[tag], entry)
            if key not in refjobs:
                refjobs[key] = pool.submit(fresh_reference, entry, dirs[tag])
                if any(k[0] == tag for k in refjobs):
                    pass
            got = run_action(entry, dirs[tag])
            repeat = any(x == (tag, version[tag], entry) for x in loaded_before if x != "use")
            other = any(x != (tag, version[tag], entry) for x in loaded_before)
            results.append((si, key, got, repeat, other))
            loaded_before.append(key)
            # a rewrite may follow: make sure the reference of this content is being computed now (it is: submitted)
        for si, key, got, repeat, other in results:
            ref = refjobs[key].result()
            tag, ver, entry = key
            canon = {"seeds": sess["seeds"], "steps": sess["steps"][:si + 1]}
            ctx.seen(canon, nontrivial=(repeat or other))
            ctx.count("history:" + entry)
            ctx.count("history-res:" + got["res"].split(":")[0] + (":" + got["res"].split(":")[1] if got["res"] != "ok" else ""))
            if repeat:
                ctx.count("history:repeat")
            if ref.get("res") == "subprocess-failed":
                ctx.disagree("fresh-process", {"entry": entry}, ref, None)
                continue
            if got != ref:
                what = first_diff(got, ref) or "results differ"
                ctx.fail("C07:history:" + entry,
                         "%s gives a different result than in a fresh process (step %d of the session): %s" % (entry, si, what),
                         {"kind": "history", "session": {"seeds": sess["seeds"], "steps": sess["steps"][:si + 1]},
                          "diff": what, "in_process": got["res"], "fresh": ref["res"]})
        ctx.sample({"history": [s if s[0] != "load" else [s[1], s[2]] for s in sess["steps"]][:8]})
    finally:
        os.chdir(old_cwd)
        shutil.rmtree(root, ignore_errors=True)


# ------------------------------------------------------------------------------------------------ interleaving stream
HANDLERS = ["handle_document_start", "handle_network", "handle_population", "handle_location", "handle_projection",
            "finalise_projection", "handle_connection", "handle_input_list", "handle_single_input",
            "finalise_input_source"]


def make_recorder():
    from neuroml.hdf5.DefaultNetworkHandler import DefaultNetworkHandler

    class Recorder(DefaultNetworkHandler):
        def __init__(self):
            self.calls = []

    def mk(name):
        def f(self, *a, **kw):
            self.calls.append((name, a, kw))
        return f
    for h in HANDLERS:
        setattr(Recorder, h, mk(h))
    # handle_population is inspected for a `properties` argument by both parsers
    def handle_population(self, population_id, component, size=-1, component_obj=None, properties={}, notes=None):
        self.calls.append(("handle_population", (population_id, component, size),
                           {"component_obj": component_obj, "properties": dict(properties), "notes": notes}))
    Recorder.handle_population = handle_population
    return Recorder()


def record(kind, path):
    rec = make_recorder()
    sink = io.StringIO()
    with contextlib.redirect_stdout(sink), contextlib.redirect_stderr(sink):
        if kind == "h5":
            from neuroml.hdf5.NeuroMLHdf5Parser import NeuroMLHdf5Parser
            NeuroMLHdf5Parser(rec).parse(path)
        else:
            from neuroml.hdf5.NeuroMLXMLParser import NeuroMLXMLParser
            NeuroMLXMLParser(rec).parse(path)
    _close_tables()
    return rec.calls


def bind(name, a, kw):
    """normalise a recorded call to keyword form using NetworkBuilder's signature"""
    import inspect
    from neuroml.hdf5.NetworkBuilder import NetworkBuilder
    sig = inspect.signature(getattr(NetworkBuilder, name))
    ba = sig.bind(None, *a, **kw)
    ba.apply_defaults()
    d = dict(ba.arguments)
    d.pop("self", None)
    return d


def tok(o):
    return None if o is None else "%s:%s" % (type(o).__name__, o.id)


def s_(x):
    return "%s" % (x,)


def encode_call(name, a, kw):
    """recorded handler call -> line-protocol call of Drivers/C07.lean"""
    d = bind(name, a, kw)
    if name == "handle_document_start":
        return {"k": "docStart", "id": d["id"], "notes": d["notes"]}
    if name == "handle_network":
        return {"k": "network", "id": d["network_id"], "notes": d["notes"], "temperature": d["temperature"]}
    if name == "handle_population":
        return {"k": "population", "id": d["population_id"], "comp": d["component"], "size": int(d["size"]),
                "compObj": tok(d["component_obj"]), "props": [[str(k), str(v)] for k, v in d["properties"].items()],
                "notes": d["notes"]}
    if name == "handle_location":
        xyz = None if (d["x"] is None or d["y"] is None or d["z"] is None) else [repr(d["x"]), repr(d["y"]), repr(d["z"])]
        return {"k": "location", "id": s_(d["id"]), "pop": d["population_id"], "xyz": xyz}
    if name == "handle_projection":
        so, po = d["synapse_obj"], d["pre_synapse_obj"]
        return {"k": "projection", "id": d["id"], "pre": d["prePop"], "post": d["postPop"], "syn": d["synapse"],
                "hasWD": bool(d["hasWeights"] or d["hasDelays"]), "typ": d["type"],
                "synObj": None if so is None else [tok(so), so.id], "preSynObj": None if po is None else [tok(po), po.id]}
    if name == "finalise_projection":
        return {"k": "finaliseProjection", "id": d["id"], "pre": d["prePop"], "post": d["postPop"], "syn": d["synapse"],
                "typ": d["type"]}
    if name == "handle_connection":
        return {"k": "connection", "proj": d["proj_id"], "connId": s_(d["conn_id"]), "pre": d["prePop"], "post": d["postPop"],
                "preCell": int(d["preCellId"]), "postCell": int(d["postCellId"]), "preSeg": s_(d["preSegId"]),
                "postSeg": s_(d["postSegId"]), "preFract": s_(d["preFract"]), "postFract": s_(d["postFract"]),
                "delay": s_(d["delay"]), "delayIsZero": bool(d["delay"] == 0), "weight": s_(d["weight"]),
                "weightIsOne": bool(d["weight"] == 1)}
    if name == "handle_input_list":
        return {"k": "inputList", "id": d["inputListId"], "pop": d["population_id"], "comp": d["component"],
                "compObj": tok(d["input_comp_obj"])}
    if name == "handle_single_input":
        return {"k": "singleInput", "list": d["inputListId"], "id": s_(d["id"]), "cell": int(d["cellId"]),
                "seg": s_(d["segId"]), "segIsZero": bool(d["segId"] == 0), "fract": s_(d["fract"]),
                "fractIsHalf": bool(d["fract"] == 0.5), "weight": s_(d["weight"]), "weightIsOne": bool(d["weight"] == 1)}
    if name == "finalise_input_source":
        return {"k": "finaliseInputSource", "id": d["inputName"]}
    raise ValueError(name)


STANDALONE_SKIP = {"networks", "includes"}


def bdump(doc, err=None):
    """builder document in the shape Drivers/C07.lean prints"""
    if doc is None:
        return {"id": None, "notes": None, "comps": [], "nets": [], "err": err}
    comps = []
    for m in doc.member_data_items_:
        nm = m.get_name()
        if nm in STANDALONE_SKIP or not m.get_container():
            continue
        for o in getattr(doc, nm) or []:
            comps.append("%s:%s" % (type(o).__name__, getattr(o, "id", None)))
    nets = []
    for net in doc.networks:
        pops = [{"id": p.id, "component": p.component, "size": s_(int(p.size)), "type": p.type, "notes": p.notes,
                 "props": [[q.tag, q.value] for q in p.properties],
                 "instances": [[s_(i.id), repr(i.location.x), repr(i.location.y), repr(i.location.z)] for i in p.instances]}
                for p in net.populations]
        projs = []
        for p in net.projections:
            cs = [["c", s_(c.id), c.pre_cell_id, s_(c.pre_segment_id), s_(c.pre_fraction_along), c.post_cell_id,
                   s_(c.post_segment_id), s_(c.post_fraction_along)] for c in p.connections]
            cs += [["cwd", s_(c.id), c.pre_cell_id, s_(c.pre_segment_id), s_(c.pre_fraction_along), c.post_cell_id,
                    s_(c.post_segment_id), s_(c.post_fraction_along), s_(c.weight), s_(c.delay)] for c in p.connection_wds]
            projs.append({"kind": "projection", "id": p.id, "pre": p.presynaptic_population,
                          "post": p.postsynaptic_population, "synapse": p.synapse, "conns": cs})
        for p in net.electrical_projections:
            def e(tag, c, w=False):
                return [tag, s_(c.id), c.pre_cell, s_(c.pre_segment), s_(c.pre_fraction_along), c.post_cell,
                        s_(c.post_segment), s_(c.post_fraction_along), s_(c.synapse)] + ([s_(c.weight)] if w else [])
            cs = [e("ec", c) for c in p.electrical_connections]
            cs += [e("eci", c) for c in p.electrical_connection_instances]
            cs += [e("eciw", c, True) for c in p.electrical_connection_instance_ws]
            projs.append({"kind": "electricalProjection", "id": p.id, "pre": p.presynaptic_population,
                          "post": p.postsynaptic_population, "synapse": None, "conns": cs})
        for p in net.continuous_projections:
            def cc(tag, c, w=False):
                return [tag, s_(c.id), c.pre_cell, s_(c.pre_segment), s_(c.pre_fraction_along), c.post_cell,
                        s_(c.post_segment), s_(c.post_fraction_along), s_(c.pre_component), s_(c.post_component)] + (
                            [s_(c.weight)] if w else [])
            cs = [cc("cc", c) for c in p.continuous_connections]
            cs += [cc("cci", c) for c in p.continuous_connection_instances]
            cs += [cc("cciw", c, True) for c in p.continuous_connection_instance_ws]
            projs.append({"kind": "continuousProjection", "id": p.id, "pre": p.presynaptic_population,
                          "post": p.postsynaptic_population, "synapse": None, "conns": cs})
        ils = []
        for l in net.input_lists:
            ins = [["i", s_(i.id), i.target, s_(i.segment_id), s_(i.fraction_along)] for i in l.input]
            ins += [["iw", s_(i.id), i.target, s_(i.segment_id), s_(i.fraction_along), s_(i.weight)] for i in l.input_ws]
            ils.append({"id": l.id, "component": l.component, "populations": l.populations, "inputs": ins})
        nets.append({"id": net.id, "notes": net.notes, "temperature": net.temperature, "pops": pops, "projs": projs,
                     "ilists": ils})
    return {"id": doc.id, "notes": doc.notes, "comps": sorted(comps), "nets": nets, "err": err}


def reset_shared():
    """put the class-level mutable attributes of NetworkBuilder that the translator found back to their initial
    (empty) value, so that every replay -- like the model -- starts from the initial shared state and a replay file
    reproduces on its own.  Nothing to do on a tree without such attributes."""
    from neuroml.hdf5.NetworkBuilder import NetworkBuilder
    pre = "neuroml/hdf5/NetworkBuilder.py::NetworkBuilder."
    for v in _GLUE.get("side", {}).get("vars", []):
        if v["name"].startswith(pre) and v["kind"] == "classAttr" and v["mut"] in ("mut", "unk"):
            o = NetworkBuilder.__dict__.get(v["name"][len(pre):])
            if isinstance(o, (dict, list, set)):
                o.clear()


def replay_schedule(calls_a, calls_b, sched):
    """two fresh NetworkBuilder instances stepped through the merge `sched` (list of booleans: True = A's next call)"""
    from neuroml.hdf5.NetworkBuilder import NetworkBuilder
    sink = io.StringIO()
    reset_shared()
    with contextlib.redirect_stdout(sink), contextlib.redirect_stderr(sink):
        ba, bb = NetworkBuilder(), NetworkBuilder()
        qa, qb = copy.deepcopy(calls_a), copy.deepcopy(calls_b)
        err = {True: None, False: None}
        ia = ib = 0
        order = []
        s = list(sched)
        while ia < len(qa) or ib < len(qb):
            if ia < len(qa) and ib < len(qb):
                who = s.pop(0) if s else True
            else:
                who = ia < len(qa)
            order.append(who)
            b, q, i = (ba, qa, ia) if who else (bb, qb, ib)
            if who:
                ia += 1
            else:
                ib += 1
            if err[who] is not None:
                continue
            name, a, kw = q[i]
            try:
                getattr(b, name)(*a, **kw)
            except Exception as e:   # noqa
                err[who] = type(e).__name__
        da = bdump(getattr(ba, "nml_doc", None), err[True])
        db = bdump(getattr(bb, "nml_doc", None), err[False])
        deep = (deep_dump(getattr(ba, "nml_doc", None)), deep_dump(getattr(bb, "nml_doc", None)))
    return da, db, deep, order


def gen_schedule(rng, na, nb):
    style = rng.choice(["alternate", "blocks", "random", "b-first-decl", "a-first", "b-first"])
    if style == "alternate":
        return [i % 2 == 0 for i in range(na + nb)]
    if style == "blocks":
        out, cur = [], rng.random() < 0.5
        while len(out) < na + nb:
            out += [cur] * rng.randint(1, 5)
            cur = not cur
        return out
    if style == "random":
        return [rng.random() < 0.5 for _ in range(na + nb)]
    if style == "b-first-decl":     # A declares, then B runs completely, then A continues
        k = rng.randint(1, max(1, na - 1))
        return [True] * k + [False] * nb + [True] * na
    if style == "a-first":
        return [True] * na + [False] * nb
    return [False] * nb + [True] * na


def declared_ids(calls):
    ids = set()
    for name, a, kw in calls:
        if name in ("handle_population", "handle_projection", "handle_input_list"):
            ids.add((name, a[0] if a else None))
    return ids


def interleave_case(ctx, case):
    """case = {"seedA","seedB","kinds":[kA,kB],"scheds":[..]} -> real vs solo, model vs real"""
    import neuroml.loaders  # noqa: F401
    import neuroml.utils  # noqa: F401
    import neuroml.writers as W
    root = tempfile.mkdtemp(prefix="verif_c07i_")
    try:
        rnd = __import__("random").Random
        sink = io.StringIO()
        paths = []
        with contextlib.redirect_stdout(sink), contextlib.redirect_stderr(sink):
            for tag, seed, kind in (("A", case["seedA"], case["kinds"][0]), ("B", case["seedB"], case["kinds"][1])):
                doc = gen_net(rnd(seed), tag, rich=True, dangling=bool(case.get("dangling", {}).get(tag)))
                p = os.path.join(root, "n%s.nml%s" % (tag, ".h5" if kind == "h5" else ""))
                (W.NeuroMLHdf5Writer if kind == "h5" else W.NeuroMLWriter).write(doc, p)
                paths.append(p)
        _close_tables()
        calls = [record(case["kinds"][0], paths[0]), record(case["kinds"][1], paths[1])]
        # solo documents
        sa, _, deep_a, _ = replay_schedule(calls[0], [], [])
        _, sb, deep_b, _ = replay_schedule([], calls[1], [])
        solo_deep = (deep_a[0], deep_b[1])
        common = bool(declared_ids(calls[0]) & declared_ids(calls[1]))
        lines, reals = [], []
        enc = [[encode_call(*c) for c in calls[0]], [encode_call(*c) for c in calls[1]]]
        for sched in case["scheds"]:
            da, db, deep, order = replay_schedule(calls[0], calls[1], sched)
            alternates = sum(1 for i in range(1, len(order)) if order[i] != order[i - 1]) >= 2
            canon = {"A": case["seedA"], "B": case["seedB"], "kinds": case["kinds"], "order": order,
                     "dangling": case.get("dangling")}
            ctx.seen(canon, nontrivial=common and alternates)
            ctx.count("interleave:%s+%s" % tuple(case["kinds"]))
            if common:
                ctx.count("interleave:common-ids")
            ok = (da == sa and db == sb and deep[0] == solo_deep[0] and deep[1] == solo_deep[1])
            if not ok:
                what = first_diff(da, sa, "A") or first_diff(db, sb, "B") or first_diff(deep[0], solo_deep[0], "A*") \
                    or first_diff(deep[1], solo_deep[1], "B*")
                ctx.fail("C07:interleave:%s+%s" % tuple(case["kinds"]),
                         "two NetworkBuilder instances stepped in an interleaving do not build their solo documents: %s" % what,
                         {"kind": "interleave", "case": dict(case, scheds=[sched]), "diff": what})
            lines.append(json.dumps({"op": "interleave", "a": enc[0], "b": enc[1], "sched": [bool(x) for x in order]}))
            reals.append((da, db, order))
        # correspondence with the Lean model is evaluated in one batch (flush_model)
        _PENDING.append((case, lines, reals, sa, sb))
        ctx.sample({"interleave": case["kinds"], "calls": [len(calls[0]), len(calls[1])], "common_ids": common})
    finally:
        _close_tables()
        shutil.rmtree(root, ignore_errors=True)


_PENDING = []


def flush_model(ctx):
    """the pending interleavings through the Lean model (sharing configuration read off the extracted table)"""
    lines = [l for (_, ls, _, _, _) in _PENDING for l in ls]
    if not lines:
        return
    rc, out = fw.run_driver("C07", lines)
    if rc != 0 or len(out) != len(lines):
        ctx.disagree("driver", {"n": len(lines)}, "rc=%s %s" % (rc, "\n".join(out[-3:])[:300]), None)
        del _PENDING[:]
        return
    k = 0
    for case, ls, reals, sa, sb in _PENDING:
        for (da, db, order), l in zip(reals, out[k:k + len(ls)]):
            m = json.loads(l)
            ctx.corr_evals += 1
            if m.get("error"):
                ctx.disagree("builder-model", {"case": case, "order": order}, "real ok", m)
                continue
            if m["a"] != da or m["b"] != db or m["soloA"] != sa or m["soloB"] != sb:
                d = first_diff(m["a"], da, "a") or first_diff(m["b"], db, "b") or first_diff(m["soloA"], sa, "soloA") \
                    or first_diff(m["soloB"], sb, "soloB")
                ctx.disagree("builder-model", {"case": dict(case, scheds=[[bool(x) for x in order]]),
                                               "diff(model vs real)": d}, {"a": da, "b": db}, {"a": m["a"], "b": m["b"]})
        k += len(ls)
    del _PENDING[:]


def gen_interleave_case(rng, nsched):
    kinds = rng.choice([["h5", "xml"], ["h5", "xml"], ["xml", "h5"], ["h5", "h5"], ["xml", "xml"]])
    case = {"seedA": rng.randrange(10 ** 6), "seedB": rng.randrange(10 ** 6), "kinds": kinds, "scheds": []}
    if rng.random() < 0.15:
        case["dangling"] = {rng.choice("AB"): True}
    for _ in range(nsched):
        case["scheds"].append(gen_schedule(rng, 40, 40))
    return case


# ------------------------------------------------------------------------------------------------ corpus / run / replay
CORPUS = [
    # the reproduction of the class-level tables: common population ids, B declared between A's declaration and A's locations
    {"kind": "interleave", "case": {"seedA": 11, "seedB": 12, "kinds": ["h5", "xml"],
                                    "scheds": [[True] * 4 + [False] * 60 + [True] * 60, [i % 2 == 0 for i in range(120)]]}},
    {"kind": "interleave", "case": {"seedA": 5, "seedB": 6, "kinds": ["xml", "xml"],
                                    "scheds": [[True] * 3 + [False] * 60 + [True] * 60]}},
    # a file with a dangling population reference must fail the same way whether or not another file declaring that
    # population was loaded before (class-level tables made the second load succeed silently)
    {"kind": "history", "session": {"seeds": {"A": 101, "B": 102}, "steps": [
        ["load", "A", "NeuroMLHdf5Loader.load"], ["load", "A", "NeuroMLHdf5Loader.load[bad]"],
        ["load", "B", "NeuroMLXMLParser+NetworkBuilder"], ["load", "A", "NeuroMLXMLParser+NetworkBuilder[bad]"],
        ["load", "A", "NeuroMLHdf5Loader.load[bad]"], ["load", "B", "NeuroMLHdf5Loader.load"]]}},
    # string with includes twice (the repaired `already_included=[]` default), file rewritten in place in between
    {"kind": "history", "session": {"seeds": {"A": 7, "B": 8}, "steps": [
        ["load", "A", "read_neuroml2_string[includes]"], ["load", "A", "read_neuroml2_string[includes]"],
        ["load", "A", "read_neuroml2_file[includes]"], ["rewrite", "A", 99], ["load", "A", "read_neuroml2_file[includes]"],
        ["load", "A", "read_neuroml2_string[includes]"], ["load", "B", "read_neuroml2_file[includes]"]]}},
    # the XML parser resolves includes with a list of its own: twice, and after another file
    {"kind": "history", "session": {"seeds": {"A": 31, "B": 32}, "steps": [
        ["load", "A", "NeuroMLXMLParser+NetworkBuilder[includes]"], ["load", "A", "NeuroMLXMLParser+NetworkBuilder[includes]"],
        ["load", "B", "NeuroMLXMLParser+NetworkBuilder[includes]"], ["load", "A", "read_neuroml2_file[netinc]"],
        ["load", "A", "NeuroMLXMLParser+NetworkBuilder[includes]"]]}},
    # hand-built optimized containers used before an optimized load (`OptimizedList.__init__(indices={})`)
    {"kind": "history", "session": {"seeds": {"A": 21, "B": 22}, "steps": [
        ["use"], ["load", "A", "NeuroMLHdf5Loader.load[optimized]"], ["load", "B", "read_neuroml2_file[h5,optimized]"],
        ["use"], ["load", "A", "NeuroMLHdf5Loader.load[optimized]"], ["load", "A", "ArrayMorphLoader.load"],
        ["load", "B", "ArrayMorphLoader.load"], ["load", "A", "ArrayMorphLoader.load"]]}},
]


def check_table(ctx):
    """driver's reading of the generated table vs the translator's own"""
    rc, out = fw.run_driver("C07", [json.dumps({"op": "table"})])
    ctx.corr_evals += 1
    if rc != 0 or len(out) != 1:
        ctx.disagree("driver", "table", "rc=%s %s" % (rc, "\n".join(out[-3:])[:300]), None)
        return
    m = json.loads(out[0])
    ctx.extra["glue"]["model_cfg_shared_tables"] = m.get("cfg")
    if sorted(m.get("violating", [])) != _GLUE.get("violating", []) or not m.get("wf"):
        ctx.disagree("table", "violating variables", _GLUE.get("violating"), m)
    for v in _GLUE.get("violating", []):
        key = "C07:shared-mutable:" + v
        if key in fw.known_findings("C07"):
            ctx.fail(key, "shared mutable variable read before written: " + v, {"kind": "table", "var": v})


def run(ctx):
    if not _GLUE:
        regenerate(ctx)
    check_table(ctx)
    pool = ThreadPoolExecutor(max_workers=8)
    try:
        for c in CORPUS:
            if c["kind"] == "interleave":
                interleave_case(ctx, json.loads(json.dumps(c["case"])))
            else:
                run_session(ctx, json.loads(json.dumps(c["session"])), pool)
        ni = ctx.n(14, 120) * ctx.search_mult
        for _ in range(ni):
            interleave_case(ctx, gen_interleave_case(ctx.rng, ctx.n(4, 6)))
        flush_model(ctx)
        ns = ctx.n(7, 45) * ctx.search_mult
        for _ in range(ns):
            run_session(ctx, gen_session(ctx.rng, ctx.rng.randint(8, 16)), pool)
    finally:
        pool.shutdown(wait=True)


def replay(ctx, payload):
    case = payload.get("case", payload)
    if not _GLUE:
        try:
            regenerate(ctx)
        except Exception:
            pass
    pool = ThreadPoolExecutor(max_workers=4)
    try:
        if case.get("kind") == "interleave":
            interleave_case(ctx, case["case"])
            flush_model(ctx)
        elif case.get("kind") == "history":
            run_session(ctx, case["session"], pool)
        elif case.get("kind") == "table":
            return {"fails": case.get("var") in _GLUE.get("violating", []), "violating": _GLUE.get("violating")}
    finally:
        pool.shutdown(wait=True)
    return {"fails": bool(ctx.failures or ctx.corr_disagreements), "failures": ctx.failures,
            "disagreements": ctx.corr_disagreements}
