"""C07 — a load's result depends on its input alone: no history or interleaving effects.

Tie = translators + correspondence:
  * regenerate(): translators/glue_extract.py scans EVERY neuroml module a loader can import (import closure, checked in
    Lean: `c07_reach_scanned`) for shared mutable variables -- module globals, class attributes, mutable defaults, memo
    caches, configuration switches, and process-global state of other libraries reached through library calls (kind
    `external`: warnings filters, logging configuration, PyTables' open-file registry) -- and per-entry read-before-write
    / write summaries -> lean/NmlVerif/Gen/Glue.lean; `c07_table_ok` (Props/C07Gen.lean) fails on any violating variable
    outside Known ++ Benign ++ External ++ Env.  translators/handler_extract.py extracts the per-OBJECT attributes of
    NetworkBuilder / NeuroMLHdf5Parser / NeuroMLXMLParser -> Gen/Handlers.lean: every attribute a handler touches is
    instance-private (`c07_handlers_private`), the handlers' access pattern is the hand model's (`c07_handler_use_gen`),
    and what a REUSED object may see of its earlier uses (`c07_reuse_table_ok`).
  * run(): (a) HISTORY oracle on the real code: every loader entry point on generated files, repeated and after other
    files / other library use / flips of the build-time-validation switch / with ONE parser or builder object used
    for several files, each result compared with the result of the same call in a FRESH process (same switch);
    (b) INTERLEAVING oracles: ALL merges of two hand-made short handler-call sequences (one feature per builder table);
    sequences recorded from the two parsers replayed on two or three fresh builders under schedules from 11 strata;
    (c) OVERLAP oracle: loads that are active at the same time -- an HDF5 file including an HDF5 file, a load started
    from inside a handler call of another load (depth 1-2), the REAL parsers of 2-3 builds stepped in an interleaving
    (one thread each, the turn handed over at every handler call) -- each compared with the load made alone;
    (d) correspondence: the same merges / schedules / document sequences / file sequences through the Lean models
    (Drivers/C07.lean: NetBuilder with the extracted sharing configuration and reset variant, ParserReuse).
"""
import contextlib
import copy
import hashlib
import io
import json
import os
import re
import shutil
import subprocess
import sys
import tempfile
from concurrent.futures import ThreadPoolExecutor

import fw

import logging
logging.disable(logging.CRITICAL)      # the library logs through handlers bound to the real stderr

LEAN_PROPS = ["NmlVerif.Props.C07", "NmlVerif.Props.C07Gen"]
LEVEL = "proof"
RULE = ("history stream: sessions of 8-16 actions over two generated file sets with common ids (network XML/HDF5 "
        "files with instance/size populations, chemical/electrical/continuous projections, input lists, explicit "
        "inputs; include chains incl. an HDF5 include; strings with base_path; optimized HDF5; HDF5 without embedded "
        "XML / without a network; array morphologies; parser-driven NetworkBuilder builds; dangling-reference files; "
        "error paths (not NeuroML, missing file, unknown include extension, invalid document id); files rewritten in "
        "place; returned documents mutated after dumping; hand-built optimized containers used between loads; the "
        "build-time-validation switch flipped between loads; ONE parser / builder object used for several files), every "
        "action's deep dump compared with the dump of the same action in a fresh process under the same switch; "
        "non-trivial = the action is a repeat or follows a load of another file. interleaving streams: (crafted) ALL "
        "merges of two hand-made short handler-call sequences with the same ids and different content, one feature per "
        "table of the builder; (recorded) two or three handler-call sequences recorded from NeuroMLHdf5Parser / "
        "NeuroMLXMLParser (also: the same document through both parsers, old-interface handlers) replayed on fresh "
        "builders under schedules drawn from 11 strata; non-trivial = all sequences declare a common population / "
        "projection / input-list id and the schedule really alternates. reuse streams: 2-3 documents on one builder, "
        "2-4 files through one HDF5 parser object, each compared with new objects and with the model. overlap stream: "
        "HDF5 including HDF5, a load inside a handler call of another load (depth 1-2), the real parsers of 2-3 builds "
        "stepped at handler-call granularity, each load compared with the same load alone; distinct = "
        "distinct canonical (case, schedule) / (session, step)")
TRUST = [
    "translators/glue_extract.py (AST scan: name-based call/attribute resolution inside the scanned modules, alias and "
    "escape analysis, whitelists of pure builtins / reader methods / immutable constructors) and "
    "translators/handler_extract.py (per-object attribute analysis; methods called on attribute objects other than the "
    "known container mutators are taken as non-mutating, `netHandler.*` delegates are listed) are validated by the "
    "history, interleaving, overlap and reuse streams and by mutation testing, not verified; process-global state of "
    "OTHER libraries is in the table only where a loader reaches it through a listed configuration call or through a "
    "private member of an imported module (kind `external`, reviewed list `External`); what those libraries do "
    "internally (lxml, HDF5) is not -- `c07_reach_scanned` checks that every neuroml module a loader can import IS "
    "scanned",
    "the generic theorems speak about any semantics that Respects the extracted summaries; that the real code does is "
    "the translator's claim",
    "Model/NetBuilder.lean is a hand model of NetworkBuilder's handler methods tied by correspondence (all merges of "
    "short sequences, recorded sequences, document sequences on one builder) and by `c07_handler_use_gen` (extracted "
    "access pattern of every handler = the model's); Model/ParserReuse.lean models two attributes of the HDF5 parser",
]
ASSUMPTIONS = [
    "entry points are called sequentially in one process (no threads); 'at the same time' means interleaved handler "
    "calls of two (or more) builders, as in the property's quantifier: handler-call granularity",
    "the value of the configuration switch neuroml.build_time_validation.ENABLED is part of a load's input (hypothesis "
    "`henv` of c07_loaders_history_independent; example: a document whose id is no NmlId loads only while it is off)",
    "class objects are not rebound through variables holding a class (e.g. k = NetworkBuilder; k.x = ..) and shared "
    "state is not reached through getattr with computed names on classes/modules: such constructs are flagged opaque "
    "only in their syntactic forms (setattr on a class/module, globals()[..] =, __dict__ writes, exec/eval)",
    "files do not change while a load is running",
]
TABLE_OBLIGATIONS = ["violations(Gen.Glue.table) ⊆ Known ++ Benign ++ Env (c07_table_ok, decide +kernel)",
                     "violations(Gen.Handlers.reuseTable) ⊆ KnownReuse (c07_reuse_table_ok, decide)"]

GLUE_LEAN = os.path.join(fw.LEAN, "NmlVerif", "Gen", "Glue.lean")
HANDLERS_LEAN = os.path.join(fw.LEAN, "NmlVerif", "Gen", "Handlers.lean")
HARNESS = os.path.dirname(os.path.dirname(os.path.abspath(__file__)))
_GLUE = {}


# ------------------------------------------------------------------------------------------------ translator step
def _tree_key(repo):
    sys.path.insert(0, os.path.join(fw.VERIF, "translators"))
    import glue_extract as G
    h = hashlib.sha1()
    for m in G.MODULES:
        with open(os.path.join(repo, m), "rb") as fh:
            h.update(m.encode() + b"\0" + fh.read() + b"\0")
    with open(G.__file__, "rb") as fh:
        h.update(fh.read())
    h.update(repr(G.import_closure(repo)).encode())      # a new module in the reach changes the table
    return h.hexdigest(), G


def lean_list(name):
    src = open(fw.module_path("NmlVerif.Props.C07Gen")).read()
    m = re.search(r"def %s : List String :=\s*\[(.*?)\]\s*\n" % name, src, re.S)
    return sorted(re.findall(r'"([^"]*)"', m.group(1))) if m else None


def regenerate(ctx):
    """(re)write Gen/Glue.lean and Gen/Handlers.lean from fw.REPO's current tree.  The glue analysis is a pure function
    of the scanned sources and of the translator, so its output is memoised by their content hash (in lean/.lake, never
    committed); the handler analysis takes a fraction of a second and always runs."""
    key, G = _tree_key(fw.REPO)
    cdir = os.path.join(fw.LEAN, ".lake", "c07_glue_cache")
    os.makedirs(cdir, exist_ok=True)
    cj, cl = os.path.join(cdir, key + ".json"), os.path.join(cdir, key + ".lean")
    if os.path.exists(cj) and os.path.exists(cl) and not os.environ.get("VERIF_NO_CACHE"):
        side = json.load(open(cj))
        text = open(cl).read()
        if not os.path.exists(GLUE_LEAN) or open(GLUE_LEAN).read() != text:
            with open(GLUE_LEAN, "w") as fh:
                fh.write(text)
    else:
        w, table, stats = G.analyse(fw.REPO)
        side = G.emit(w, table, stats, GLUE_LEAN, cj)
        shutil.copyfile(GLUE_LEAN, cl)
    viol = G.violations(side)
    _GLUE.update(side=side, violating=sorted({v for _, v in viol}))
    written = sorted({v for e in side["entries"] for v in e["writes"]})
    inv = {}
    for v in side["vars"]:
        if v["mut"] in ("mut", "unk") or v["kind"] in ("mutDefault", "opaque"):
            k = "%s:%s" % (v["kind"], "written" if v["name"] in written else
                           ("some code may write it, no entry does" if v.get("candidate") else "never written"))
            inv[k] = inv.get(k, 0) + 1
    ctx.extra["glue"] = dict(stats=side["stats"], violating_vars=_GLUE["violating"], written=written, opaque=side["gaps"],
                             reach=side.get("reach"), scanned=side.get("scanned"), mutable_shared_inventory=inv,
                             env_entries=[e["name"] for e in side["entries"] if e.get("env")])
    gaps = ["opaque construct: " + g for g in side["gaps"]]
    known_json = sorted(k.split("C07:shared-mutable:", 1)[1] for k in fw.known_findings("C07")
                        if k.startswith("C07:shared-mutable:"))
    kl, benign, env = lean_list("Known"), lean_list("Benign") or [], lean_list("Env") or []
    external = lean_list("External") or []
    ctx.extra["glue"]["benign_memo_caches"] = benign
    ctx.extra["glue"]["configuration_switches"] = env
    ctx.extra["glue"]["external_state_reviewed"] = external
    ctx.extra["glue"]["external_state_found"] = sorted(v["name"] for v in side["vars"] if v["kind"] == "external")
    benign = benign + external
    if kl != known_json:
        gaps.append("Known list in Props/C07Gen.lean %r differs from known_findings.d/C07.json %r" % (kl, known_json))
    stale = [b for b in benign + env if b not in _GLUE["violating"]]
    if stale:
        ctx.notes.append("Benign / Env entries no longer reported by the scan (can be removed): %r" % stale)
    _GLUE["unexpected"] = [v for v in _GLUE["violating"] if v not in benign and v not in env and v not in known_json]
    ctx.extra["glue"]["unexpected_violating_vars"] = _GLUE["unexpected"]
    # ---- per-object state of the builder and the parsers
    import handler_extract as H
    hside = H.emit(H.analyse(fw.REPO), HANDLERS_LEAN)
    _GLUE["handlers"] = hside
    gaps += ["handler translator: " + g for g in hside["gaps"]]
    reuse_json = sorted({v for k, e in fw.known_findings("C07").items() if k.startswith("C07:reuse:")
                         for v in e.get("vars", [])})
    rl = lean_list("KnownReuse")
    if rl != reuse_json:
        gaps.append("KnownReuse list in Props/C07Gen.lean %r differs from the `vars` of the C07:reuse:* findings in "
                    "known_findings.d/C07.json %r" % (rl, reuse_json))
    ctx.extra["handlers"] = dict(shared_tables=hside["shared_tables"], reuse_violating=hside["violating"],
                                 unexpected_reuse_violating=[v for v in hside["violating"] if v not in reuse_json],
                                 builder_stale_after_document_start=hside["builder_stale"],
                                 parser_stale_after_parse=hside["parser_stale"], use=hside["use"],
                                 delegates=hside["delegates"], mutable_defaults=hside["mutable_defaults"])
    return gaps


# ------------------------------------------------------------------------------------------------ generators
def cell_path(pop, i, comp, inst):
    return "../%s/%i/%s" % (pop, i, comp) if inst else "../%s[%i]" % (pop, i)


def gen_net(rng, tag, rich=True, dangling=False, explicit=False):
    """a network document whose ids are drawn from small pools, so that two documents collide on purpose"""
    import neuroml as n
    d = n.NeuroMLDocument(id="doc" + tag)
    if rng.random() < 0.5:
        d.notes = "notes of " + tag
    cells = []
    for i in range(rng.randint(1, 2)):
        cid = "cell%d" % i
        d.izhikevich_cells.append(n.IzhikevichCell(id=cid, v0="-70mV", thresh="30mV", a="0.02", b="0.2", c="-65",
                                                   d=str(rng.randint(1, 9))))
        cells.append(cid)
    d.exp_one_synapses.append(n.ExpOneSynapse(id="syn0", gbase="%dnS" % rng.randint(1, 9), erev="0mV", tau_decay="1ms"))
    d.gap_junctions.append(n.GapJunction(id="gj0", conductance="%dpS" % rng.randint(1, 9)))
    d.silent_synapses.append(n.SilentSynapse(id="silent0"))
    d.graded_synapses.append(n.GradedSynapse(id="gs0", conductance="5pS", delta="5mV", Vth="-55mV", k="0.025per_ms",
                                             erev="0mV"))
    d.pulse_generators.append(n.PulseGenerator(id="pg0", delay="0ms", duration="%dms" % rng.randint(1, 9),
                                               amplitude="1nA"))
    net = n.Network(id="net" + (tag if rng.random() < 0.5 else "X"))
    if rng.random() < 0.3:
        net.type = "networkWithTemperature"
        net.temperature = "%d degC" % rng.randint(20, 37)
    if rng.random() < 0.3:
        net.notes = "net notes " + tag
    d.networks.append(net)
    pops = []
    for i in range(rng.randint(1, 3)):
        pid = "pop%d" % i
        comp = rng.choice(cells)
        inst = rng.random() < 0.6
        size = rng.randint(1, 4)
        p = n.Population(id=pid, component=comp, size=size)
        if inst:
            p.type = "populationList"
            for k in range(size):
                ins = n.Instance(id=k)
                ins.location = n.Location(x=float(rng.randint(0, 50)) / 2, y=float(k), z=float(rng.randint(0, 9)))
                p.instances.append(ins)
        if rng.random() < 0.3:
            p.properties.append(n.Property(tag="color", value="%d 0 0" % rng.randint(0, 1)))
        net.populations.append(p)
        pops.append((pid, comp, inst, size))
    refpops = list(pops)
    if dangling:   # a projection / input list that names a population this file does not declare
        refpops = [("pop%d" % len(pops), cells[0], rng.random() < 0.5, 2)]

    def pick():
        return rng.choice(refpops)
    nproj = rng.randint(0, 2) if not dangling else 1
    for i in range(nproj):
        pre, post = pick(), pick()
        pr = n.Projection(id="proj%d" % i, presynaptic_population=pre[0], postsynaptic_population=post[0], synapse="syn0")
        wd = rng.random() < 0.5
        for k in range(rng.randint(1 if dangling else 0, 3)):
            a = dict(id=k, pre_cell_id=cell_path(pre[0], rng.randrange(pre[3]), pre[1], pre[2]),
                     post_cell_id=cell_path(post[0], rng.randrange(post[3]), post[1], post[2]),
                     pre_segment_id=rng.choice([0, 0, 2]), post_segment_id=0,
                     pre_fraction_along=rng.choice([0.5, 0.25]), post_fraction_along=0.5)
            if wd:
                pr.connection_wds.append(n.ConnectionWD(weight=rng.choice([1.0, 0.5, 2.0]),
                                                        delay=rng.choice(["0ms", "1ms", "5ms", "0.002s", "0s"]), **a))
            else:
                pr.connections.append(n.Connection(**a))
        net.projections.append(pr)
    if rich and rng.random() < 0.5:
        pre, post = pick(), pick()
        ep = n.ElectricalProjection(id="eproj0", presynaptic_population=pre[0], postsynaptic_population=post[0])
        inst = pre[2] or post[2]
        for k in range(rng.randint(1, 3)):
            if not inst:
                ep.electrical_connections.append(n.ElectricalConnection(
                    id=k, pre_cell="%d" % rng.randrange(pre[3]), post_cell="%d" % rng.randrange(post[3]), pre_segment=0,
                    post_segment=0, pre_fraction_along=0.5, post_fraction_along=0.5, synapse="gj0"))
            else:
                a = dict(id=k, pre_cell=cell_path(pre[0], rng.randrange(pre[3]), pre[1], pre[2]),
                         post_cell=cell_path(post[0], rng.randrange(post[3]), post[1], post[2]), pre_segment=0,
                         post_segment=0, pre_fraction_along=0.5, post_fraction_along=0.5, synapse="gj0")
                if rng.random() < 0.5:
                    ep.electrical_connection_instances.append(n.ElectricalConnectionInstance(**a))
                else:
                    ep.electrical_connection_instance_ws.append(
                        n.ElectricalConnectionInstanceW(weight=rng.choice([0.5, 2.0]), **a))
        net.electrical_projections.append(ep)
    if rich and rng.random() < 0.5:
        pre, post = pick(), pick()
        cp = n.ContinuousProjection(id="cproj0", presynaptic_population=pre[0], postsynaptic_population=post[0])
        inst = pre[2] or post[2]
        for k in range(rng.randint(1, 3)):
            if not inst:
                cp.continuous_connections.append(n.ContinuousConnection(
                    id=k, pre_cell="%d" % rng.randrange(pre[3]), post_cell="%d" % rng.randrange(post[3]), pre_segment=0,
                    post_segment=0, pre_fraction_along=0.5, post_fraction_along=0.5, pre_component="silent0",
                    post_component="gs0"))
            else:
                a = dict(id=k, pre_cell=cell_path(pre[0], rng.randrange(pre[3]), pre[1], pre[2]),
                         post_cell=cell_path(post[0], rng.randrange(post[3]), post[1], post[2]), pre_segment=0,
                         post_segment=0, pre_fraction_along=0.5, post_fraction_along=0.5, pre_component="silent0",
                         post_component="gs0")
                if rng.random() < 0.5:
                    cp.continuous_connection_instances.append(n.ContinuousConnectionInstance(**a))
                else:
                    cp.continuous_connection_instance_ws.append(
                        n.ContinuousConnectionInstanceW(weight=rng.choice([0.5, 2.0]), **a))
        net.continuous_projections.append(cp)
    for i in range(rng.randint(0, 2) if not dangling else 1):
        tp = pick()
        il = n.InputList(id="il%d" % i, component="pg0", populations=tp[0])
        for k in range(rng.randint(1, 3)):
            a = dict(id=k, target=cell_path(tp[0], rng.randrange(tp[3]), tp[1], tp[2]), destination="synapses")
            if rng.random() < 0.3:
                a["segment_id"] = 2
            if rng.random() < 0.3:
                a["fraction_along"] = 0.25
            if rng.random() < 0.6:
                il.input.append(n.Input(**a))
            else:
                il.input_ws.append(n.InputW(weight=rng.choice([0.5, 2.0]), **a))
        net.input_lists.append(il)
    if explicit and not dangling and rng.random() < 0.5:     # only the XML parser turns these into input lists
        tp = pick()
        net.explicit_inputs.append(n.ExplicitInput(target="%s[%d]" % (tp[0], rng.randrange(tp[3])), input="pg0"))
    return d


def doc_xml(doc):
    import neuroml.writers as W
    buf = io.StringIO()
    W.NeuroMLWriter.write(doc, buf, close=False)
    return buf.getvalue()


def write_fileset(rng, root, tag, seedling):
    """files of one set under root/<tag>/ ; returns {key: relative path} and the recipe (for replay)"""
    import neuroml as n
    import neuroml.loaders  # noqa: F401  (nml.py's exportHdf5 uses neuroml.utils without importing it)
    import neuroml.utils  # noqa: F401
    import neuroml.writers as W
    d = os.path.join(root, tag)
    os.makedirs(os.path.join(d, "sub"), exist_ok=True)
    r = __import__("random").Random(seedling)
    net = gen_net(r, tag, rich=True)
    simple = gen_net(r, tag, rich=False)           # no electrical / continuous projections: optimized HDF5 can load it
    bad = gen_net(r, tag, rich=False, dangling=True)
    files = {}
    W.NeuroMLWriter.write(net, os.path.join(d, "net.nml"))
    W.NeuroMLHdf5Writer.write(net, os.path.join(d, "net.nml.h5"))
    W.NeuroMLWriter.write(simple, os.path.join(d, "simple.nml"))
    W.NeuroMLHdf5Writer.write(simple, os.path.join(d, "simple.nml.h5"))
    W.NeuroMLWriter.write(bad, os.path.join(d, "bad.nml"))
    W.NeuroMLHdf5Writer.write(bad, os.path.join(d, "bad.nml.h5"))
    # include chain: main.nml -> sub/cells.nml -> sub/more.nml ; main.nml -> simple.nml.h5
    more = n.NeuroMLDocument(id="more" + tag)
    more.iaf_cells.append(n.IafCell(id="iaf0", leak_reversal="-50mV", thresh="-55mV", reset="-70mV", C="0.2nF",
                                    leak_conductance="0.0%duS" % r.randint(1, 9)))
    W.NeuroMLWriter.write(more, os.path.join(d, "sub", "more.nml"))
    cellsdoc = n.NeuroMLDocument(id="cells" + tag)
    cellsdoc.includes.append(n.IncludeType(href="more.nml"))
    cellsdoc.izhikevich_cells.append(n.IzhikevichCell(id="incCell", v0="-70mV", thresh="30mV", a="0.02", b="0.2",
                                                      c="-65", d=str(r.randint(1, 9))))
    W.NeuroMLWriter.write(cellsdoc, os.path.join(d, "sub", "cells.nml"))
    main = n.NeuroMLDocument(id="main" + tag)
    main.includes.append(n.IncludeType(href="sub/cells.nml"))
    main.includes.append(n.IncludeType(href="simple.nml.h5"))
    main.pulse_generators.append(n.PulseGenerator(id="pgMain", delay="0ms", duration="%dms" % r.randint(1, 9),
                                                  amplitude="1nA"))
    W.NeuroMLWriter.write(main, os.path.join(d, "main.nml"))
    # a network whose cell lives in an included file (the XML parser resolves it through the includes)
    netinc = n.NeuroMLDocument(id="netinc" + tag)
    netinc.includes.append(n.IncludeType(href="sub/cells.nml"))
    nw = n.Network(id="netinc" + tag)
    netinc.networks.append(nw)
    pp = n.Population(id="pop0", component="incCell", size=r.randint(1, 3), type="populationList")
    for k in range(pp.size):
        ins = n.Instance(id=k)
        ins.location = n.Location(x=float(k), y=float(r.randint(0, 9)), z=0.0)
        pp.instances.append(ins)
    nw.populations.append(pp)
    W.NeuroMLWriter.write(netinc, os.path.join(d, "netinc.nml"))
    # second pass: a network file with explicit inputs (XML only), an HDF5 file WITHOUT the embedded XML, an HDF5 file
    # without a network group, a document whose id is no NmlId (build-time validation refuses it while the switch is
    # on), a well-formed XML file that is no NeuroML, an include of a file with an unknown extension
    W.NeuroMLWriter.write(gen_net(r, tag, rich=True, explicit=True), os.path.join(d, "expl.nml"))
    W.NeuroMLHdf5Writer.write(simple, os.path.join(d, "noembed.nml.h5"), embed_xml=False)
    nonet = n.NeuroMLDocument(id="nonet" + tag)
    nonet.pulse_generators.append(n.PulseGenerator(id="pgN", delay="0ms", duration="%dms" % r.randint(1, 9),
                                                   amplitude="1nA"))
    W.NeuroMLHdf5Writer.write(nonet, os.path.join(d, "nonet.nml.h5"))
    badid = gen_net(r, tag, rich=False)
    badid.id = "1" + tag
    W.NeuroMLHdf5Writer.write(badid, os.path.join(d, "badid.nml.h5"))
    W.NeuroMLWriter.write(badid, os.path.join(d, "badid.nml"))
    h5inc = gen_net(r, tag + "i", rich=False)
    W.NeuroMLHdf5Writer.write(h5inc, os.path.join(d, "h5inc_noinc.nml.h5"))
    h5inc.includes.append(n.IncludeType(href="simple.nml.h5"))
    W.NeuroMLHdf5Writer.write(h5inc, os.path.join(d, "h5inc.nml.h5"))
    with open(os.path.join(d, "notnml.xml"), "w") as fh:
        fh.write('<?xml version="1.0"?>\n<lems><Target component="x%s"/></lems>\n' % tag)
    badext = n.NeuroMLDocument(id="badext" + tag)
    badext.includes.append(n.IncludeType(href="notnml.txt"))
    W.NeuroMLWriter.write(badext, os.path.join(d, "badext.nml"))
    with open(os.path.join(d, "notnml.txt"), "w") as fh:
        fh.write("x")
    # an array morphology file
    try:
        import numpy as np
        from neuroml import arraymorph as am
        k = r.randint(2, 5)
        verts = [[float(i), float(r.randint(0, 5)), 0.0, 1.0] for i in range(k)]
        conn = [-1] + [r.randint(0, i) for i in range(k - 1)]
        morph = am.ArrayMorphology(vertices=verts, connectivity=conn, id="am" + tag)
        W.ArrayMorphWriter.write(morph, os.path.join(d, "morph.h5"))
    except Exception:
        pass
    _close_tables()
    return d


def _close_tables():
    try:
        import tables
        tables.file._open_files.close_all()
    except Exception:
        pass


# ------------------------------------------------------------------------------------------------ dumps
SKIP_ATTRS = {"parent_object_", "gds_elementtree_node_", "gds_collector_"}


def deep_dump(o, seen=None, depth=0):
    """canonical structural dump of an arbitrary object graph (no addresses; floats as repr; first-visit numbering)"""
    if seen is None:
        seen = {}
    if o is None or isinstance(o, (bool, int, str)):
        return o
    if isinstance(o, float):
        return "f:" + repr(o)
    if isinstance(o, bytes):
        return "b:" + o.decode("latin1")
    tn = type(o).__module__ + "." + type(o).__name__
    if tn.startswith("numpy."):
        import numpy as np
        if isinstance(o, np.ndarray):
            return {"nd": str(o.dtype), "shape": list(o.shape), "v": [deep_dump(x, seen, depth + 1) for x in o.tolist()]}
        if isinstance(o, np.generic):
            return "np:%s:%r" % (o.dtype, o.item())
    if isinstance(o, (list, tuple)):
        return [deep_dump(x, seen, depth + 1) for x in o]
    if isinstance(o, dict):
        return {"dict": sorted(([str(k), deep_dump(v, seen, depth + 1)] for k, v in o.items()), key=lambda kv: kv[0])}
    if isinstance(o, (set, frozenset)):
        return {"set": sorted(json.dumps(deep_dump(x, seen, depth + 1), sort_keys=True) for x in o)}
    if tn.startswith("lxml.") or callable(o) and not hasattr(o, "__dict__"):
        return "<%s>" % tn
    if id(o) in seen:
        return {"ref": seen[id(o)]}
    seen[id(o)] = len(seen)
    if depth > 60:
        return "<deep>"
    d = getattr(o, "__dict__", None)
    if d is None:
        return "<%s>" % tn
    out = {"cls": type(o).__name__}
    for k in sorted(d):
        if k in SKIP_ATTRS:
            continue
        out[k] = deep_dump(d[k], seen, depth + 1)
    return out


def exc_tag(e):
    s = str(e)
    s = re.sub(r"/[^\s'\"]*/", "<dir>/", s)        # no temp-dir names
    s = re.sub(r"0x[0-9a-f]+", "0x", s)
    return "%s:%s" % (type(e).__name__, s[:90])


# ------------------------------------------------------------------------------------------------ actions (real code)
ENTRIES = ["NeuroMLLoader.load", "NeuroMLHdf5Loader.load", "NeuroMLHdf5Loader.load[optimized]", "read_neuroml2_file",
           "read_neuroml2_file[includes]", "read_neuroml2_file[h5]", "read_neuroml2_file[h5,optimized]",
           "read_neuroml2_string", "read_neuroml2_string[includes]", "ArrayMorphLoader.load",
           "NeuroMLXMLParser+NetworkBuilder", "NeuroMLHdf5Parser+NetworkBuilder", "NeuroMLHdf5Loader.load[bad]",
           "NeuroMLXMLParser+NetworkBuilder[bad]", "read_neuroml2_file[xml-simple]",
           "NeuroMLXMLParser+NetworkBuilder[includes]", "read_neuroml2_file[netinc]",
           # second pass
           "NeuroMLXMLParser+NetworkBuilder[expl]", "NeuroMLHdf5Loader.load[noembed]", "NeuroMLHdf5Loader.load[nonet]",
           "NeuroMLHdf5Loader.load[nonet,optimized]", "NeuroMLHdf5Loader.load[badid]",
           "NeuroMLXMLParser+NetworkBuilder[badid]", "NeuroMLLoader.load[notnml]", "read_neuroml2_file[missing]",
           "read_neuroml2_file[badext]", "read_neuroml2_file[noincludes]", "_read_neuroml2[direct]",
           "read_neuroml2_string[h5-include,optimized]", "NeuroMLHdf5Loader.load[h5inc]", "read_neuroml2_file[h5inc]"]

# one OBJECT used for several files: `reuse:<objects>:<file>`; the objects live as long as the session
REUSE_OBJS = {
    "xml-same": ["net", "simple", "bad", "expl"],          # one NeuroMLXMLParser, one NetworkBuilder
    "xml-fresh": ["net", "simple", "bad", "expl"],         # one NeuroMLXMLParser, a new NetworkBuilder per file
    "h5-same": ["net", "simple", "bad", "noembed", "nonet"],     # one NeuroMLHdf5Parser, one NetworkBuilder
    "h5-fresh": ["net", "simple", "noembed", "nonet"],     # one NeuroMLHdf5Parser, a new NetworkBuilder per file
    "h5-opt": ["simple", "noembed", "nonet"],              # one NeuroMLHdf5Parser(None, optimized=True)
    "builder-h5": ["net", "simple", "bad", "noembed"],     # a new NeuroMLHdf5Parser per file, one NetworkBuilder
}
REUSE_ENTRIES = ["reuse:%s:%s" % (o, f) for o, fs in REUSE_OBJS.items() for f in fs]
# the oracle key of a difference of a reuse entry (repaired by fixes/C07-parser-builder-reuse.patch: a VIOLATION now)
REUSE_KEY = {"xml-same": "NetworkBuilder", "builder-h5": "NetworkBuilder", "h5-fresh": "NeuroMLHdf5Parser",
             "h5-opt": "NeuroMLHdf5Parser", "h5-same": "NeuroMLHdf5Parser+NetworkBuilder",
             "xml-fresh": "NeuroMLXMLParser"}


def perform_reuse(entry, d, objs):
    """one more file through the objects of `objs` (created on first use)"""
    from neuroml.hdf5.NetworkBuilder import NetworkBuilder
    from neuroml.hdf5.NeuroMLHdf5Parser import NeuroMLHdf5Parser
    from neuroml.hdf5.NeuroMLXMLParser import NeuroMLXMLParser
    from neuroml.utils import add_all_to_document
    _, kind, f = entry.split(":")
    if kind.startswith("xml"):
        path = os.path.join(d, f + ".nml")
        if kind not in objs:
            b = NetworkBuilder()
            objs[kind] = (NeuroMLXMLParser(b), b)
        p, b = objs[kind]
        if kind == "xml-fresh":
            b = NetworkBuilder()
            p.netHandler = b
        p.parse(path)
        return b.get_nml_doc()
    path = os.path.join(d, f + ".nml.h5")
    if kind == "h5-opt":
        if kind not in objs:
            objs[kind] = NeuroMLHdf5Parser(None, optimized=True)
        objs[kind].parse(path)
        return objs[kind].get_nml_doc()
    if kind == "builder-h5":
        if kind not in objs:
            objs[kind] = NetworkBuilder()
        b = objs[kind]
        p = NeuroMLHdf5Parser(b)
    else:
        if kind not in objs:
            b = NetworkBuilder()
            objs[kind] = (NeuroMLHdf5Parser(b), b)
        p, b = objs[kind]
        if kind == "h5-fresh":
            b = NetworkBuilder()
            p.netHandler = b
    p.parse(path)
    doc = b.get_nml_doc()
    if p.nml_doc_extra_elements:         # what NeuroMLHdf5Loader does with a parser and its builder
        add_all_to_document(p.nml_doc_extra_elements, doc)
    return doc


def perform(entry, d, objs=None):
    """run one loader action on the file set in directory d; returns the loaded object or raises"""
    import neuroml.loaders as L
    p = lambda *a: os.path.join(d, *a)
    if entry.startswith("reuse:"):
        return perform_reuse(entry, d, objs if objs is not None else {})
    if entry == "NeuroMLHdf5Loader.load[h5inc]":
        return L.NeuroMLHdf5Loader.load(p("h5inc.nml.h5"))
    if entry == "read_neuroml2_file[h5inc]":
        return L.read_neuroml2_file(p("h5inc.nml.h5"), include_includes=True)
    if entry == "NeuroMLHdf5Loader.load[noembed]":
        return L.NeuroMLHdf5Loader.load(p("noembed.nml.h5"))
    if entry == "NeuroMLHdf5Loader.load[nonet]":
        return L.NeuroMLHdf5Loader.load(p("nonet.nml.h5"))
    if entry == "NeuroMLHdf5Loader.load[nonet,optimized]":
        return L.NeuroMLHdf5Loader.load(p("nonet.nml.h5"), optimized=True)
    if entry == "NeuroMLHdf5Loader.load[badid]":
        return L.NeuroMLHdf5Loader.load(p("badid.nml.h5"))
    if entry == "NeuroMLLoader.load[notnml]":
        return L.NeuroMLLoader.load(p("notnml.xml"))
    if entry == "read_neuroml2_file[missing]":
        return L.read_neuroml2_file(p("no_such_file.nml"))
    if entry == "read_neuroml2_file[badext]":
        return L.read_neuroml2_file(p("badext.nml"), include_includes=True)
    if entry == "read_neuroml2_file[noincludes]":
        return L.read_neuroml2_file(p("main.nml"), include_includes=False)
    if entry == "_read_neuroml2[direct]":
        return L._read_neuroml2(p("main.nml"), include_includes=True)
    if entry == "read_neuroml2_string[h5-include,optimized]":
        with open(p("main.nml")) as fh:
            return L.read_neuroml2_string(fh.read(), include_includes=True, base_path=d, optimized=True)
    if entry == "NeuroMLLoader.load":
        return L.NeuroMLLoader.load(p("net.nml"))
    if entry == "NeuroMLHdf5Loader.load":
        return L.NeuroMLHdf5Loader.load(p("net.nml.h5"))
    if entry == "NeuroMLHdf5Loader.load[bad]":
        return L.NeuroMLHdf5Loader.load(p("bad.nml.h5"))
    if entry == "NeuroMLHdf5Loader.load[optimized]":
        return L.NeuroMLHdf5Loader.load(p("simple.nml.h5"), optimized=True)
    if entry == "read_neuroml2_file":
        return L.read_neuroml2_file(p("net.nml"))
    if entry == "read_neuroml2_file[xml-simple]":
        return L.read_neuroml2_file(p("simple.nml"), include_includes=True)
    if entry == "read_neuroml2_file[netinc]":
        return L.read_neuroml2_file(p("netinc.nml"), include_includes=True)
    if entry == "read_neuroml2_file[includes]":
        return L.read_neuroml2_file(p("main.nml"), include_includes=True)
    if entry == "read_neuroml2_file[h5]":
        return L.read_neuroml2_file(p("net.nml.h5"), include_includes=True)
    if entry == "read_neuroml2_file[h5,optimized]":
        return L.read_neuroml2_file(p("simple.nml.h5"), optimized=True)
    if entry == "read_neuroml2_string":
        with open(p("net.nml")) as fh:
            return L.read_neuroml2_string(fh.read())
    if entry == "read_neuroml2_string[includes]":
        with open(p("main.nml")) as fh:
            return L.read_neuroml2_string(fh.read(), include_includes=True, base_path=d)
    if entry == "ArrayMorphLoader.load":
        return L.ArrayMorphLoader.load(p("morph.h5"))
    if entry.startswith("NeuroMLXMLParser+NetworkBuilder"):
        from neuroml.hdf5.NetworkBuilder import NetworkBuilder
        from neuroml.hdf5.NeuroMLXMLParser import NeuroMLXMLParser
        b = NetworkBuilder()
        NeuroMLXMLParser(b).parse(p("bad.nml" if entry.endswith("[bad]") else
                                    ("netinc.nml" if entry.endswith("[includes]") else
                                     ("expl.nml" if entry.endswith("[expl]") else
                                      ("badid.nml" if entry.endswith("[badid]") else "net.nml")))))
        return b.get_nml_doc()
    if entry == "NeuroMLHdf5Parser+NetworkBuilder":
        from neuroml.hdf5.NetworkBuilder import NetworkBuilder
        from neuroml.hdf5.NeuroMLHdf5Parser import NeuroMLHdf5Parser
        b = NetworkBuilder()
        NeuroMLHdf5Parser(b).parse(p("net.nml.h5"))
        return b.get_nml_doc()
    raise ValueError(entry)


def set_switch(on):
    """the global build-time-validation switch (a configuration input of every load, see `Env` in Props/C07Gen.lean)"""
    import neuroml
    sink = io.StringIO()
    with contextlib.redirect_stdout(sink), contextlib.redirect_stderr(sink):
        (neuroml.enable_build_time_validation if on else neuroml.disable_build_time_validation)()


def run_action(entry, d, objs=None, switch=None):
    """-> canonical result {"res": "ok", "dump":.., "xml": sha} | {"res": "exc:.."}; never raises"""
    out = None
    sink = io.StringIO()
    if switch is not None:
        set_switch(switch)
    with contextlib.redirect_stdout(sink), contextlib.redirect_stderr(sink):
        try:
            doc = perform(entry, d, objs)
            dump = deep_dump(doc)
            try:
                xml = hashlib.sha1(doc_xml(doc).encode()).hexdigest()
            except Exception as e:      # optimized containers cannot always be exported: that is a result, too
                xml = "exc:" + exc_tag(e)
            out = {"res": "ok", "dump": dump, "xml": xml}
            _scribble(doc)
        except SystemExit:
            out = {"res": "exc:SystemExit"}
        except BaseException as e:   # noqa
            out = {"res": "exc:" + exc_tag(e)}
        finally:
            _close_tables()
    return out


def _scribble(doc):
    """mutate the returned document after it has been dumped: a later load must not hand the same objects back"""
    try:
        doc.id = "SCRIBBLED"
        doc.notes = "scribbled"
        for net in list(getattr(doc, "networks", [])):
            net.id = "SCRIBBLED"
            for pop in list(net.populations):
                pop.component = "SCRIBBLED"
        for c in list(getattr(doc, "izhikevich_cells", [])):
            c.d = "99"
        if getattr(doc, "izhikevich_cells", None):
            del doc.izhikevich_cells[:]
    except Exception:
        pass


def use_containers():
    """other library use between loads: build optimized containers by hand, iterate / print / extend them and write
    them to an HDF5 file (whatever that does or raises is not the point: a later load must not notice)"""
    import neuroml as n
    import neuroml.writers as W
    from neuroml.hdf5.NetworkContainer import (InputListContainer, NetworkContainer, PopulationContainer,
                                               ProjectionContainer)
    sink = io.StringIO()
    tmp = tempfile.mkdtemp(prefix="verif_c07u_")
    with contextlib.redirect_stdout(sink), contextlib.redirect_stderr(sink):
        try:
            pc = PopulationContainer(id="hand", component="izzy")
            for k in range(2):
                inst = n.Instance(id=k)
                inst.location = n.Location(x=1.0 * k, y=2.0, z=3.0)
                pc.instances.append(inst)
            pc.instances.add_instance(2, 0.5, 0.5, 0.5)
            for _ in pc.instances:
                pass
            prc = ProjectionContainer(id="hp", presynaptic_population="hand", postsynaptic_population="hand", synapse="s")
            prc.connections.append(n.Connection(id=0, pre_cell_id="../hand/0/izzy", post_cell_id="../hand/1/izzy"))
            prc.connections += [n.Connection(id=1, pre_cell_id="../hand/1/izzy", post_cell_id="../hand/0/izzy")]
            for _ in prc.connections:
                pass
            ilc = InputListContainer(id="hil", component="pg", populations="hand")
            ilc.input.append(n.Input(id=0, target="../hand/0/izzy", destination="synapses"))
            for x in (pc, prc, ilc, pc.instances, prc.connections, ilc.input):
                str(x)
            it = iter(pc.instances)
            it.next()
            for bad in (lambda: pc.instances.__setitem__(0, None), lambda: pc.instances.__delitem__(0)):
                try:
                    bad()
                except NotImplementedError:
                    pass
            net = NetworkContainer(id="handnet")
            net.populations.append(pc)
            net.projections.append(prc)
            net.input_lists.append(ilc)
            doc = n.NeuroMLDocument(id="handdoc")
            doc.networks.append(net)
            W.NeuroMLHdf5Writer.write(doc, os.path.join(tmp, "hand.nml.h5"))
        except Exception:
            pass
        finally:
            _close_tables()
            shutil.rmtree(tmp, ignore_errors=True)


def fresh_reference(entry, d, switch=True):
    """the same action in a fresh interpreter (new objects, the given value of the configuration switch)"""
    code = ("import sys, json; sys.path.insert(0, %r); sys.path.insert(0, %r); sys.path.insert(0, %r); "
            "from props import c07; print('@@' + json.dumps(c07.run_action(%r, %r, None, %r)))") % (
                HARNESS, os.path.join(HARNESS), fw.REPO, entry, d, bool(switch))
    env = dict(os.environ)
    env["VERIF_REPO"] = fw.REPO
    p = subprocess.run(["/venv/bin/python", "-c", code], stdout=subprocess.PIPE, stderr=subprocess.PIPE, text=True,
                       env=env, cwd=d, timeout=600)
    for line in p.stdout.split("\n"):
        if line.startswith("@@"):
            return json.loads(line[2:])
    return {"res": "subprocess-failed", "stderr": p.stderr[-400:]}


def first_diff(a, b, path=""):
    if type(a) != type(b):
        return "%s: %r vs %r" % (path, str(a)[:80], str(b)[:80])
    if isinstance(a, dict):
        for k in sorted(set(a) | set(b)):
            if k not in a or k not in b:
                return "%s.%s: only on one side" % (path, k)
            r = first_diff(a[k], b[k], path + "." + str(k))
            if r:
                return r
        return None
    if isinstance(a, list):
        if len(a) != len(b):
            return "%s: length %d vs %d" % (path, len(a), len(b))
        for i, (x, y) in enumerate(zip(a, b)):
            r = first_diff(x, y, "%s[%d]" % (path, i))
            if r:
                return r
        return None
    return None if a == b else "%s: %r vs %r" % (path, a, b)


# ------------------------------------------------------------------------------------------------ history stream
def gen_session(rng, nsteps):
    """a history: steps are ("load", set, entry) | ("rewrite", set, seed) | ("use",) | ("toggle", on)"""
    seeds = {"A": rng.randrange(10 ** 6), "B": rng.randrange(10 ** 6)}
    steps = []
    pool = [e for e in ENTRIES]
    focus = rng.sample(pool, 3)
    # one kind of reused objects per session, so that the same objects really see several files
    reuse_kind = rng.choice(sorted(REUSE_OBJS))
    reuse_pool = ["reuse:%s:%s" % (reuse_kind, f) for f in REUSE_OBJS[reuse_kind]]
    style = rng.random()
    for i in range(nsteps):
        r = rng.random()
        if r < 0.07:
            steps.append(["use"])
        elif r < 0.14:
            steps.append(["rewrite", rng.choice("AB"), rng.randrange(10 ** 6)])
        elif r < 0.20:
            steps.append(["toggle", rng.random() < 0.5])
        elif style < 0.45 and r < 0.65:
            steps.append(["load", rng.choice("AB"), rng.choice(reuse_pool)])
        else:
            e = rng.choice(focus) if rng.random() < 0.6 else rng.choice(pool)
            steps.append(["load", rng.choice("AB"), e])
    return {"seeds": seeds, "steps": steps}


def history_key(entry):
    if entry.startswith("reuse:"):
        return "C07:reuse:" + REUSE_KEY[entry.split(":")[1]]
    return "C07:history:" + entry


def run_session(ctx, sess, pool):
    root = tempfile.mkdtemp(prefix="verif_c07_")
    old_cwd = os.getcwd()
    try:
        sink = io.StringIO()
        dirs, version = {}, {}
        with contextlib.redirect_stdout(sink), contextlib.redirect_stderr(sink):
            for tag in "AB":
                dirs[tag] = write_fileset(ctx.rng, root, tag, sess["seeds"][tag])
                version[tag] = sess["seeds"][tag]
        os.chdir(root)
        results, refjobs = [], {}
        loaded_before = []
        objs = {}               # the session's long-lived parser / builder objects (reuse:* entries)
        switch = True           # the configuration switch is part of the input of every load
        set_switch(True)
        for si, st in enumerate(sess["steps"]):
            if st[0] == "use":
                use_containers()
                loaded_before.append("use")
                continue
            if st[0] == "toggle":
                switch = bool(st[1])
                set_switch(switch)
                ctx.count("history:toggle")
                continue
            if st[0] == "rewrite":
                # the reference for the old content must be taken before the files change
                for k, fut in list(refjobs.items()):
                    if k[0] == st[1]:
                        fut.result()
                with contextlib.redirect_stdout(sink), contextlib.redirect_stderr(sink):
                    shutil.rmtree(dirs[st[1]])
                    write_fileset(ctx.rng, root, st[1], st[2])
                version[st[1]] = st[2]
                continue
            _, tag, entry = st
            key = (tag, version[tag], entry, switch)
            if key not in refjobs:
                refjobs[key] = pool.submit(fresh_reference, entry, dirs[tag], switch)
            got = run_action(entry, dirs[tag], objs)
            repeat = any(x == key[:3] for x in loaded_before if x != "use")
            other = any(x != key[:3] for x in loaded_before)
            results.append((si, key, got, repeat, other))
            loaded_before.append(key[:3])
        for si, key, got, repeat, other in results:
            ref = refjobs[key].result()
            tag, ver, entry, sw = key
            canon = {"seeds": sess["seeds"], "steps": sess["steps"][:si + 1]}
            ctx.seen(canon, nontrivial=(repeat or other))
            ctx.count("history:" + (entry if not entry.startswith("reuse:") else "reuse:" + entry.split(":")[1]))
            ctx.count("history-res:" + got["res"].split(":")[0] + (":" + got["res"].split(":")[1] if got["res"] != "ok" else ""))
            if repeat:
                ctx.count("history:repeat")
            if not sw:
                ctx.count("history:switch-off")
            if ref.get("res") == "subprocess-failed":
                ctx.disagree("fresh-process", {"entry": entry}, ref, None)
                continue
            if got != ref:
                what = first_diff(got, ref) or "results differ"
                ctx.fail(history_key(entry),
                         "%s gives a different result than in a fresh process (step %d of the session): %s" % (entry, si, what),
                         {"kind": "history", "session": {"seeds": sess["seeds"], "steps": sess["steps"][:si + 1]},
                          "diff": what, "in_process": got["res"], "fresh": ref["res"]})
        ctx.sample({"history": [s if s[0] != "load" else [s[1], s[2]] for s in sess["steps"]][:8]})
    finally:
        set_switch(True)
        os.chdir(old_cwd)
        shutil.rmtree(root, ignore_errors=True)


def env_witness(ctx):
    """the configuration hypothesis is not idle: the same load gives different results under the two values of the
    switch, and under each value the result is the one a fresh process gives under that value"""
    root = tempfile.mkdtemp(prefix="verif_c07e_")
    try:
        sink = io.StringIO()
        with contextlib.redirect_stdout(sink), contextlib.redirect_stderr(sink):
            d = write_fileset(ctx.rng, root, "A", 4242)
        res = {}
        for entry in ("NeuroMLHdf5Loader.load[badid]", "NeuroMLXMLParser+NetworkBuilder[badid]"):
            for sw in (True, False, True):
                got = run_action(entry, d, None, sw)
                ref = fresh_reference(entry, d, sw)
                ctx.seen({"env": entry, "switch": sw}, nontrivial=True)
                ctx.count("env:" + ("on" if sw else "off") + ":" + got["res"].split(":")[0 if got["res"] == "ok" else 1])
                if got != ref:
                    ctx.fail("C07:history:" + entry, "%s with the validation switch %s differs from a fresh process "
                             "with the same switch: %s" % (entry, sw, first_diff(got, ref)),
                             {"kind": "env", "entry": entry, "switch": sw})
                res[(entry, sw)] = got["res"]
            if res[(entry, True)] != res[(entry, False)]:
                ctx.count("env:result-depends-on-switch")
        ctx.extra["env_dependence"] = {"%s|%s" % k: v[:60] for k, v in res.items()}
    finally:
        set_switch(True)
        shutil.rmtree(root, ignore_errors=True)


# ------------------------------------------------------------------------------------------------ interleaving stream
HANDLERS = ["handle_document_start", "handle_network", "handle_population", "handle_location", "handle_projection",
            "finalise_projection", "handle_connection", "handle_input_list", "handle_single_input",
            "finalise_input_source"]


CAMEL = {"handle_document_start": "handleDocumentStart", "handle_network": "handleNetwork",
         "handle_population": "handlePopulation", "handle_location": "handleLocation",
         "handle_projection": "handleProjection", "finalise_projection": "finaliseProjection",
         "handle_connection": "handleConnection", "handle_input_list": "handleInputList",
         "handle_single_input": "handleSingleInput", "finalise_input_source": "finaliseInputSource"}


def make_recorder(camel=False):
    """a handler that records the calls it gets.  camel=True: a handler written against the OLD interface (camelCase
    method names only, not derived from DefaultNetworkHandler): both parsers alias the new names to the old methods in
    their constructors"""
    from neuroml.hdf5.DefaultNetworkHandler import DefaultNetworkHandler

    class Recorder(DefaultNetworkHandler):
        def __init__(self):
            self.calls = []

    class CamelRecorder(object):
        def __init__(self):
            self.calls = []
    cls = CamelRecorder if camel else Recorder

    def mk(name):
        def f(self, *a, **kw):
            self.calls.append((name, a, kw))
        return f
    for h in HANDLERS:
        setattr(cls, CAMEL[h] if camel else h, mk(h))
    # handle_population is inspected for a `properties` argument by both parsers
    def handle_population(self, population_id, component, size=-1, component_obj=None, properties={}, notes=None):
        self.calls.append(("handle_population", (population_id, component, size),
                           {"component_obj": component_obj, "properties": dict(properties), "notes": notes}))
    setattr(cls, CAMEL["handle_population"] if camel else "handle_population", handle_population)
    return cls()


def record(kind, path, camel=False):
    rec = make_recorder(camel)
    sink = io.StringIO()
    with contextlib.redirect_stdout(sink), contextlib.redirect_stderr(sink):
        if kind == "h5":
            from neuroml.hdf5.NeuroMLHdf5Parser import NeuroMLHdf5Parser
            NeuroMLHdf5Parser(rec).parse(path)
        else:
            from neuroml.hdf5.NeuroMLXMLParser import NeuroMLXMLParser
            NeuroMLXMLParser(rec).parse(path)
    _close_tables()
    return rec.calls


def bind(name, a, kw):
    """normalise a recorded call to keyword form using NetworkBuilder's signature"""
    import inspect
    from neuroml.hdf5.NetworkBuilder import NetworkBuilder
    sig = inspect.signature(getattr(NetworkBuilder, name))
    ba = sig.bind(None, *a, **kw)
    ba.apply_defaults()
    d = dict(ba.arguments)
    d.pop("self", None)
    return d


def tok(o):
    return None if o is None else "%s:%s" % (type(o).__name__, o.id)


def s_(x):
    return "%s" % (x,)


def encode_call(name, a, kw):
    """recorded handler call -> line-protocol call of Drivers/C07.lean"""
    d = bind(name, a, kw)
    if name == "handle_document_start":
        return {"k": "docStart", "id": d["id"], "notes": d["notes"]}
    if name == "handle_network":
        return {"k": "network", "id": d["network_id"], "notes": d["notes"], "temperature": d["temperature"]}
    if name == "handle_population":
        return {"k": "population", "id": d["population_id"], "comp": d["component"], "size": int(d["size"]),
                "compObj": tok(d["component_obj"]), "props": [[str(k), str(v)] for k, v in d["properties"].items()],
                "notes": d["notes"]}
    if name == "handle_location":
        xyz = None if (d["x"] is None or d["y"] is None or d["z"] is None) else [repr(d["x"]), repr(d["y"]), repr(d["z"])]
        return {"k": "location", "id": s_(d["id"]), "pop": d["population_id"], "xyz": xyz}
    if name == "handle_projection":
        so, po = d["synapse_obj"], d["pre_synapse_obj"]
        return {"k": "projection", "id": d["id"], "pre": d["prePop"], "post": d["postPop"], "syn": d["synapse"],
                "hasWD": bool(d["hasWeights"] or d["hasDelays"]), "typ": d["type"],
                "synObj": None if so is None else [tok(so), so.id], "preSynObj": None if po is None else [tok(po), po.id]}
    if name == "finalise_projection":
        return {"k": "finaliseProjection", "id": d["id"], "pre": d["prePop"], "post": d["postPop"], "syn": d["synapse"],
                "typ": d["type"]}
    if name == "handle_connection":
        return {"k": "connection", "proj": d["proj_id"], "connId": s_(d["conn_id"]), "pre": d["prePop"], "post": d["postPop"],
                "preCell": int(d["preCellId"]), "postCell": int(d["postCellId"]), "preSeg": s_(d["preSegId"]),
                "postSeg": s_(d["postSegId"]), "preFract": s_(d["preFract"]), "postFract": s_(d["postFract"]),
                "delay": s_(d["delay"]), "delayIsZero": bool(d["delay"] == 0),
                # every connection class casts its weight: `_cast(float, weight)` (an int 1 is stored as 1.0)
                "weight": s_(float(d["weight"])),
                "weightIsOne": bool(d["weight"] == 1)}
    if name == "handle_input_list":
        return {"k": "inputList", "id": d["inputListId"], "pop": d["population_id"], "comp": d["component"],
                "compObj": tok(d["input_comp_obj"])}
    if name == "handle_single_input":
        return {"k": "singleInput", "list": d["inputListId"], "id": s_(d["id"]), "cell": int(d["cellId"]),
                "seg": s_(d["segId"]), "segIsZero": bool(d["segId"] == 0), "fract": s_(d["fract"]),
                "fractIsHalf": bool(d["fract"] == 0.5), "weight": s_(d["weight"]), "weightIsOne": bool(d["weight"] == 1)}
    if name == "finalise_input_source":
        return {"k": "finaliseInputSource", "id": d["inputName"]}
    raise ValueError(name)


STANDALONE_SKIP = {"networks", "includes"}


def bdump(doc, err=None):
    """builder document in the shape Drivers/C07.lean prints"""
    if doc is None:
        return {"id": None, "notes": None, "comps": [], "nets": [], "err": err}
    comps = []
    for m in doc.member_data_items_:
        nm = m.get_name()
        if nm in STANDALONE_SKIP or not m.get_container():
            continue
        for o in getattr(doc, nm) or []:
            comps.append("%s:%s" % (type(o).__name__, getattr(o, "id", None)))
    nets = []
    for net in doc.networks:
        pops = [{"id": p.id, "component": p.component, "size": s_(int(p.size)), "type": p.type, "notes": p.notes,
                 "props": [[q.tag, q.value] for q in p.properties],
                 "instances": [[s_(i.id), repr(i.location.x), repr(i.location.y), repr(i.location.z)] for i in p.instances]}
                for p in net.populations]
        projs = []
        for p in net.projections:
            cs = [["c", s_(c.id), c.pre_cell_id, s_(c.pre_segment_id), s_(c.pre_fraction_along), c.post_cell_id,
                   s_(c.post_segment_id), s_(c.post_fraction_along)] for c in p.connections]
            cs += [["cwd", s_(c.id), c.pre_cell_id, s_(c.pre_segment_id), s_(c.pre_fraction_along), c.post_cell_id,
                    s_(c.post_segment_id), s_(c.post_fraction_along), s_(c.weight), s_(c.delay)] for c in p.connection_wds]
            projs.append({"kind": "projection", "id": p.id, "pre": p.presynaptic_population,
                          "post": p.postsynaptic_population, "synapse": p.synapse, "conns": cs})
        for p in net.electrical_projections:
            def e(tag, c, w=False):
                return [tag, s_(c.id), c.pre_cell, s_(c.pre_segment), s_(c.pre_fraction_along), c.post_cell,
                        s_(c.post_segment), s_(c.post_fraction_along), s_(c.synapse)] + ([s_(c.weight)] if w else [])
            cs = [e("ec", c) for c in p.electrical_connections]
            cs += [e("eci", c) for c in p.electrical_connection_instances]
            cs += [e("eciw", c, True) for c in p.electrical_connection_instance_ws]
            projs.append({"kind": "electricalProjection", "id": p.id, "pre": p.presynaptic_population,
                          "post": p.postsynaptic_population, "synapse": None, "conns": cs})
        for p in net.continuous_projections:
            def cc(tag, c, w=False):
                return [tag, s_(c.id), c.pre_cell, s_(c.pre_segment), s_(c.pre_fraction_along), c.post_cell,
                        s_(c.post_segment), s_(c.post_fraction_along), s_(c.pre_component), s_(c.post_component)] + (
                            [s_(c.weight)] if w else [])
            cs = [cc("cc", c) for c in p.continuous_connections]
            cs += [cc("cci", c) for c in p.continuous_connection_instances]
            cs += [cc("cciw", c, True) for c in p.continuous_connection_instance_ws]
            projs.append({"kind": "continuousProjection", "id": p.id, "pre": p.presynaptic_population,
                          "post": p.postsynaptic_population, "synapse": None, "conns": cs})
        ils = []
        for l in net.input_lists:
            ins = [["i", s_(i.id), i.target, s_(i.segment_id), s_(i.fraction_along)] for i in l.input]
            ins += [["iw", s_(i.id), i.target, s_(i.segment_id), s_(i.fraction_along), s_(i.weight)] for i in l.input_ws]
            ils.append({"id": l.id, "component": l.component, "populations": l.populations, "inputs": ins})
        nets.append({"id": net.id, "notes": net.notes, "temperature": net.temperature, "pops": pops, "projs": projs,
                     "ilists": ils})
    return {"id": doc.id, "notes": doc.notes, "comps": sorted(comps), "nets": nets, "err": err}


def reset_shared():
    """put the class-level mutable attributes of NetworkBuilder that the translators found back to their initial
    (empty) value, so that every replay -- like the model -- starts from the initial shared state and a replay file
    reproduces on its own.  Nothing to do on a tree without such attributes."""
    from neuroml.hdf5.NetworkBuilder import NetworkBuilder
    pre = "neuroml/hdf5/NetworkBuilder.py::NetworkBuilder."
    names = [v["name"][len(pre):] for v in _GLUE.get("side", {}).get("vars", [])
             if v["name"].startswith(pre) and v["kind"] == "classAttr" and v["mut"] in ("mut", "unk")]
    names += [a for a, i in _GLUE.get("handlers", {}).get("builder_attrs", {}).items()
              if i["classLevel"] and i["mutableVal"]]
    for nm in set(names):
        o = NetworkBuilder.__dict__.get(nm)
        if isinstance(o, (dict, list, set)):
            o.clear()


def order_from_sched(na, nb, sched):
    """the first pass's schedule form (booleans, True = A's next call, an exhausted side falls through to the other)
    as an explicit merge: list of builder indices (0 = A, 1 = B)"""
    s, ia, ib, order = list(sched), 0, 0, []
    while ia < na or ib < nb:
        if ia < na and ib < nb:
            who = s.pop(0) if s else True
        else:
            who = ia < na
        order.append(0 if who else 1)
        if who:
            ia += 1
        else:
            ib += 1
    return order


def replay_n(call_lists, order, deep=True):
    """len(call_lists) fresh NetworkBuilder instances stepped through the merge `order` (builder index per event).
    A builder that raised ignores its further calls until its next handle_document_start (the parser driving it died)."""
    from neuroml.hdf5.NetworkBuilder import NetworkBuilder
    sink = io.StringIO()
    reset_shared()
    with contextlib.redirect_stdout(sink), contextlib.redirect_stderr(sink):
        n = len(call_lists)
        bs = [NetworkBuilder() for _ in range(n)]
        qs = [copy.deepcopy(c) for c in call_lists]
        err, idx = [None] * n, [0] * n
        for who in order:
            if idx[who] >= len(qs[who]):
                continue
            name, a, kw = qs[who][idx[who]]
            idx[who] += 1
            if name == "handle_document_start":
                err[who] = None
            if err[who] is not None:
                continue
            try:
                getattr(bs[who], name)(*a, **kw)
            except Exception as e:   # noqa
                err[who] = type(e).__name__
        assert all(idx[i] == len(qs[i]) for i in range(n)), "schedule is not a merge of the sequences"
        dumps = [bdump(getattr(b, "nml_doc", None), err[i]) for i, b in enumerate(bs)]
        deeps = [deep_dump(getattr(b, "nml_doc", None)) for b in bs] if deep else [None] * n
    return dumps, deeps


def replay_schedule(calls_a, calls_b, sched):
    order = order_from_sched(len(calls_a), len(calls_b), sched)
    dumps, deeps = replay_n([calls_a, calls_b], order)
    return dumps[0], dumps[1], (deeps[0], deeps[1]), [o == 0 for o in order]


def declared_ids(calls):
    ids = set()
    for name, a, kw in calls:
        if name in ("handle_population", "handle_projection", "handle_input_list"):
            ids.add((name, a[0] if a else None))
    return ids


def decl_points(calls):
    """indices just after a declaring call"""
    return [i + 1 for i, c in enumerate(calls) if c[0] in ("handle_population", "handle_projection", "handle_input_list")]


# the strata of the schedule generator for long (recorded) sequences; every case draws its schedules from DIFFERENT strata
STRATA = ["a-first", "b-first", "preempt-a-after-decl", "preempt-b-after-decl", "preempt-twice", "round-robin-1",
          "round-robin-k", "bernoulli-0.1", "bernoulli-0.5", "bernoulli-0.9", "blocks"]


def schedule_spec(rng, stratum):
    return [stratum, rng.random(), rng.random(), rng.randrange(10 ** 6)]


def materialise(spec, calls_a, calls_b):
    """spec -> explicit merge (list of 0/1)"""
    stratum, r1, r2, seed = spec
    na, nb = len(calls_a), len(calls_b)
    rnd = __import__("random").Random(seed)

    def pre(first, second, cf, points):
        pts = points or [1]
        k = pts[min(len(pts) - 1, int(r1 * len(pts)))]
        return [first] * k + [second] * (nb if first == 0 else na) + [first] * ((na if first == 0 else nb) - k)
    if stratum == "a-first":
        return [0] * na + [1] * nb
    if stratum == "b-first":
        return [1] * nb + [0] * na
    if stratum == "preempt-a-after-decl":
        return pre(0, 1, calls_a, decl_points(calls_a))
    if stratum == "preempt-b-after-decl":
        return pre(1, 0, calls_b, decl_points(calls_b))
    if stratum == "preempt-twice":      # A .. B .. A .. B .. : cut points right after declarations of either side
        pa, pb = decl_points(calls_a) or [1], decl_points(calls_b) or [1]
        ka = pa[min(len(pa) - 1, int(r1 * len(pa)))]
        kb = pb[min(len(pb) - 1, int(r2 * len(pb)))]
        return [0] * ka + [1] * kb + [0] * (na - ka) + [1] * (nb - kb)
    if stratum.startswith("round-robin"):
        q = 1 if stratum.endswith("-1") else rnd.choice([2, 3, 5])
        out, ia, ib, cur = [], 0, 0, rnd.random() < 0.5
        while ia < na or ib < nb:
            if cur:
                k = min(q, na - ia)
                out += [0] * k
                ia += k
            else:
                k = min(q, nb - ib)
                out += [1] * k
                ib += k
            cur = not cur
        return out
    if stratum.startswith("bernoulli"):
        p = float(stratum.split("-")[1])
        return order_from_sched(na, nb, [rnd.random() < p for _ in range(na + nb)])
    out, cur = [], rnd.random() < 0.5
    while len(out) < na + nb:
        out += [cur] * rnd.randint(1, 8)
        cur = not cur
    return order_from_sched(na, nb, out)


def all_merges(na, nb):
    """every merge of two sequences, in the order of Lean's `Glue.merges`"""
    if na == 0:
        yield [1] * nb
        return
    if nb == 0:
        yield [0] * na
        return
    for m in all_merges(na - 1, nb):
        yield [0] + m
    for m in all_merges(na, nb - 1):
        yield [1] + m


# ---- hand-made short sequences: every one of the seven tables decides something, same ids on both sides
def craft_seq(rng, feature, side):
    """a short handler-call sequence (document start, network, population, then `feature`); `side` (0 / 1 / 2) makes
    the content differ while the ids are the same"""
    import neuroml as n
    tag = "ABC"[side]
    comp = "cell" + tag
    calls = [("handle_document_start", ("doc" + tag, rng.choice([None, "", "notes " + tag])), {}),
             ("handle_network", ("net" + tag, rng.choice([None, "n" + tag])),
              {"temperature": rng.choice([None, "%d degC" % (20 + side)])})]
    obj = n.IzhikevichCell(id=comp, v0="-70mV", thresh="30mV", a="0.02", b="0.2", c="-65", d=str(1 + side)) \
        if rng.random() < 0.5 else None
    calls.append(("handle_population", ("pop0", comp, rng.choice([2 + side, -1])),
                  {"component_obj": obj, "properties": ({"color": "%d 0 0" % side} if rng.random() < 0.3 else {}),
                   "notes": rng.choice([None, "pop of " + tag])}))
    inst = (side + rng.randrange(2)) % 2 == 0
    if feature == "loc" or (inst and rng.random() < 0.6):
        calls.append(("handle_location", (0, "pop0", comp, float(side), 1.0, 2.0), {}))
    if feature == "loc":
        calls.append(("handle_location", (1, "pop0", comp, None if rng.random() < 0.2 else 0.5, 1.5, float(side)), {}))
    elif feature == "proj":
        wd = side == 1 if rng.random() < 0.7 else rng.random() < 0.5
        calls.append(("handle_projection", ("proj0", "pop0", "pop0", "syn" + tag),
                      {"hasWeights": wd, "hasDelays": False, "type": "projection"}))
        calls.append(("handle_connection", ("proj0", 0, "pop0", "pop0", "syn" + tag, 0, 1),
                      {"delay": rng.choice([0, 0, 5.0]), "weight": rng.choice([1, 1, 0.5])}))
    elif feature == "elec":
        so = n.GapJunction(id="gj" + tag, conductance="%dpS" % (1 + side)) if rng.random() < 0.5 else None
        calls.append(("handle_projection", ("proj0", "pop0", "pop0", "gj" + tag),
                      {"type": "electricalProjection", "synapse_obj": so}))
        calls.append(("handle_connection", ("proj0", 0, "pop0", "pop0", "gj" + tag, 0, 1),
                      {"weight": rng.choice([1, 2.0])}))
    elif feature == "cont":
        pre = n.SilentSynapse(id="silent" + tag) if (side == 1) == (rng.random() < 0.7) else None
        post = n.GradedSynapse(id="gs" + tag, conductance="5pS", delta="5mV", Vth="-55mV", k="0.025per_ms", erev="0mV") \
            if rng.random() < 0.5 else None
        calls.append(("handle_projection", ("proj0", "pop0", "pop0", "gs" + tag),
                      {"type": "continuousProjection", "synapse_obj": post, "pre_synapse_obj": pre}))
        calls.append(("handle_connection", ("proj0", 0, "pop0", "pop0", None, 0, 1), {"weight": rng.choice([1, 1, 2.0])}))
    elif feature == "fin":
        typ = ["projection", "electricalProjection", "continuousProjection"][(side + rng.randrange(2)) % 3]
        if rng.random() < 0.7:
            calls.append(("handle_projection", ("proj0", "pop0", "pop0", "syn" + tag), {"type": typ}))
        calls.append(("finalise_projection", ("proj0", "pop0", "pop0"),
                      {"synapse": "syn" + tag, "type": rng.choice([None, None, typ])}))
    elif feature == "inp":
        io_ = n.PulseGenerator(id="pg" + tag, delay="0ms", duration="%dms" % (1 + side), amplitude="1nA") \
            if rng.random() < 0.5 else None
        calls.append(("handle_input_list", ("il0", "pop0", "pg" + tag, 1), {"input_comp_obj": io_}))
        calls.append(("handle_single_input", ("il0", 0, 1),
                      {"segId": rng.choice([0, 2]), "fract": rng.choice([0.5, 0.25]), "weight": rng.choice([1.0, 2.0])}))
        if rng.random() < 0.5:
            calls.append(("finalise_input_source", ("il0",), {}))
    elif feature == "dangling":        # refers to ids this sequence never declares
        calls.pop()                    # no population
        calls.append(rng.choice([
            ("handle_location", (0, "pop0", comp, 1.0, 1.0, 1.0), {}),
            ("handle_connection", ("proj0", 0, "pop0", "pop0", "syn", 0, 1), {}),
            ("handle_single_input", ("il0", 0, 0), {}),
            ("finalise_projection", ("proj0", "pop0", "pop0"), {"synapse": "s", "type": None})]))
    return calls


FEATURES = ["loc", "proj", "elec", "cont", "fin", "inp", "dangling"]
# which features of the other side put something into the same table entries
PARTNERS = {"loc": ["loc", "proj", "inp"], "proj": ["proj", "elec", "cont", "fin"], "elec": ["elec", "proj", "fin"],
            "cont": ["cont", "elec", "fin"], "fin": ["fin", "proj", "elec"], "inp": ["inp", "loc"],
            "dangling": ["loc", "proj", "inp", "fin", "elec"]}


def gen_crafted_pair(rng):
    fa = rng.choice(FEATURES)
    fb = rng.choice(PARTNERS[fa])
    return {"seed": rng.randrange(10 ** 6), "features": [fa, fb]}


def crafted_calls(case):
    rnd = __import__("random").Random(case["seed"])
    return [craft_seq(rnd, f, i) for i, f in enumerate(case["features"])]


def crafted_case(ctx, case, exhaustive_cap):
    """all merges (or, beyond the cap, a stratified sample) of two hand-made short sequences: real builders vs their
    solo documents; the Lean model enumerates the same merges (`Glue.merges`) and reports where it differs from solo"""
    calls = crafted_calls(case)
    na, nb = len(calls[0]), len(calls[1])
    solo = [replay_n([calls[0]], [0] * na)[0][0], replay_n([calls[1]], [0] * nb)[0][0]]
    solo_deep = [replay_n([calls[0]], [0] * na)[1][0], replay_n([calls[1]], [0] * nb)[1][0]]
    total = 1
    for i in range(1, na + 1):
        total = total * (nb + i) // i
    if case.get("orders"):
        merges, mode = [(None, o) for o in case["orders"]], "given"
    elif total <= exhaustive_cap:
        merges, mode = list(enumerate(all_merges(na, nb))), "exhaustive"
    else:
        merges, mode = [], "stratified"
        for k, st in enumerate(STRATA * 3):
            merges.append((None, materialise(schedule_spec(ctx.rng, st), calls[0], calls[1])))
    ctx.count("crafted:%s" % mode)
    ctx.count("crafted:%s+%s" % tuple(sorted(case["features"])))
    common = bool(declared_ids(calls[0]) & declared_ids(calls[1])) or "dangling" in case["features"]
    real_diff = {}
    for k, order in merges:
        dumps, deeps = replay_n(calls, order)
        ctx.seen({"crafted": case["seed"], "f": case["features"], "order": order},
                 nontrivial=common and sum(1 for i in range(1, len(order)) if order[i] != order[i - 1]) >= 2)
        ctx.count("crafted:merges")
        ok = dumps[0] == solo[0] and dumps[1] == solo[1] and deeps[0] == solo_deep[0] and deeps[1] == solo_deep[1]
        if not ok:
            what = first_diff(dumps[0], solo[0], "A") or first_diff(dumps[1], solo[1], "B") or \
                first_diff(deeps[0], solo_deep[0], "A*") or first_diff(deeps[1], solo_deep[1], "B*")
            if dumps[0] != solo[0] or dumps[1] != solo[1]:
                real_diff[k if k is not None else len(real_diff)] = (dumps, order)
            ctx.fail("C07:interleave:crafted",
                     "two NetworkBuilder instances stepped in an interleaving of two short hand-made call sequences "
                     "do not build their solo documents: %s" % what,
                     {"kind": "crafted", "case": dict(case, orders=[order]), "diff": what,
                      "calls": [[c[0] for c in calls[0]], [c[0] for c in calls[1]]]})
    enc = [[encode_call(*c) for c in calls[0]], [encode_call(*c) for c in calls[1]]]
    _PENDING_X.append((case, mode, enc, solo, merges, real_diff))
    ctx.sample({"crafted": case["features"], "lengths": [na, nb], "merges": len(merges), "mode": mode})


_PENDING_X = []


def flush_crafted(ctx):
    lines = []
    for case, mode, enc, solo, merges, real_diff in _PENDING_X:
        if mode == "exhaustive":
            lines.append(json.dumps({"op": "allMerges", "a": enc[0], "b": enc[1]}))
        else:
            for _, order in merges:
                lines.append(json.dumps({"op": "interleave", "a": enc[0], "b": enc[1], "sched": [o == 0 for o in order]}))
    if not lines:
        return
    rc, out = fw.run_driver("C07", lines)
    if rc != 0 or len(out) != len(lines):
        ctx.disagree("driver", {"n": len(lines)}, "rc=%s %s" % (rc, "\n".join(out[-3:])[:300]), None)
        del _PENDING_X[:]
        return
    k = 0
    for case, mode, enc, solo, merges, real_diff in _PENDING_X:
        if mode == "exhaustive":
            m = json.loads(out[k])
            k += 1
            ctx.corr_evals += len(merges)
            if m.get("error") or m.get("n") != len(merges) or m["soloA"] != solo[0] or m["soloB"] != solo[1]:
                ctx.disagree("builder-model-merges", {"case": case}, {"n": len(merges), "solo": solo},
                             {kk: m.get(kk) for kk in ("error", "n", "soloA", "soloB")})
                continue
            mdiff = {d[0]: (d[1], d[2]) for d in m["diffs"]}
            if set(mdiff) != set(real_diff):
                ctx.disagree("builder-model-merges", {"case": case, "what": "merges whose documents differ from solo"},
                             sorted(real_diff)[:10], sorted(mdiff)[:10])
                continue
            for i, (ma, mb) in mdiff.items():
                if [ma, mb] != real_diff[i][0]:
                    ctx.disagree("builder-model-merges", {"case": dict(case, orders=[real_diff[i][1]])}, real_diff[i][0], [ma, mb])
                    break
        else:
            for (_, order) in merges:
                m = json.loads(out[k])
                k += 1
                ctx.corr_evals += 1
                dumps, _ = replay_n(crafted_calls(case), order, deep=False)
                if m.get("error") or m["a"] != dumps[0] or m["b"] != dumps[1]:
                    ctx.disagree("builder-model", {"case": dict(case, orders=[order])}, dumps,
                                 [m.get("a"), m.get("b"), m.get("error")])
    del _PENDING_X[:]


# ---- recorded sequences (what the two parsers really emit), two or three builders
def build_case_files(case, root):
    import neuroml.loaders  # noqa: F401
    import neuroml.utils  # noqa: F401
    import neuroml.writers as W
    rnd = __import__("random").Random
    sink = io.StringIO()
    paths = []
    with contextlib.redirect_stdout(sink), contextlib.redirect_stderr(sink):
        for i, (seed, kind) in enumerate(zip(case["seeds"], case["kinds"])):
            tag = "ABC"[i]
            doc = gen_net(rnd(seed), tag, rich=True, dangling=bool(case.get("dangling", {}).get(tag)),
                          explicit=bool(case.get("explicit")) and kind == "xml")   # the HDF5 writer refuses them
            p = os.path.join(root, "n%s.nml%s" % (tag, ".h5" if kind == "h5" else ""))
            (W.NeuroMLHdf5Writer if kind == "h5" else W.NeuroMLWriter).write(doc, p)
            paths.append(p)
    _close_tables()
    return paths


def norm_case(case):
    """first-pass case form {"seedA","seedB",..} -> {"seeds": [..], ..}"""
    if "seeds" not in case:
        case = dict(case, seeds=[case["seedA"], case["seedB"]])
    return case


def interleave_case(ctx, case):
    """case = {"seeds": [..], "kinds": [..], "scheds": [explicit] | "specs": [stratum specs]} -> real vs solo, model vs real"""
    case = norm_case(case)
    n = len(case["kinds"])
    root = tempfile.mkdtemp(prefix="verif_c07i_")
    try:
        paths = build_case_files(case, root)
        calls = [record(k, p, camel=bool(case.get("camel"))) for k, p in zip(case["kinds"], paths)]
        solos = [replay_n([c], [0] * len(c)) for c in calls]
        solo, solo_deep = [s[0][0] for s in solos], [s[1][0] for s in solos]
        common = bool(set.intersection(*[declared_ids(c) for c in calls]))
        enc = [[encode_call(*c) for c in cs] for cs in calls]
        orders = []
        for sched in case.get("scheds", []):
            orders.append(("given", order_from_sched(len(calls[0]), len(calls[1]), sched) if n == 2 and
                           (not sched or isinstance(sched[0], bool)) else list(sched)))
        for spec in case.get("specs", []):
            if n == 2:
                orders.append((spec[0], materialise(spec, calls[0], calls[1])))
            else:      # three builders: merge A with B by the spec, then the result with C by the next stratum
                ab = materialise(spec, calls[0], calls[1])
                rnd = __import__("random").Random(spec[3])
                spec2 = schedule_spec(rnd, STRATA[(STRATA.index(spec[0]) + 3) % len(STRATA)])
                abc = materialise(spec2, [("x",)] * len(ab), calls[2])
                it = iter(ab)
                orders.append((spec[0] + "/" + spec2[0], [next(it) if o == 0 else 2 for o in abc]))
        lines, reals = [], []
        for stratum, order in orders:
            dumps, deeps = replay_n(calls, order)
            alternates = sum(1 for i in range(1, len(order)) if order[i] != order[i - 1]) >= 2
            ctx.seen({"seeds": case["seeds"], "kinds": case["kinds"], "order": order, "dangling": case.get("dangling")},
                     nontrivial=common and alternates)
            ctx.count("interleave:" + "+".join(case["kinds"]))
            ctx.count("stratum:" + stratum)
            if common:
                ctx.count("interleave:common-ids")
            if len(set(case["seeds"])) < len(case["seeds"]):
                ctx.count("interleave:same-document")
            bad = [i for i in range(n) if dumps[i] != solo[i] or deeps[i] != solo_deep[i]]
            if bad:
                i = bad[0]
                what = first_diff(dumps[i], solo[i], "ABC"[i]) or first_diff(deeps[i], solo_deep[i], "ABC"[i] + "*")
                ctx.fail("C07:interleave:" + "+".join(case["kinds"]),
                         "%d NetworkBuilder instances stepped in an interleaving do not build their solo documents: %s"
                         % (n, what),
                         {"kind": "interleave", "case": {k: v for k, v in dict(case, scheds=[order]).items() if k != "specs"},
                          "diff": what})
            if n == 2:
                lines.append(json.dumps({"op": "interleave", "a": enc[0], "b": enc[1], "sched": [o == 0 for o in order]}))
            else:
                lines.append(json.dumps({"op": "interleaveN", "seqs": enc, "order": order}))
            reals.append((dumps, order))
        _PENDING.append((case, lines, reals, solo))
        ctx.sample({"interleave": case["kinds"], "calls": [len(c) for c in calls], "common_ids": common})
    finally:
        _close_tables()
        shutil.rmtree(root, ignore_errors=True)


_PENDING = []


def flush_model(ctx):
    """the pending interleavings through the Lean model (sharing configuration read off the extracted tables)"""
    lines = [l for (_, ls, _, _) in _PENDING for l in ls]
    if not lines:
        return
    rc, out = fw.run_driver("C07", lines)
    if rc != 0 or len(out) != len(lines):
        ctx.disagree("driver", {"n": len(lines)}, "rc=%s %s" % (rc, "\n".join(out[-3:])[:300]), None)
        del _PENDING[:]
        return
    k = 0
    for case, ls, reals, solo in _PENDING:
        for (dumps, order), l in zip(reals, out[k:k + len(ls)]):
            m = json.loads(l)
            ctx.corr_evals += 1
            if m.get("error"):
                if "not modelled" in m["error"]:
                    ctx.count("interleave:model-n/a(shared tables, >2 builders)")
                    continue
                ctx.disagree("builder-model", {"case": case, "order": order}, "real ok", m)
                continue
            got = [m["a"], m["b"]] if "a" in m else m["states"]
            msolo = [m["soloA"], m["soloB"]] if "a" in m else m["solos"]
            if got != dumps or msolo != solo:
                d = None
                for i in range(len(dumps)):
                    d = d or first_diff(got[i], dumps[i], "ABC"[i]) or first_diff(msolo[i], solo[i], "solo" + "ABC"[i])
                ctx.disagree("builder-model", {"case": {k_: v for k_, v in dict(case, scheds=[order]).items() if k_ != "specs"},
                                               "diff(model vs real)": d}, dumps, got)
        k += len(ls)
    del _PENDING[:]


def gen_interleave_case(rng, nsched, three=False):
    if three:
        kinds = rng.choice([["h5", "xml", "h5"], ["xml", "h5", "xml"], ["h5", "h5", "xml"], ["xml", "xml", "h5"]])
    else:
        kinds = rng.choice([["h5", "xml"], ["h5", "xml"], ["xml", "h5"], ["h5", "h5"], ["xml", "xml"]])
    seeds = [rng.randrange(10 ** 6) for _ in kinds]
    if rng.random() < 0.25:          # the SAME document through different parsers: every id occurs on both sides
        seeds = [seeds[0]] * len(kinds)
    case = {"seeds": seeds, "kinds": kinds, "specs": []}
    if rng.random() < 0.15:
        case["dangling"] = {rng.choice("ABC"[:len(kinds)]): True}
    if rng.random() < 0.3:
        case["explicit"] = True
    if rng.random() < 0.2:
        case["camel"] = True
    start = rng.randrange(len(STRATA))
    for i in range(nsched):          # consecutive strata: a case never draws the same stratum twice
        case["specs"].append(schedule_spec(rng, STRATA[(start + i) % len(STRATA)]))
    return case


# ---- one builder, several documents; one parser object, several files (model: brunR / ParserReuse)
def builder_reuse_case(ctx, case):
    """case = {"seeds": [..], "kinds": [..], "dangling": {...}}: the recorded sequences of the files are fed ONE AFTER
    THE OTHER to one real NetworkBuilder; the document after each must be the one a new builder builds (oracle) and the
    one the model predicts for the tree's variant (correspondence)"""
    case = norm_case(case)
    root = tempfile.mkdtemp(prefix="verif_c07r_")
    try:
        if case.get("crafted"):
            rnd = __import__("random").Random(case["seeds"][0])
            calls = [craft_seq(rnd, f, i % 3) for i, f in enumerate(case["crafted"])]
        else:
            paths = build_case_files(case, root)
            calls = [record(k, p) for k, p in zip(case["kinds"], paths)]
        from neuroml.hdf5.NetworkBuilder import NetworkBuilder
        sink = io.StringIO()
        views = []
        reset_shared()
        with contextlib.redirect_stdout(sink), contextlib.redirect_stderr(sink):
            b = NetworkBuilder()
            for cs in calls:
                err = None
                for name, a, kw in copy.deepcopy(cs):
                    if err is not None:
                        break
                    try:
                        getattr(b, name)(*a, **kw)
                    except Exception as e:   # noqa
                        err = type(e).__name__
                views.append(bdump(getattr(b, "nml_doc", None), err))
        fresh = [replay_n([cs], [0] * len(cs), deep=False)[0][0] for cs in calls]
        for i in range(len(calls)):
            ctx.seen({"builder-reuse": case, "doc": i}, nontrivial=i > 0)
            ctx.count("builder-reuse:doc%d:%s" % (min(i, 2), "same" if views[i] == fresh[i] else "differs"))
            if views[i] != fresh[i]:
                ctx.fail("C07:reuse:NetworkBuilder",
                         "document %d built on a NetworkBuilder that has built other documents before differs from the "
                         "document a new builder builds from the same calls: %s" % (i, first_diff(views[i], fresh[i], "doc")),
                         {"kind": "builder-reuse", "case": case, "doc": i})
        _PENDING_R.append(("reuse", case, json.dumps({"op": "reuse", "docs": [[encode_call(*c) for c in cs] for cs in calls]}),
                           (views, fresh)))
    finally:
        _close_tables()
        shutil.rmtree(root, ignore_errors=True)


def h5_description(doc, embedded, path):
    """what Model/ParserReuse.lean knows about an HDF5 file"""
    comps = []
    if embedded:
        for m in doc.member_data_items_:
            nm = m.get_name()
            if nm in STANDALONE_SKIP or not m.get_container():
                continue
            for o in getattr(doc, nm) or []:
                if getattr(o, "id", None) is not None:
                    comps.append([o.id, "%s:%s" % (type(o).__name__, o.id)])
    net = doc.networks[0] if doc.networks else None
    return {"id": doc.id, "embedded": comps if embedded else None, "network": net.id if net else None,
            "pops": [[p.id, p.component] for p in (net.populations if net else [])]}


def parser_reuse_case(ctx, case):
    """case = {"files": [[seed, embedded?, network?], ..]}: ONE NeuroMLHdf5Parser object parses the files one after the
    other, (a) driving a recorder (what component object every population gets), (b) optimized (the document returned)"""
    import neuroml as n
    import neuroml.writers as W
    from neuroml.hdf5.NeuroMLHdf5Parser import NeuroMLHdf5Parser
    rnd = __import__("random").Random
    root = tempfile.mkdtemp(prefix="verif_c07p_")
    sink = io.StringIO()
    try:
        descs, paths = [], []
        with contextlib.redirect_stdout(sink), contextlib.redirect_stderr(sink):
            for i, (seed, emb, hasnet) in enumerate(case["files"]):
                doc = gen_net(rnd(seed), "F%d" % i, rich=False)
                if not hasnet:
                    del doc.networks[:]
                p = os.path.join(root, "f%d.nml.h5" % i)
                W.NeuroMLHdf5Writer.write(doc, p, embed_xml=bool(emb))
                descs.append(h5_description(doc, emb, p))
                paths.append(p)
        _close_tables()

        def run(parser_factory, reuse):
            out, pobj = [], None
            for p in paths:
                if pobj is None or not reuse:
                    pobj = parser_factory()
                with contextlib.redirect_stdout(sink), contextlib.redirect_stderr(sink):
                    try:
                        rec = pobj.netHandler
                        if rec is not None:
                            del rec.calls[:]
                        pobj.parse(p)
                        if rec is not None:
                            out.append([[c[1][0], tok(c[2].get("component_obj"))] for c in rec.calls
                                        if c[0] == "handle_population"])
                        else:
                            d = pobj.get_nml_doc()
                            cs = []
                            for m in d.member_data_items_:
                                nm = m.get_name()
                                if nm in STANDALONE_SKIP or not m.get_container():
                                    continue
                                cs += ["%s:%s" % (type(o).__name__, o.id) for o in getattr(d, nm) or []]
                            out.append({"id": d.id, "comps": sorted(cs), "nets": [x.id for x in d.networks]})
                    except Exception as e:   # noqa
                        out.append({"err": type(e).__name__})
                    finally:
                        _close_tables()
            return out
        rec_reused = run(lambda: NeuroMLHdf5Parser(make_recorder()), True)
        rec_fresh = run(lambda: NeuroMLHdf5Parser(make_recorder()), False)
        opt_reused = run(lambda: NeuroMLHdf5Parser(None, optimized=True), True)
        opt_fresh = run(lambda: NeuroMLHdf5Parser(None, optimized=True), False)
        for i in range(len(paths)):
            ctx.seen({"parser-reuse": case, "file": i}, nontrivial=i > 0)
            same = rec_reused[i] == rec_fresh[i] and opt_reused[i] == opt_fresh[i]
            ctx.count("parser-reuse:%s:%s" % ("embedded" if case["files"][i][1] else "noembed",
                                              "same" if same else "differs"))
            if not same:
                what = first_diff(rec_reused[i], rec_fresh[i], "component_obj") or first_diff(opt_reused[i], opt_fresh[i], "optimized")
                ctx.fail("C07:reuse:NeuroMLHdf5Parser",
                         "file %d parsed by a NeuroMLHdf5Parser object that has parsed other files before gives another "
                         "result than a new parser: %s" % (i, what), {"kind": "parser-reuse", "case": case, "file": i})
        _PENDING_R.append(("parserReuse", case, json.dumps({"op": "parserReuse", "files": descs}),
                           (rec_reused, rec_fresh, opt_reused, opt_fresh)))
    finally:
        _close_tables()
        shutil.rmtree(root, ignore_errors=True)


_PENDING_R = []


def flush_reuse(ctx):
    if not _PENDING_R:
        return
    rc, out = fw.run_driver("C07", [x[2] for x in _PENDING_R])
    if rc != 0 or len(out) != len(_PENDING_R):
        ctx.disagree("driver", {"n": len(_PENDING_R)}, "rc=%s %s" % (rc, "\n".join(out[-3:])[:300]), None)
        del _PENDING_R[:]
        return
    for (kind, case, _, real), l in zip(_PENDING_R, out):
        m = json.loads(l)
        ctx.corr_evals += 1
        if m.get("error"):
            ctx.disagree(kind + "-model", {"case": case}, "real ok", m)
        elif kind == "reuse":
            views, fresh = real
            if m["views"] != views or m["fresh"] != fresh:
                ctx.disagree("builder-reuse-model", {"case": case, "reset": m.get("reset"),
                                                     "diff(model vs real)": first_diff(m["views"], views, "views") or
                                                     first_diff(m["fresh"], fresh, "fresh")}, views, m["views"])
        else:
            rr, rf, orr, of = real

            def conv(rows):
                return [{"compObjs": [[a, b] for a, b in r["compObjs"]], "opt": r["opt"]} for r in rows]
            want_reused = [{"compObjs": a, "opt": b} for a, b in zip(rr, orr)]
            want_fresh = [{"compObjs": a, "opt": b} for a, b in zip(rf, of)]
            if conv(m["reused"]) != want_reused or conv(m["fresh"]) != want_fresh:
                ctx.disagree("parser-reuse-model", {"case": case, "reset": m.get("reset"),
                                                    "diff(model vs real)": first_diff(conv(m["reused"]), want_reused, "reused")
                                                    or first_diff(conv(m["fresh"]), want_fresh, "fresh")},
                             want_reused, m["reused"])
    del _PENDING_R[:]


def gen_builder_reuse_case(rng):
    if rng.random() < 0.4:
        k = rng.randint(2, 3)
        return {"seeds": [rng.randrange(10 ** 6)], "kinds": [], "crafted": [rng.choice(FEATURES) for _ in range(k)]}
    k = rng.randint(2, 3)
    case = {"seeds": [rng.randrange(10 ** 6) for _ in range(k)], "kinds": [rng.choice(["h5", "xml"]) for _ in range(k)]}
    if rng.random() < 0.5:
        case["dangling"] = {rng.choice("ABC"[1:k]): True}
    return case


def gen_parser_reuse_case(rng):
    return {"files": [[rng.randrange(10 ** 6), rng.random() < 0.55, rng.random() < 0.8] for _ in range(rng.randint(2, 4))]}


# ------------------------------------------------------------------------------------------------ overlapping loads
# "Two loads that are active at the same time produce the documents they would have produced alone": (a) an HDF5 file
# whose embedded XML includes another HDF5 file (the inner load runs while the outer file is open), (b) a load started
# from inside a handler call of another load, (c) two or three parser-driven builds stepped in an interleaving at
# handler-call granularity -- the REAL parsers, each in its own thread, exactly one of them running at any time
# (a scheduler hands the turn over at every handler call), so the schedule is deterministic.
# Nothing in here may call tables.file._open_files.close_all(): the harness itself would end the other load.
OUTERS = {"h5": "net.nml.h5", "h5-simple": "simple.nml.h5", "h5-noembed": "noembed.nml.h5", "h5-inc": "h5inc.nml.h5",
          "xml": "net.nml", "xml-expl": "expl.nml", "xml-inc": "netinc.nml"}
INNER_POOL = ["NeuroMLHdf5Loader.load", "NeuroMLHdf5Loader.load[optimized]", "read_neuroml2_file[h5]",
              "read_neuroml2_file[includes]", "NeuroMLLoader.load", "ArrayMorphLoader.load",
              "NeuroMLXMLParser+NetworkBuilder", "NeuroMLHdf5Parser+NetworkBuilder", "NeuroMLHdf5Loader.load[bad]",
              "read_neuroml2_string[includes]", "NeuroMLHdf5Loader.load[h5inc]", "NeuroMLHdf5Loader.load[noembed]",
              "read_neuroml2_file[h5,optimized]"]


def outer_build(kind, d, builder):
    """one parser-driven build with the given handler, completed the way NeuroMLHdf5Loader does"""
    from neuroml.utils import add_all_to_document
    path = os.path.join(d, OUTERS[kind])
    if kind.startswith("h5"):
        from neuroml.hdf5.NeuroMLHdf5Parser import NeuroMLHdf5Parser
        p = NeuroMLHdf5Parser(builder)
        p.parse(path)
        doc = builder.get_nml_doc()
        if p.nml_doc_extra_elements:
            add_all_to_document(p.nml_doc_extra_elements, doc)
        return doc
    from neuroml.hdf5.NeuroMLXMLParser import NeuroMLXMLParser
    NeuroMLXMLParser(builder).parse(path)
    return builder.get_nml_doc()


def result_of(f):
    """canonical result of a load: {"res": "ok", "dump": ..} | {"res": "exc:.."} -- WITHOUT touching PyTables' registry"""
    try:
        return {"res": "ok", "dump": deep_dump(f())}
    except SystemExit:
        return {"res": "exc:SystemExit"}
    except BaseException as e:   # noqa
        return {"res": "exc:" + exc_tag(e)}


def make_wrapping_builder(hook):
    """a NetworkBuilder every handler call of which first calls hook(call_index)"""
    from neuroml.hdf5.NetworkBuilder import NetworkBuilder

    class Wrapped(NetworkBuilder):
        def __init__(self):
            NetworkBuilder.__init__(self)
            self._n = 0

        # the parsers inspect handle_population for a `properties` argument
        def handle_population(self, population_id, component, size, component_obj=None, properties={}, notes=None):
            hook(self._bump())
            return NetworkBuilder.handle_population(self, population_id, component, size, component_obj=component_obj,
                                                    properties=properties, notes=notes)

        def _bump(self):
            self._n += 1
            return self._n - 1

    def mk(name):
        base = getattr(NetworkBuilder, name)

        def f(self, *a, **kw):
            hook(self._bump())
            return base(self, *a, **kw)
        return f
    for h in HANDLERS:
        if h != "handle_population":
            setattr(Wrapped, h, mk(h))
    return Wrapped()


def count_calls(kind, d):
    n = [0]
    b = make_wrapping_builder(lambda i: n.__setitem__(0, n[0] + 1))
    res = result_of(lambda: outer_build(kind, d, b))
    return n[0], res


def nested_load(spec, dirs, log):
    """spec = entry string | {"outer": kind, "set": tag, "at": fraction, "inner": spec}: run it, appending
    (label, result) of every load to `log` in completion order"""
    if isinstance(spec, str):
        tag, entry = spec.split("|")
        r = result_of(lambda: perform(entry, dirs[tag]))
        log.append((spec, r))
        return r
    d = dirs[spec["set"]]
    total = spec["_n"]
    at = min(total - 1, int(spec["at"] * total)) if total else 0

    def hook(i):
        if i == at:
            nested_load(spec["inner"], dirs, log)
    b = make_wrapping_builder(hook)
    r = result_of(lambda: outer_build(spec["outer"], d, b))
    log.append(("%s|outer:%s@%d" % (spec["set"], spec["outer"], at), r))
    return r


def solo_of(spec, dirs, memo):
    """the results the loads of `spec` give alone, one after the other"""
    if isinstance(spec, str):
        if spec not in memo:
            tag, entry = spec.split("|")
            memo[spec] = result_of(lambda: perform(entry, dirs[tag]))
        return
    key = "%s|outer:%s" % (spec["set"], spec["outer"])
    if key not in memo:
        n, r = count_calls(spec["outer"], dirs[spec["set"]])
        memo[key] = r
        memo[key + "#n"] = n
    spec["_n"] = memo[key + "#n"]
    solo_of(spec["inner"], dirs, memo)


def strip_(spec):
    return spec if isinstance(spec, str) else {k: (strip_(v) if k == "inner" else v) for k, v in spec.items() if k != "_n"}


def overlap_case(ctx, case):
    """case = {"seeds": {"A":..,"B":..}, "mode": "callback", "spec": nested spec}
            | {"seeds": .., "mode": "stepped", "builds": [[tag, kind], ..], "spec3": stratum spec | "order": [..]}
            | {"seeds": .., "mode": "h5-in-h5"}"""
    root = tempfile.mkdtemp(prefix="verif_c07o_")
    old_cwd = os.getcwd()
    sink = io.StringIO()
    try:
        dirs = {}
        with contextlib.redirect_stdout(sink), contextlib.redirect_stderr(sink):
            for tag in "AB":
                dirs[tag] = write_fileset(ctx.rng, root, tag, case["seeds"][tag])
        os.chdir(root)
        with contextlib.redirect_stdout(sink), contextlib.redirect_stderr(sink):
            if case["mode"] == "callback":
                memo, log = {}, []
                spec = json.loads(json.dumps(case["spec"]))
                solo_of(spec, dirs, memo)
                nested_load(spec, dirs, log)
                depth = 0
                s_ = spec
                while not isinstance(s_, str):
                    depth, s_ = depth + 1, s_["inner"]
                ctx.count("overlap:callback:depth%d" % depth)
                for label, r in log:
                    key = label.split("@")[0]
                    ctx.seen({"overlap": strip_(case["spec"]), "seeds": case["seeds"], "load": label}, nontrivial=True)
                    ctx.count("overlap:" + ("outer" if "|outer:" in label else "inner") + ":" + r["res"].split(":")[0])
                    if r != memo[key]:
                        ctx.fail("C07:overlap:callback",
                                 "a load that is active while another load runs (started from inside a handler call) "
                                 "does not give the result it gives alone: %s: %s" % (label, first_diff(r, memo[key])),
                                 {"kind": "overlap", "case": dict(case, spec=strip_(case["spec"])), "load": label,
                                  "alone": memo[key]["res"], "overlapping": r["res"]})
            elif case["mode"] == "h5-in-h5":
                # expected = the outer file without its include, merged (the loader's own merge) with the inner file alone
                from neuroml.utils import add_all_to_document
                import neuroml.loaders as L
                for tag in "AB":
                    d = dirs[tag]
                    for entry, f in (("NeuroMLHdf5Loader.load", lambda p: L.NeuroMLHdf5Loader.load(p)),
                                     ("read_neuroml2_file", lambda p: L.read_neuroml2_file(p, include_includes=True))):
                        def expected():
                            a = f(os.path.join(d, "h5inc_noinc.nml.h5"))
                            add_all_to_document(f(os.path.join(d, "simple.nml.h5")), a)
                            return a
                        want = result_of(expected)
                        got = result_of(lambda: f(os.path.join(d, "h5inc.nml.h5")))
                        ctx.seen({"h5-in-h5": case["seeds"][tag], "entry": entry}, nontrivial=True)
                        ctx.count("overlap:h5-in-h5:" + got["res"].split(":")[0])
                        if got != want:
                            ctx.fail("C07:overlap:h5-in-h5",
                                     "%s of an HDF5 file whose embedded XML includes another HDF5 file (the inner load "
                                     "runs while the outer one is active) is not the outer file merged with the inner "
                                     "file loaded alone: %s" % (entry, first_diff(got, want)),
                                     {"kind": "overlap", "case": case, "entry": entry, "got": got["res"], "want": want["res"]})
            else:
                stepped_case(ctx, case, dirs)
    finally:
        os.chdir(old_cwd)
        _close_tables()
        shutil.rmtree(root, ignore_errors=True)


class Stepper:
    """hands the turn to exactly one of n worker threads at a time; a worker gives it back at its next handler call"""

    def __init__(self, n):
        import threading
        self.go = [threading.Semaphore(0) for _ in range(n)]
        self.back = threading.Semaphore(0)
        self.done = [False] * n
        self.stuck = False

    def grant(self, i):
        if self.done[i]:
            return
        self.go[i].release()
        if not self.back.acquire(timeout=120):
            self.stuck = True

    def pause(self, i):          # called by worker i at every handler call
        self.back.release()
        if not self.go[i].acquire(timeout=300):
            raise RuntimeError("stepper: worker %d was never resumed" % i)


def stepped_case(ctx, case, dirs):
    """the REAL parsers of 2-3 builds, each in its own thread, stepped in the given merge of their handler calls
    (one grant = run up to and including the next handler call; the first grant runs the part of parse() before the
    first call: opening the file, reading the embedded XML and its includes)"""
    import threading
    builds = case["builds"]
    n = len(builds)
    solo, ncalls = [], []
    for tag, kind in builds:
        k, r = count_calls(kind, dirs[tag])
        solo.append(r)
        ncalls.append(k)
    if case.get("order"):
        order = list(case["order"])
    else:
        seqs = [[("x",)] * (k + 1) for k in ncalls]
        spec = case["spec3"]
        order = materialise(spec, seqs[0], seqs[1])
        if n == 3:
            rnd = __import__("random").Random(spec[3])
            spec2 = schedule_spec(rnd, STRATA[(STRATA.index(spec[0]) + 5) % len(STRATA)])
            abc = materialise(spec2, [("x",)] * len(order), seqs[2])
            it = iter(order)
            order = [next(it) if o == 0 else 2 for o in abc]
    st = Stepper(n)
    results = [None] * n

    def work(i):
        tag, kind = builds[i]
        try:
            st.go[i].acquire()
            b = make_wrapping_builder(lambda j: st.pause(i))
            results[i] = result_of(lambda: outer_build(kind, dirs[tag], b))
        finally:
            st.done[i] = True
            st.back.release()
    threads = [threading.Thread(target=work, args=(i,), daemon=True) for i in range(n)]
    for t in threads:
        t.start()
    for i in order:
        st.grant(i)
    for i in range(n):           # whatever is left (a build that makes more calls than it did alone)
        while not st.done[i] and not st.stuck:
            st.grant(i)
    for t in threads:
        t.join(timeout=30)
    alternates = sum(1 for i in range(1, len(order)) if order[i] != order[i - 1]) >= 2
    ctx.seen({"stepped": builds, "seeds": case["seeds"], "order": order}, nontrivial=alternates)
    ctx.count("overlap:stepped:%d-builds" % n)
    ctx.count("overlap:stepped:" + "+".join(k for _, k in builds))
    if st.stuck:
        ctx.disagree("stepper", {"case": case}, "a worker did not give the turn back", None)
        return
    for i in range(n):
        if results[i] != solo[i]:
            ctx.fail("C07:overlap:stepped",
                     "%d parser-driven builds stepped in an interleaving of their handler calls (real parsers, all files "
                     "open at the same time): build %d (%s) does not give the document it gives alone: %s"
                     % (n, i, builds[i][1], first_diff(results[i], solo[i])),
                     {"kind": "overlap", "case": dict({k: v for k, v in case.items() if k != "spec3"}, order=order),
                      "build": i, "alone": solo[i]["res"], "stepped": (results[i] or {}).get("res")})


def gen_overlap_case(rng, i):
    seeds = {"A": rng.randrange(10 ** 6), "B": rng.randrange(10 ** 6)}
    if i % 3 == 0:
        inner = "%s|%s" % (rng.choice("AB"), rng.choice(INNER_POOL))
        if rng.random() < 0.4:        # depth 2: the inner load is itself a build with a load inside
            inner = {"outer": rng.choice(sorted(OUTERS)), "set": rng.choice("AB"), "at": rng.random(), "inner": inner}
        spec = {"outer": rng.choice(sorted(OUTERS)), "set": rng.choice("AB"),
                "at": rng.choice([0.0, 0.999, rng.random(), rng.random()]), "inner": inner}
        return {"seeds": seeds, "mode": "callback", "spec": spec}
    nb = 3 if i % 6 == 5 else 2
    builds = [[rng.choice("AB"), rng.choice(sorted(OUTERS))] for _ in range(nb)]
    if rng.random() < 0.3:
        builds[1] = list(builds[0])            # the SAME file twice, at the same time
    return {"seeds": seeds, "mode": "stepped", "builds": builds,
            "spec3": schedule_spec(rng, STRATA[rng.randrange(len(STRATA))])}


# ------------------------------------------------------------------------------------------------ corpus / run / replay
CORPUS = [
    # the reproduction of the class-level tables: common population ids, B declared between A's declaration and A's locations
    {"kind": "interleave", "case": {"seedA": 11, "seedB": 12, "kinds": ["h5", "xml"],
                                    "scheds": [[True] * 4 + [False] * 60 + [True] * 60, [i % 2 == 0 for i in range(120)]]}},
    {"kind": "interleave", "case": {"seedA": 5, "seedB": 6, "kinds": ["xml", "xml"],
                                    "scheds": [[True] * 3 + [False] * 60 + [True] * 60]}},
    # a file with a dangling population reference must fail the same way whether or not another file declaring that
    # population was loaded before (class-level tables made the second load succeed silently)
    {"kind": "history", "session": {"seeds": {"A": 101, "B": 102}, "steps": [
        ["load", "A", "NeuroMLHdf5Loader.load"], ["load", "A", "NeuroMLHdf5Loader.load[bad]"],
        ["load", "B", "NeuroMLXMLParser+NetworkBuilder"], ["load", "A", "NeuroMLXMLParser+NetworkBuilder[bad]"],
        ["load", "A", "NeuroMLHdf5Loader.load[bad]"], ["load", "B", "NeuroMLHdf5Loader.load"]]}},
    # string with includes twice (the repaired `already_included=[]` default), file rewritten in place in between
    {"kind": "history", "session": {"seeds": {"A": 7, "B": 8}, "steps": [
        ["load", "A", "read_neuroml2_string[includes]"], ["load", "A", "read_neuroml2_string[includes]"],
        ["load", "A", "read_neuroml2_file[includes]"], ["rewrite", "A", 99], ["load", "A", "read_neuroml2_file[includes]"],
        ["load", "A", "read_neuroml2_string[includes]"], ["load", "B", "read_neuroml2_file[includes]"]]}},
    # the XML parser resolves includes with a list of its own: twice, and after another file
    {"kind": "history", "session": {"seeds": {"A": 31, "B": 32}, "steps": [
        ["load", "A", "NeuroMLXMLParser+NetworkBuilder[includes]"], ["load", "A", "NeuroMLXMLParser+NetworkBuilder[includes]"],
        ["load", "B", "NeuroMLXMLParser+NetworkBuilder[includes]"], ["load", "A", "read_neuroml2_file[netinc]"],
        ["load", "A", "NeuroMLXMLParser+NetworkBuilder[includes]"]]}},
    # ---- second pass
    # regression (fixed finding): one builder, two documents: the second refers to a population only the first declares (
    # C07:reuse:NetworkBuilder); the same files through a reused XML parser with a NEW builder per file are fine
    {"kind": "history", "session": {"seeds": {"A": 2, "B": 5}, "steps": [
        ["load", "A", "reuse:xml-same:net"], ["load", "A", "reuse:xml-same:bad"], ["load", "B", "reuse:xml-same:net"],
        ["load", "A", "reuse:xml-fresh:net"], ["load", "A", "reuse:xml-fresh:bad"], ["load", "B", "reuse:xml-fresh:expl"],
        ["load", "A", "reuse:builder-h5:net"], ["load", "A", "reuse:builder-h5:bad"]]}},
    # one HDF5 parser object, several files: embedded XML / network of an earlier file leak into a file that has none
    # (regression: fixed findings C07:reuse:NeuroMLHdf5Parser, C07:reuse:NeuroMLHdf5Parser+NetworkBuilder)
    {"kind": "history", "session": {"seeds": {"A": 2, "B": 5}, "steps": [
        ["load", "A", "reuse:h5-fresh:simple"], ["load", "A", "reuse:h5-fresh:noembed"],
        ["load", "B", "reuse:h5-opt:simple"], ["load", "A", "reuse:h5-opt:noembed"], ["load", "A", "reuse:h5-opt:nonet"],
        ["load", "A", "reuse:h5-same:simple"], ["load", "B", "reuse:h5-same:noembed"], ["load", "A", "reuse:h5-same:bad"]]}},
    {"kind": "builder-reuse", "case": {"seeds": [3], "kinds": [], "crafted": ["loc", "dangling", "proj", "dangling"]}},
    {"kind": "builder-reuse", "case": {"seeds": [17], "kinds": [], "crafted": ["inp", "dangling", "fin"]}},
    {"kind": "parser-reuse", "case": {"files": [[3, True, True], [4, False, True], [5, True, False], [6, False, False],
                                                [7, True, True]]}},
    # the configuration switch: flipped between loads; a document id that is no NmlId loads only while it is off
    {"kind": "history", "session": {"seeds": {"A": 41, "B": 42}, "steps": [
        ["load", "A", "NeuroMLHdf5Loader.load[badid]"], ["toggle", False], ["load", "A", "NeuroMLHdf5Loader.load[badid]"],
        ["load", "B", "NeuroMLXMLParser+NetworkBuilder[badid]"], ["load", "A", "NeuroMLHdf5Loader.load"],
        ["toggle", True], ["load", "A", "NeuroMLHdf5Loader.load[badid]"], ["load", "A", "NeuroMLHdf5Loader.load"]]}},
    # error paths and the files of the second pass, twice and after each other
    {"kind": "history", "session": {"seeds": {"A": 51, "B": 52}, "steps": [
        ["load", "A", "NeuroMLLoader.load[notnml]"], ["load", "A", "read_neuroml2_file[missing]"],
        ["load", "A", "read_neuroml2_file[badext]"], ["load", "A", "NeuroMLHdf5Loader.load[nonet,optimized]"],
        ["load", "B", "NeuroMLHdf5Loader.load[h5inc]"], ["load", "A", "read_neuroml2_file[h5inc]"],
        ["load", "A", "_read_neuroml2[direct]"], ["load", "A", "_read_neuroml2[direct]"],
        ["load", "B", "NeuroMLXMLParser+NetworkBuilder[expl]"], ["load", "A", "NeuroMLLoader.load[notnml]"],
        ["load", "A", "read_neuroml2_string[h5-include,optimized]"], ["load", "A", "read_neuroml2_file[noincludes]"]]}},
    # all merges of short hand-made sequences: one pair per table of the builder (seeds found by making that table
    # class-level: these pairs then have merges that differ from solo)
    {"kind": "crafted", "case": {"seed": 0, "features": ["loc", "loc"]}},          # populations
    {"kind": "crafted", "case": {"seed": 0, "features": ["proj", "elec"]}},        # projections
    {"kind": "crafted", "case": {"seed": 1, "features": ["inp", "inp"]}},          # input_lists
    {"kind": "crafted", "case": {"seed": 0, "features": ["elec", "elec"]}},        # projection_syns
    {"kind": "crafted", "case": {"seed": 1, "features": ["fin", "fin"]}},          # projection_types
    {"kind": "crafted", "case": {"seed": 6, "features": ["cont", "cont"]}},        # projection_syns_pre
    {"kind": "crafted", "case": {"seed": 2, "features": ["proj", "proj"]}},        # weightDelays
    {"kind": "crafted", "case": {"seed": 4, "features": ["dangling", "inp"]}},
    # loads that overlap in time: HDF5 including HDF5; a load from inside a handler call (depth 1 and 2); the real
    # parsers of two / three builds stepped in an interleaving, the first one finishing while the others are active
    {"kind": "overlap", "case": {"seeds": {"A": 2, "B": 5}, "mode": "h5-in-h5"}},
    {"kind": "overlap", "case": {"seeds": {"A": 2, "B": 5}, "mode": "callback", "spec": {
        "outer": "h5", "set": "A", "at": 0.5, "inner": "B|NeuroMLHdf5Loader.load"}}},
    {"kind": "overlap", "case": {"seeds": {"A": 2, "B": 5}, "mode": "callback", "spec": {
        "outer": "xml", "set": "A", "at": 0.0, "inner": {"outer": "h5-noembed", "set": "B", "at": 0.999,
                                                         "inner": "A|read_neuroml2_file[h5,optimized]"}}}},
    {"kind": "overlap", "case": {"seeds": {"A": 2, "B": 5}, "mode": "stepped", "builds": [["A", "h5"], ["B", "h5"]],
                                 "spec3": ["preempt-a-after-decl", 0.3, 0.5, 1]}},
    {"kind": "overlap", "case": {"seeds": {"A": 2, "B": 5}, "mode": "stepped",
                                 "builds": [["A", "h5-simple"], ["A", "h5-simple"], ["B", "xml"]],
                                 "spec3": ["round-robin-k", 0.3, 0.5, 2]}},
    # hand-built optimized containers used before an optimized load (`OptimizedList.__init__(indices={})`)
    {"kind": "history", "session": {"seeds": {"A": 21, "B": 22}, "steps": [
        ["use"], ["load", "A", "NeuroMLHdf5Loader.load[optimized]"], ["load", "B", "read_neuroml2_file[h5,optimized]"],
        ["use"], ["load", "A", "NeuroMLHdf5Loader.load[optimized]"], ["load", "A", "ArrayMorphLoader.load"],
        ["load", "B", "ArrayMorphLoader.load"], ["load", "A", "ArrayMorphLoader.load"]]}},
]


def check_table(ctx):
    """driver's reading of the generated tables vs the translators' own; the two translators against each other"""
    rc, out = fw.run_driver("C07", [json.dumps({"op": "table"})])
    ctx.corr_evals += 1
    if rc != 0 or len(out) != 1:
        ctx.disagree("driver", "table", "rc=%s %s" % (rc, "\n".join(out[-3:])[:300]), None)
        return
    m = json.loads(out[0])
    ctx.extra["glue"]["model_cfg_shared_tables"] = m.get("cfg")
    if sorted(m.get("violating", [])) != _GLUE.get("violating", []) or not m.get("wf"):
        ctx.disagree("table", "violating variables", _GLUE.get("violating"), m)
    h = _GLUE.get("handlers", {})
    if sorted(m.get("reuseViolating", [])) != h.get("violating"):
        ctx.disagree("table", "per-object violating attributes", h.get("violating"), m.get("reuseViolating"))
    if m.get("cfg") != m.get("handlersCfg"):
        ctx.disagree("table", "which NetworkBuilder tables are class-level: glue_extract vs handler_extract",
                     m.get("cfg"), m.get("handlersCfg"))
    if m.get("builderResets") != (not h.get("builder_stale")) or m.get("parserResets") != (not h.get("parser_stale")):
        ctx.disagree("table", "reset flags", [h.get("builder_stale"), h.get("parser_stale")],
                     [m.get("builderResets"), m.get("parserResets")])
    ctx.extra["handlers"]["model_variant"] = {"builderResets": m.get("builderResets"), "parserResets": m.get("parserResets"),
                                              "handlersPrivate": m.get("handlersPrivate"), "useIsModel": m.get("useIsModel")}
    for v in _GLUE.get("violating", []):
        key = "C07:shared-mutable:" + v
        if key in fw.known_findings("C07"):
            ctx.fail(key, "shared mutable variable read before written: " + v, {"kind": "table", "var": v})


def run_case(ctx, c, pool, cap):
    c = json.loads(json.dumps(c))
    k = c["kind"]
    if k == "interleave":
        interleave_case(ctx, c["case"])
    elif k == "crafted":
        crafted_case(ctx, c["case"], cap)
    elif k == "builder-reuse":
        builder_reuse_case(ctx, c["case"])
    elif k == "parser-reuse":
        parser_reuse_case(ctx, c["case"])
    elif k == "history":
        run_session(ctx, c["session"], pool)
    elif k == "env":
        env_witness(ctx)
    elif k == "overlap":
        overlap_case(ctx, c["case"])


def run(ctx):
    import time
    if not _GLUE:
        regenerate(ctx)
    check_table(ctx)
    pool = ThreadPoolExecutor(max_workers=4)
    thorough = ctx.tier == "thorough"
    cap = 4000 if thorough else 1000     # exhaustive up to C(14,7) = 3432 merges (two sequences of length <= 7) / C(12,6)
    # a broken obligation widens the search: fully for the cheap streams, 3x for the ones that write files / start processes
    m_cheap, m_dear = ctx.search_mult, min(ctx.search_mult, 3)
    secs = ctx.extra.setdefault("stream_seconds", {})

    def timed(name, t0):
        secs[name] = round(secs.get(name, 0) + time.time() - t0, 1)
    try:
        t0 = time.time()
        for c in CORPUS:
            run_case(ctx, c, pool, cap)
        env_witness(ctx)
        timed("corpus", t0)
        # all merges of short hand-made sequences
        t0 = time.time()
        for _ in range(ctx.n(16, 80) * m_cheap):
            crafted_case(ctx, gen_crafted_pair(ctx.rng), cap)
        flush_crafted(ctx)
        timed("crafted", t0)
        # recorded sequences: two builders, three builders
        t0 = time.time()
        for i in range(ctx.n(12, 100) * m_dear):
            interleave_case(ctx, gen_interleave_case(ctx.rng, ctx.n(4, 6), three=(i % 4 == 3)))
        flush_model(ctx)
        timed("recorded", t0)
        # one builder / one parser object, several documents
        t0 = time.time()
        for _ in range(ctx.n(8, 60) * m_dear):
            builder_reuse_case(ctx, gen_builder_reuse_case(ctx.rng))
        for _ in range(ctx.n(6, 40) * m_dear):
            parser_reuse_case(ctx, gen_parser_reuse_case(ctx.rng))
        flush_reuse(ctx)
        timed("reuse", t0)
        # loads that overlap in time
        t0 = time.time()
        for i in range(ctx.n(12, 90) * m_dear):
            overlap_case(ctx, gen_overlap_case(ctx.rng, i))
        timed("overlap", t0)
        t0 = time.time()
        for _ in range(ctx.n(7, 45) * m_dear):      # one fresh process per distinct action
            run_session(ctx, gen_session(ctx.rng, ctx.rng.randint(8, 16)), pool)
        timed("history", t0)
    finally:
        pool.shutdown(wait=True)


def replay(ctx, payload):
    case = payload.get("case", payload)
    if not _GLUE:
        try:
            regenerate(ctx)
        except Exception:
            pass
    pool = ThreadPoolExecutor(max_workers=4)
    try:
        if case.get("kind") == "table":
            return {"fails": case.get("var") in _GLUE.get("violating", []), "violating": _GLUE.get("violating")}
        run_case(ctx, case, pool, 4000)
        flush_crafted(ctx)
        flush_model(ctx)
        flush_reuse(ctx)
    finally:
        pool.shutdown(wait=True)
    return {"fails": bool(ctx.failures or ctx.corr_disagreements), "failures": ctx.failures,
            "disagreements": ctx.corr_disagreements}
