"""C08 — a failed read or write leaves the document and the process clean.

Tie (translator + fault-injection correspondence):
* `regenerate` runs translators/skeleton_extract.py on fw.REPO's current tree and rewrites
  lean/NmlVerif/Gen/Skeletons.lean (effect skeletons of the reader/writer entry points).
* `run`: for generated documents (XML documents, HDF5-able networks, array morphologies, HDF5 / array-morphology
  files to read) the real library is run once without a fault while every call from the library into the file layer
  is recorded and labelled with the skeleton site it belongs to; it is then re-run with an exception injected at
  call 1..n.  After every failed call the full property is evaluated on the real code (the library raised; no handle
  is open: PyTables registry, /proc/self/fd, the text file object; canonical dump of the document unchanged; the same
  call succeeds afterwards).  The same (calls, fault point) is given to Drivers/C08.lean, which runs the Lean fault
  semantics on the extracted skeleton; (raised, handle left open, document modified, calls made) must agree.
* truncation: documents are written, cut (thorough: at EVERY byte offset; quick: a stratified sample) and loaded; the
  loader must raise exactly when at least the last byte of the root's end tag is lost; the file's token stream (with
  its white space) must be the Lean serialisation `tokens tree ++ trail n`, and lxml's verdict is compared in both
  directions with the Lean `TruncWs.Complete` predicate on every cut.
* second pass: 13 entry points / specialisations (caller-owned file object, embed_xml=False, optimized containers,
  module-level readers, include resolution); after every failed call the same document object is retried on the same
  path and must leave what a first call leaves; component identity is compared besides the value dump.
"""
import builtins
import json
import os
import re
import shutil
import sys
import tempfile

import fw

sys.path.insert(0, os.path.join(fw.VERIF, "translators"))
import skeleton_extract as SX  # noqa: E402

LEAN_PROPS = ["NmlVerif.Props.C08", "NmlVerif.Props.C08Gen"]
LEAN_EXTRA = ["NmlVerif.Gen.Skeletons"]
LEVEL = "proof"
RULE = ("generated cases x every fault point.  Cases: XML documents (cells, point neurons, networks, notes with markup "
        "characters, ill-typed members that make export raise ValueError/AttributeError), HDF5-able networks "
        "(populations with/without instances and properties, projections with/without weights and segment info, "
        "electrical/continuous projections, input lists, the refused synapticConnection/explicitInput, empty "
        "projections/input lists, a second network, None ids/delays), array morphologies (single, documents of cells "
        "with/without ids, colliding cell ids, stand-alone morphologies), HDF5 and array-morphology files to read "
        "(intact and damaged: missing root group, malformed embedded XML, wrong array shape, missing attribute, not "
        "an HDF5 file).  For each case: a fault-free run, then an injected OSError-class and (writers) "
        "AttributeError-class exception at file-layer call 1..n (all calls when n <= 40 [thorough 150], else the "
        "first 12, the last 3 and a seeded sample), plus the failure the input itself provokes and a retry with the "
        "cause removed.  One evaluation = one (case, fault point, exception class) or one (written XML file, cut "
        "offset); a fault evaluation is non-trivial when the fault point lies after the open call (there is "
        "something to leak), a cut when it lies strictly inside the document; distinct = distinct (entry point, "
        "skeleton site of the faulted call, exception class, position 1/2/3/later) resp. (document, offset).  "
        "Truncation: thorough = EVERY byte offset 0..len of every written file (15 files incl. one of ~10 kB); quick = a "
        "stratified sample per file (token boundaries, first/middle/last byte of start tags, end tags, empty "
        "elements, character data, white space, attribute values, the first 20 and last 60 bytes).  "
        "Second-pass cases: caller-owned file object with close=False, embed_xml=False / compress=False, documents of "
        "optimized containers, NeuroMLLoader / read_neuroml2_file / read_neuroml2_string on XML and HDF5 (intact, "
        "truncated, other root element, empty, missing, damaged), include resolution with an XML and an HDF5 include; "
        "after every failed call the SAME document object is retried on the same path and must leave what a first "
        "call leaves (bytes for XML, structural digest for HDF5, value dump for readers); component identity is "
        "compared besides the value dump.")
TRUST = [
    "the skeleton translator (translators/skeleton_extract.py) is validated, not verified: every real file-layer call "
    "of every run must be labelled with a site of the extracted skeleton and the model run on it must reproduce the "
    "calls, the outcome, the open-handle and the document-modified verdicts of the real run",
    "un-expanded code (generateDS export, recursive parse_group, other entry points) is assumed handle-neutral and "
    "document-neutral in the model; the oracle observes handles and the document on the real code at every fault point",
    "a failing close releases the handle (the injection performs the real close first)",
    "lxml accepts exactly the token streams that are `TruncWs.Complete` (compared in both directions at every cut offset "
    "that is tried: every offset in the thorough tier); the byte -> token mapping (which token a byte offset falls "
    "in, and whether what is left of it is markup, character data or white space) is the harness's tokeniser",
    "recursion of parse_group is unrolled three levels (the depth of the layout the writer produces); a deeper group "
    "is un-expanded code (exercised by the deep_group case)",
]
ASSUMPTIONS = [
    "entry points are analysed and driven at these argument specialisations: defaults; NeuroMLWriter.write with a "
    "caller-owned file object and close=False; NeuroMLHdf5Writer.write with embed_xml=False, compress=False, and "
    "on documents of optimized containers; NeuroMLHdf5Loader.load with optimized=True; read_neuroml2_file with "
    "include_includes=True; other combinations are not analysed",
    "AttributeError-class faults are injected into write-side calls only (inside a read, Python itself turns an "
    "AttributeError from __getattr__ into 'attribute absent')",
    "OS-level descriptors are observed through /proc/self/fd while the harness keeps the file objects alive; garbage "
    "collection timing is not modelled",
]

ENTRY_NAMES = {e[0]: e[1] for e in SX.ENTRIES}
ENTRY_IDS = {e[1]: e[0] for e in SX.ENTRIES}
KIND_CLASS = {"openNoFinally": "leak", "bareClose": "leak", "mutateNoRestore": "doc-changed",
              "bareRestore": "doc-changed", "swallow": "swallowed", "retInFinally": "swallowed",
              "unsupported": "unsupported"}
GEN = os.path.join(fw.LEAN, "NmlVerif", "Gen", "Skeletons.lean")

FAULT_KEYS = set()  # distinct non-trivial fault evaluations (reported separately from truncation offsets)
SK = None          # translator result for fw.REPO
LIBDIR = None


# ============================================================================ translator step
def load_skeletons():
    global SK, LIBDIR
    if SK is None:
        SK = SX.extract(fw.REPO)
        LIBDIR = os.path.join(os.path.realpath(fw.REPO), "neuroml") + os.sep
        SK["bykey"] = {}
        for key, sids in SK["funcs"].items():
            SK["bykey"][key] = sorted(sids, key=lambda s: (SK["sites"][s]["hi"] - SK["sites"][s]["lo"]))
        SK["entry"] = {e["id"]: e for e in SK["entries"]}
    return SK


def known_sync_gaps():
    """Lean `known` (Props/C08Gen.lean) must mirror known_findings.d/C08.json"""
    gaps = []
    src = open(fw.module_path("NmlVerif.Props.C08Gen")).read()
    m = re.search(r"def known : List \(Nat × UKind\) := \[(.*?)\n\]", src, re.S)
    rows = re.findall(r"\((\d+),\s*\.(\w+)\)\s*,?\s*--\s*(C08:\S+)", m.group(1)) if m else []
    if m is None:
        gaps.append("cannot find `def known` in Props/C08Gen.lean")
    keys = set(fw.known_findings("C08"))
    lean_keys = set()
    for eid, kind, key in rows:
        name = ENTRY_NAMES.get(int(eid))
        want = "C08:%s:%s" % (name, KIND_CLASS.get(kind, "?"))
        if not key.startswith(want):
            gaps.append("Lean known row (%s, %s) is commented %s, expected prefix %s" % (eid, kind, key, want))
        if key not in keys:
            gaps.append("Lean known row %s is not an open finding in known_findings.d/C08.json" % key)
        lean_keys.add(key)
    for k in keys:
        parts = k.split(":")
        if len(parts) >= 3 and parts[1] in ENTRY_IDS and parts[2] in ("leak", "doc-changed", "swallowed", "unsupported") \
                and k not in lean_keys:
            gaps.append("open finding %s has no row in Lean `known`" % k)
    return gaps


def regenerate(ctx):
    global SK
    SK = None
    sk = load_skeletons()
    text = SX.emit_lean(sk)
    old = open(GEN).read() if os.path.exists(GEN) else None
    if old != text:
        os.makedirs(os.path.dirname(GEN), exist_ok=True)
        with fw.Lock():
            with open(GEN, "w") as fh:
                fh.write(text)
    gaps = list(sk["gaps"])
    have = {e["id"] for e in sk["entries"]}
    for e in SX.ENTRIES:
        if e[0] not in have:
            gaps.append("entry point %s missing from the extracted table" % e[1])
    gaps += known_sync_gaps()
    ctx.extra["skeleton_sites"] = len(sk["sites"])
    return gaps


# ============================================================================ instrumentation of the file layer
CODE = SX.EFF_CODE
REC = None


class InjectedOSError(OSError):
    pass


class InjectedAttributeError(AttributeError):
    pass


FAULT_CLASSES = {1: InjectedOSError, 2: InjectedAttributeError}


def exc_kind(e):
    if isinstance(e, OSError):
        return 1
    if isinstance(e, AttributeError):
        return 2
    if isinstance(e, ImportError):
        return 3
    if isinstance(e, TypeError):
        return 4
    if isinstance(e, ValueError):
        return 5
    if isinstance(e, KeyError):
        return 6
    return 0


class Rec:
    def __init__(self, eid, path, fault_at=None, fault_kind=1, doc_ids=()):
        sk = load_skeletons()
        self.sk = sk
        ent = sk["entry"][eid]
        self.entry_file = os.path.join(os.path.realpath(fw.REPO), ent["file"])
        self.entry_func = ent["func"]
        self.path = os.path.abspath(path)
        self.fault_at, self.fault_kind = fault_at, fault_kind
        self.calls = []          # (site, code) incl. document modifications (code 8)
        self.nfile = 0           # file-layer calls so far (= fault points)
        self.delivered = False
        self.proxies = []
        self.last_raise = None   # (call index, exception) of the last file-layer call that raised by itself
        self.doc_ids = set(doc_ids)
        self.cache = {}
        self.unlabelled = []
        self.first_cleanup = None   # index in `calls` of the first call made while an exception was in flight

    def rel(self, filename):
        root = os.path.realpath(fw.REPO) + os.sep
        return filename[len(root):] if filename.startswith(root) else filename

    def site_at(self, key, line):
        ck = (key, line)
        if ck not in self.cache:
            r = 0
            for sid in self.sk["bykey"].get(key, []):
                s = self.sk["sites"][sid]
                if s["lo"] <= line <= s["hi"]:
                    r = sid
                    break
            self.cache[ck] = r
        return self.cache[ck]

    def label(self, frame):
        chain, top, f = [], None, frame
        while f is not None:
            chain.append(f)
            if f.f_code.co_filename == self.entry_file and f.f_code.co_qualname == self.entry_func:
                top = len(chain) - 1
            f = f.f_back
        if top is None:
            return 0
        chain = chain[:top + 1][::-1]
        i = 0
        active = []          # functions being expanded, as in the translator's `stack` (recursion is unrolled UNROLL deep)
        while True:
            fr = chain[i]
            key = "%s::%s" % (self.rel(fr.f_code.co_filename), fr.f_code.co_qualname)
            active.append(key)
            site = self.site_at(key, fr.f_lineno)
            if site == 0:
                self.unlabelled.append("%s:%d" % (key, fr.f_lineno))
                return 0
            if i + 1 < len(chain):
                nx = chain[i + 1]
                nk = [self.rel(nx.f_code.co_filename), nx.f_code.co_qualname]
                nkey = "%s::%s" % tuple(nk)
                if nk in self.sk["sites"][site]["inline"] and active.count(nkey) < self.sk["unroll"].get(nkey, 1):
                    i += 1
                    continue
            return site

    def canon(self, site, code):
        if code in (0, 1) or site == 0:
            return code
        info = self.sk["sites"][site]
        if code in info["calls"]:
            return code
        if info["ocode"] is not None:
            return info["ocode"]
        return code

    def hit(self, code, frame):
        site = self.label(frame)
        if self.first_cleanup is None and sys.exc_info()[1] is not None:
            self.first_cleanup = len(self.calls)
        self.calls.append((site, self.canon(site, code)))
        self.nfile += 1
        if self.fault_at is not None and self.nfile == self.fault_at:
            self.delivered = True
            raise FAULT_CLASSES[self.fault_kind]("injected fault at file-layer call %d" % self.nfile)

    def mutated(self, frame):
        site = self.label(frame)
        self.calls.append((site, 8))


def is_lib(frame):
    return REC is not None and frame.f_code.co_filename.startswith(LIBDIR)


class FileProxy(object):
    """text file object handed to the library in place of the real one (target path only)"""

    def __init__(self, real):
        self._real = real
        self.lib_closed = False

    def write(self, data):
        fr = sys._getframe(1)
        if is_lib(fr):
            REC.hit(CODE["write"], fr)
        return self._real.write(data)

    def close(self):
        fr = sys._getframe(1)
        r = self._real.close()
        self.lib_closed = True
        if is_lib(fr):
            REC.hit(CODE["close"], fr)
        return r

    def __getattr__(self, name):
        return getattr(self._real, name)

    def __enter__(self):
        return self

    def __exit__(self, *a):
        fr = sys._getframe(1)
        self._real.close()
        self.lib_closed = True
        if is_lib(fr):
            REC.hit(CODE["close"], fr)


def _wrap(orig, code, post=False):
    def w(*a, **k):
        fr = sys._getframe(1)
        if not is_lib(fr):
            return orig(*a, **k)
        if post:
            r = orig(*a, **k)
            REC.hit(code, fr)
            return r
        REC.hit(code, fr)
        idx = REC.nfile
        try:
            return orig(*a, **k)
        except BaseException as e:  # the file layer raised by itself
            REC.last_raise = (idx, e)
            raise
    w.__wrapped__ = orig
    return w


class Instr(object):
    """patch the file layer for the duration of one library call"""

    def __init__(self, rec):
        self.rec = rec
        self.saved = []

    def patch(self, obj, name, new):
        self.saved.append((obj, name, obj.__dict__[name] if name in obj.__dict__ else None, name in obj.__dict__))
        setattr(obj, name, new)

    def __enter__(self):
        global REC
        import tables
        from tables.attributeset import AttributeSet
        import neuroml.nml.nml as nml
        REC = self.rec
        P = self.patch
        P(tables, "open_file", _wrap(tables.open_file, CODE["open"]))
        P(tables.File, "close", _wrap(tables.File.close, CODE["close"], post=True))
        P(tables.File, "__exit__", _wrap(tables.File.__exit__, CODE["close"], post=True))   # `with open_file(..)`
        for n in ("create_group",):
            P(tables.File, n, _wrap(getattr(tables.File, n), CODE["createGroup"]))
        for n in ("create_array", "create_carray", "create_earray", "create_table"):
            P(tables.File, n, _wrap(getattr(tables.File, n), CODE["createArray"]))
        P(tables.Node, "_f_setattr", _wrap(tables.Node._f_setattr, CODE["setAttr"]))
        P(tables.File, "set_node_attr", _wrap(tables.File.set_node_attr, CODE["setAttr"]))
        P(AttributeSet, "__setattr__", _wrap(AttributeSet.__setattr__, CODE["setAttr"]))
        rd = CODE["readNode"]
        for cls, names in ((tables.Group, ("__getattr__", "__iter__", "__contains__", "__getitem__", "_f_get_child",
                                           "_f_iter_nodes")),
                           (AttributeSet, ("__getattr__", "__getitem__", "__contains__")),
                           (tables.Array, ("__getitem__", "__iter__", "read")),
                           (tables.Node, ("_f_getattr",)),
                           (tables.File, ("get_node", "__iter__", "__contains__"))):
            for n in names:
                P(cls, n, _wrap(cls.__dict__[n], rd))
        real_open = builtins.open

        def w_open(file, *a, **k):
            fr = sys._getframe(1)
            if is_lib(fr) and isinstance(file, str) and os.path.abspath(file) == REC.path:
                REC.hit(CODE["open"], fr)
                p = FileProxy(real_open(file, *a, **k))
                REC.proxies.append(p)
                return p
            return real_open(file, *a, **k)
        P(builtins, "open", w_open)

        def hook(obj, name, value):
            if id(obj) in REC.doc_ids:
                fr = sys._getframe(1)
                if is_lib(fr):
                    REC.mutated(fr)
            object.__setattr__(obj, name, value)
        P(nml.GeneratedsSuper, "__setattr__", hook)
        return self

    def __exit__(self, *a):
        global REC
        REC = None
        for obj, name, old, had in reversed(self.saved):
            if had:
                setattr(obj, name, old)
            else:
                delattr(obj, name)
        return False


# ============================================================================ canonical dump of a document
SKIP_KEYS = {"gds_collector_", "gds_elementtree_node_", "original_tagname_", "parent_object_", "ns_prefix_"}


def dump(o, seen=None):
    import numpy as np
    if seen is None:
        seen = {}
    if o is None or isinstance(o, (bool, int, str)):
        return o
    if isinstance(o, float):
        return repr(o)
    if isinstance(o, np.ndarray):
        return ["nd", str(o.dtype), list(o.shape), o.tolist()]
    if isinstance(o, np.generic):
        return repr(o.item())
    if isinstance(o, range):
        return ["range", o.start, o.stop, o.step]
    if isinstance(o, (list, tuple)):
        return [dump(x, seen) for x in o]
    if isinstance(o, dict):
        return {str(k): dump(v, seen) for k, v in sorted(o.items(), key=lambda kv: str(kv[0]))}
    if id(o) in seen:
        return ["ref", seen[id(o)]]
    seen[id(o)] = len(seen)
    d = getattr(o, "__dict__", None)
    if d is None:
        return ["obj", type(o).__name__]
    return [type(o).__name__, {k: dump(v, seen) for k, v in sorted(d.items()) if k not in SKIP_KEYS}]


def doc_object_ids(o, acc=None):
    """ids of every generateDS object reachable from the document (to recognise modifications of the document)"""
    if acc is None:
        acc = set()
    if isinstance(o, (list, tuple)):
        for x in o:
            doc_object_ids(x, acc)
        return acc
    d = getattr(o, "__dict__", None)
    if d is None or id(o) in acc or isinstance(o, type):
        return acc
    mod = type(o).__module__ or ""
    if not mod.startswith("neuroml"):
        return acc
    acc.add(id(o))
    for k, v in d.items():
        if k not in SKIP_KEYS:
            doc_object_ids(v, acc)
    return acc


def diff_fields(a, b, path=""):
    """names of the fields where two dumps differ"""
    if a == b:
        return set()
    if isinstance(a, list) and isinstance(b, list) and len(a) == 2 and len(b) == 2 and isinstance(a[1], dict) \
            and isinstance(b[1], dict) and a[0] == b[0]:
        out = set()
        for k in set(a[1]) | set(b[1]):
            if a[1].get(k) != b[1].get(k):
                sub = diff_fields(a[1].get(k), b[1].get(k), k)
                out |= sub if sub else {k}
        return out
    if isinstance(a, list) and isinstance(b, list) and len(a) == len(b):
        out = set()
        for x, y in zip(a, b):
            out |= diff_fields(x, y, path)
        return out or {path}
    return {path or "?"}


# ============================================================================ building documents from JSON specs
def build_doc(spec):
    import neuroml as n
    doc = n.NeuroMLDocument(id=spec.get("id", "doc"))
    if spec.get("notes") is not None:
        doc.notes = spec["notes"]
    for c in spec.get("izh", []):
        doc.izhikevich_cells.append(n.IzhikevichCell(id=c, v0="-70mV", thresh="30mV", a="0.02", b="0.2", c="-65",
                                                     d="6"))
    for c in spec.get("cells", []):
        cell = n.Cell(id=c["id"], notes=c.get("notes"))
        morph = n.Morphology(id=c["id"] + "_m")
        for i in range(c.get("nseg", 1)):
            seg = n.Segment(id=i, name="s%d" % i,
                            distal=n.Point3DWithDiam(x=float(i + 1), y=0.0, z=0.0, diameter=1.0))
            if i == 0:
                seg.proximal = n.Point3DWithDiam(x=0.0, y=0.0, z=0.0, diameter=c.get("diam0", 2.0))
            else:
                seg.parent = n.SegmentParent(segments=i - 1)
            morph.segments.append(seg)
        cell.morphology = morph
        doc.cells.append(cell)
    for g in spec.get("pulses", []):
        doc.pulse_generators.append(n.PulseGenerator(id=g, delay="0ms", duration="1ms", amplitude="1nA"))
    for ns in spec.get("networks", []):
        net = n.Network(id=ns["id"], notes=ns.get("notes"))
        if ns.get("temperature"):
            net.type = "networkWithTemperature"
            net.temperature = ns["temperature"]
        for p in ns.get("pops", []):
            pop = n.Population(id=p["id"], component=p.get("component", "c"), size=p.get("size"))
            for (t, v) in p.get("props", []):
                pop.properties.append(n.Property(tag=t, value=v))
            for i, (x, y, z) in enumerate(p.get("instances", [])):
                pop.instances.append(n.Instance(id=i, location=n.Location(x=x, y=y, z=z)))
            if p.get("instances"):
                pop.type = "populationList"
            net.populations.append(pop)
        for p in ns.get("projs", []):
            pr = n.Projection(id=p["id"], presynaptic_population=p["pre"], postsynaptic_population=p["post"],
                              synapse=p.get("syn", "syn1"))
            for (i, a, b) in p.get("conns", []):
                kw = {}
                if p.get("segfrac"):
                    kw = dict(pre_segment_id=1, post_segment_id=2, pre_fraction_along=0.25, post_fraction_along=0.75)
                pr.connections.append(n.Connection(id=i, pre_cell_id="../%s/%d/c" % (p["pre"], a),
                                                   post_cell_id="../%s/%d/c" % (p["post"], b), **kw))
            for (i, a, b, w, d) in p.get("wd", []):
                pr.connection_wds.append(n.ConnectionWD(id=i, pre_cell_id="../%s/%d/c" % (p["pre"], a),
                                                        post_cell_id="../%s/%d/c" % (p["post"], b), weight=w,
                                                        delay=d))
            net.projections.append(pr)
        for p in ns.get("eprojs", []):
            ep = n.ElectricalProjection(id=p["id"], presynaptic_population=p["pre"],
                                        postsynaptic_population=p["post"])
            for (i, a, b) in p.get("conns", []):
                ep.electrical_connections.append(n.ElectricalConnection(id=i, pre_cell="%d" % a, post_cell="%d" % b,
                                                                        synapse="gj1"))
            for (i, a, b) in p.get("instances", []):
                ep.electrical_connection_instances.append(n.ElectricalConnectionInstance(
                    id=i, pre_cell="../%s/%d/c" % (p["pre"], a), post_cell="../%s/%d/c" % (p["post"], b),
                    synapse="gj1", pre_segment=0, post_segment=0, pre_fraction_along=0.5, post_fraction_along=0.5))
            for (i, a, b, w) in p.get("instance_ws", []):
                ep.electrical_connection_instance_ws.append(n.ElectricalConnectionInstanceW(
                    id=i, pre_cell="../%s/%d/c" % (p["pre"], a), post_cell="../%s/%d/c" % (p["post"], b),
                    synapse="gj1", pre_segment=0, post_segment=0, pre_fraction_along=0.5, post_fraction_along=0.5,
                    weight=w))
            if p.get("mixed"):
                # two synapses in one electrical projection: refused by exportHdf5 AFTER its group was created
                members = ep.electrical_connections + ep.electrical_connection_instances + \
                    ep.electrical_connection_instance_ws
                if len(members) > 1:
                    members[-1].synapse = "gj2"
            net.electrical_projections.append(ep)
        for p in ns.get("cprojs", []):
            cp = n.ContinuousProjection(id=p["id"], presynaptic_population=p["pre"],
                                        postsynaptic_population=p["post"])
            for (i, a, b) in p.get("conns", []):
                cp.continuous_connections.append(n.ContinuousConnection(
                    id=i, pre_cell="%d" % a, post_cell="%d" % b, pre_component="silent1", post_component="gs1"))
            for (i, a, b) in p.get("instances", []):
                cp.continuous_connection_instances.append(n.ContinuousConnectionInstance(
                    id=i, pre_cell="../%s/%d/c" % (p["pre"], a), post_cell="../%s/%d/c" % (p["post"], b),
                    pre_component="silent1", post_component="gs1", pre_segment=0, post_segment=0,
                    pre_fraction_along=0.5, post_fraction_along=0.5))
            for (i, a, b, w) in p.get("instance_ws", []):
                cp.continuous_connection_instance_ws.append(n.ContinuousConnectionInstanceW(
                    id=i, pre_cell="../%s/%d/c" % (p["pre"], a), post_cell="../%s/%d/c" % (p["post"], b),
                    pre_component="silent1", post_component="gs1", pre_segment=0, post_segment=0,
                    pre_fraction_along=0.5, post_fraction_along=0.5, weight=w))
            if p.get("mixed"):
                members = cp.continuous_connections + cp.continuous_connection_instances + \
                    cp.continuous_connection_instance_ws
                if len(members) > 1:
                    members[-1].post_component = "gs2"
            net.continuous_projections.append(cp)
        for p in ns.get("ilists", []):
            il = n.InputList(id=p["id"], component=p.get("comp", "pg1"), populations=p["pop"])
            for (i, t) in p.get("inputs", []):
                il.input.append(n.Input(id=i, target="../%s/%d/c" % (p["pop"], t), destination="synapses"))
            for (i, t, w) in p.get("inputs_w", []):
                il.input_ws.append(n.InputW(id=i, target="../%s/%d/c" % (p["pop"], t), destination="synapses",
                                            weight=w))
            net.input_lists.append(il)
        for i in range(ns.get("synconn", 0)):
            net.synaptic_connections.append(n.SynapticConnection(from_="p0[%d]" % i, to="p0[0]", synapse="syn1"))
        for i in range(ns.get("expinputs", 0)):
            net.explicit_inputs.append(n.ExplicitInput(target="p0[%d]" % i, input="pg1"))
        doc.networks.append(net)
    bad = spec.get("bad")
    if bad == "seg_id_str" and doc.cells:
        doc.cells[-1].morphology.segments[-1].id = "x"                          # ValueError in export
    elif bad == "loc_str" and doc.networks:
        for p in doc.networks[0].populations:                                   # ValueError in export
            if p.instances:
                p.instances[0].location.x = "a"
                break
    elif bad == "nonsense_member":
        doc.izhikevich_cells.append("this is not a component")                  # AttributeError in export
    elif bad == "none_delay" and doc.networks and doc.networks[0].projections and \
            doc.networks[0].projections[0].connection_wds:
        doc.networks[0].projections[0].connection_wds[0].delay = None           # TypeError in exportHdf5
    elif bad == "none_id_pop" and doc.networks and doc.networks[0].populations:
        doc.networks[0].populations[-1].id = None                               # TypeError in exportHdf5
    elif bad == "us_delay" and doc.networks and doc.networks[0].projections and \
            doc.networks[0].projections[0].connection_wds:
        # exportHdf5 tests `'s' in delay` before `'us' in delay`: float('10u') -> ValueError
        doc.networks[0].projections[0].connection_wds[0].delay = "10us"
    return doc


def build_arraymorph(spec):
    import numpy as np
    import neuroml as n
    import neuroml.arraymorph as am

    def one(m):
        k = m["n"]
        verts = [[float(i), float(m.get("y", 0)), 0.0, 1.0 + 0.5 * i] for i in range(k + 1)]
        conn = list(range(-1, k))
        return am.ArrayMorphology(vertices=np.array(verts), connectivity=conn, id=m.get("id"))
    if spec["shape"] == "single":
        return one(spec["morphs"][0])
    doc = n.NeuroMLDocument(id=spec.get("id", "amdoc"))
    for i, m in enumerate(spec["morphs"]):
        cell = n.Cell(id=m.get("cell_id"))
        cell.morphology = one(m)
        doc.cells.append(cell)
    for m in spec.get("standalone", []):
        doc.morphology.append(one(m))
    return doc


# ============================================================================ generators (JSON specs)
MARKUP = ["plain", "a < b & c > d", "quote \" and ' apostrophe", "line\nbreak", " leading and trailing ",
          "]]> <![CDATA[", "café µm", "&amp; already escaped"]


def gen_network(rng, k, rich=True):
    pops = []
    npop = rng.randint(1, 3)
    for i in range(npop):
        p = {"id": "p%d" % i, "component": rng.choice(["izh0", "c", "iaf"]), "props": []}
        if rng.random() < 0.5:
            p["instances"] = [[float(rng.randint(-5, 5)), float(rng.randint(0, 9)), 0.5] for _ in
                              range(rng.randint(1, 4))]
            p["size"] = len(p["instances"])
        else:
            p["size"] = rng.randint(0, 5)
        for j in range(rng.choice([0, 0, 1, 2])):
            p["props"].append(["tag%d" % j, rng.choice(["red", "0.5", "x y"])])
        pops.append(p)
    net = {"id": "net%d" % k, "pops": pops, "notes": rng.choice([None, None] + MARKUP[:4])}
    if rng.random() < 0.25:
        net["temperature"] = "32degC"
    if not rich:
        return net
    pid = [p["id"] for p in pops]
    net["projs"] = []
    for i in range(rng.choice([0, 1, 1, 2])):
        pr = {"id": "proj%d" % i, "pre": rng.choice(pid), "post": rng.choice(pid), "conns": [], "wd": [],
              "segfrac": rng.random() < 0.3}
        r = rng.random()
        if r < 0.45:
            pr["conns"] = [[j, rng.randint(0, 3), rng.randint(0, 3)] for j in range(rng.randint(1, 4))]
        elif r < 0.85:
            pr["wd"] = [[j, rng.randint(0, 3), rng.randint(0, 3), rng.choice([0.5, 1.0, 2.0]),
                         rng.choice(["1ms", "0.5 ms", "2s"])] for j in range(rng.randint(1, 3))]
        net["projs"].append(pr)       # r >= .85: an empty projection
    net["eprojs"] = []
    for i in range(rng.choice([0, 0, 1])):
        ep = {"id": "eproj%d" % i, "pre": rng.choice(pid), "post": rng.choice(pid)}
        r = rng.random()
        if r < 0.3:
            ep["conns"] = [[j, j, j + 1] for j in range(rng.randint(1, 3))]
        elif r < 0.6:
            ep["instances"] = [[j, j, j + 1] for j in range(rng.randint(1, 3))]
        elif r < 0.85:
            ep["instance_ws"] = [[j, j, j + 1, 0.5] for j in range(rng.randint(1, 3))]
        if rng.random() < 0.15:
            ep["mixed"] = True        # (only with >= 2 connections) refused in the middle of the write
        net["eprojs"].append(ep)      # else: an empty electrical projection (IndexError in exportHdf5)
    net["cprojs"] = []
    for i in range(rng.choice([0, 0, 1])):
        cp = {"id": "cproj%d" % i, "pre": rng.choice(pid), "post": rng.choice(pid)}
        r = rng.random()
        if r < 0.35:
            cp["conns"] = [[j, j, j + 1] for j in range(rng.randint(1, 3))]
        elif r < 0.65:
            cp["instances"] = [[j, j, j + 1] for j in range(rng.randint(1, 3))]
        elif r < 0.9:
            cp["instance_ws"] = [[j, j, j + 1, 2.0] for j in range(rng.randint(1, 3))]
        if rng.random() < 0.15:
            cp["mixed"] = True
        net["cprojs"].append(cp)
    net["ilists"] = []
    for i in range(rng.choice([0, 1, 1])):
        il = {"id": "il%d" % i, "pop": rng.choice(pid), "inputs": [], "inputs_w": []}
        if rng.random() < 0.6:
            il["inputs"] = [[j, rng.randint(0, 3)] for j in range(rng.randint(0, 3))]
        else:
            il["inputs_w"] = [[j, rng.randint(0, 3), 1.5] for j in range(rng.randint(1, 3))]
        net["ilists"].append(il)
    r = rng.random()
    if r < 0.12:
        net["synconn"] = rng.randint(1, 2)
    elif r < 0.24:
        net["expinputs"] = rng.randint(1, 2)
    return net


def gen_xml_spec(rng):
    spec = {"id": "d%d" % rng.randint(0, 99), "notes": rng.choice([None] + MARKUP)}
    spec["izh"] = ["izh%d" % i for i in range(rng.randint(0, 2))]
    spec["cells"] = [{"id": "cell%d" % i, "nseg": rng.randint(1, 4), "notes": rng.choice([None] + MARKUP)}
                     for i in range(rng.choice([0, 1, 1, 2]))]
    spec["pulses"] = ["pg%d" % i for i in range(rng.randint(0, 2))]
    spec["networks"] = [gen_network(rng, i, rich=rng.random() < 0.5) for i in range(rng.choice([0, 0, 1]))]
    r = rng.random()
    if r < 0.12:
        spec["bad"] = "seg_id_str"
    elif r < 0.2:
        spec["bad"] = "nonsense_member"
    elif r < 0.28:
        spec["bad"] = "loc_str"
    return spec


def gen_h5_spec(rng):
    spec = {"id": "h%d" % rng.randint(0, 99), "notes": rng.choice([None] + MARKUP[:5])}
    spec["izh"] = ["izh%d" % i for i in range(rng.randint(0, 2))]
    spec["cells"] = [{"id": "cell%d" % i, "nseg": rng.randint(1, 2)} for i in range(rng.choice([0, 0, 1]))]
    spec["networks"] = [gen_network(rng, i) for i in range(rng.choice([1, 1, 1, 2]))]
    r = rng.random()
    if r < 0.06:
        spec["bad"] = "none_delay"
    elif r < 0.11:
        spec["bad"] = "us_delay"
    elif r < 0.16:
        spec["bad"] = "none_id_pop"
    elif r < 0.26:
        spec["bad"] = "seg_id_str"        # the embedded-XML step fails (only with a cell)
    elif r < 0.32:
        spec["bad"] = "nonsense_member"   # the embedded-XML step fails with AttributeError
    return spec


def gen_am_spec(rng):
    if rng.random() < 0.3:
        return {"shape": "single", "morphs": [{"n": rng.randint(1, 5), "id": rng.choice([None, "m0"])}]}
    k = rng.randint(1, 3)
    morphs = []
    for i in range(k):
        morphs.append({"n": rng.randint(1, 4), "y": i,
                       "id": rng.choice([None, "morph%d" % i]),
                       "cell_id": rng.choice([None, "cell%d" % i, "cell%d" % i, "cell0"])})
    spec = {"shape": "doc", "morphs": morphs}
    if rng.random() < 0.25:
        spec["standalone"] = [{"n": 2, "id": rng.choice([None, "solo"])}]
    return spec


DAMAGE = [None, None, None, "no_root", "bad_xml", "bad_shape", "no_id_attr", "not_hdf5", "extra_group", "noembed",
          "no_columns", "bytes_attrs", "deep_group"]


# ============================================================================ one library call under instrumentation
def handles_open(path):
    """PyTables registry entries and OS descriptors on any file of the case's directory (the target, included files)"""
    import tables
    root = os.path.dirname(os.path.abspath(path)) + os.sep
    reg = [h.filename for h in list(tables.file._open_files.handlers) if os.path.abspath(h.filename).startswith(root)]
    fds = []
    for fd in os.listdir("/proc/self/fd"):
        try:
            if os.readlink("/proc/self/fd/" + fd).startswith(root):
                fds.append(fd)
        except OSError:
            pass
    return reg, fds


def release(path, rec):
    import tables
    root = os.path.dirname(os.path.abspath(path)) + os.sep
    for h in list(tables.file._open_files.handlers):
        if os.path.abspath(h.filename).startswith(root):
            try:
                h.close()
            except Exception:
                pass
    for p in rec.proxies:
        try:
            p._real.close()
        except Exception:
            pass


WRITERS = ("xw", "hw", "aw", "xwo", "hwn", "hwo")


def the_call(kind, obj, path, opts=None, fileobj=None):
    import neuroml.writers as W
    import neuroml.loaders as L
    opts = opts or {}
    if kind == "xw":
        return W.NeuroMLWriter.write(obj, path)
    if kind == "xwo":       # caller-owned file object, not to be closed by the library
        return W.NeuroMLWriter.write(obj, fileobj, close=False)
    if kind in ("hw", "hwo"):
        if "compress" in opts:
            return W.NeuroMLHdf5Writer.write(obj, path, compress=opts["compress"])
        return W.NeuroMLHdf5Writer.write(obj, path)
    if kind == "hwn":
        return W.NeuroMLHdf5Writer.write(obj, path, embed_xml=False, compress=opts.get("compress", True))
    if kind == "xr":
        return L.NeuroMLLoader.load(path)
    if kind == "rf":
        return L.read_neuroml2_file(path)
    if kind == "rfi":
        return L.read_neuroml2_file(path, include_includes=True)
    if kind == "rfa":       # the caller keeps the list of included files (obj) across calls
        return L.read_neuroml2_file(path, include_includes=True, already_included=obj)
    if kind == "rs":
        return L.read_neuroml2_string(obj)
    if kind == "aw":
        return W.ArrayMorphWriter.write(obj, path)
    if kind == "hr":
        return L.NeuroMLHdf5Loader.load(path)
    if kind == "hro":
        return L.NeuroMLHdf5Loader.load(path, optimized=True)
    if kind == "ar":
        return L.ArrayMorphLoader.load(path)
    raise ValueError(kind)


KIND_ENTRY = {"xw": 1, "hw": 2, "aw": 3, "hr": 4, "hro": 5, "ar": 6, "xr": 7, "xwo": 8, "hwn": 9, "hwo": 10, "rf": 11,
              "rfi": 12, "rs": 13, "rfa": 12}
# display name where it differs from the entry point's (same skeleton, another argument specialisation)
KIND_NAME = {"rfa": "read_neuroml2_file[already_included]"}


def tb_frames(exc):
    tb = exc.__traceback__
    frames = []
    while tb is not None:
        frames.append((tb.tb_frame, tb.tb_lineno))
        tb = tb.tb_next
    return frames


def root_cause(exc):
    """(frames from the outermost caller down to where the FIRST exception was raised, that exception): an exception
    raised inside an `except` handler (`raise Exception(..., e)`) is traced back to what the handler caught"""
    frames = tb_frames(exc)
    while True:
        inner = exc.__cause__ or exc.__context__
        if inner is None or inner is exc:
            return frames, exc
        cf = tb_frames(inner)
        idx = None
        if cf:
            for i, (f, _) in enumerate(frames):
                if f is cf[0][0]:
                    idx = i
                    break
        if idx is None:
            return frames, exc
        frames = frames[:idx] + cf
        exc = inner


def natural_site(rec, exc):
    """site (in the skeleton) of the frame where the library raised by itself"""
    frames, _ = root_cause(exc)
    # emulate Rec.label on the traceback chain (outer -> inner)
    start = None
    for i, (f, ln) in enumerate(frames):
        if f.f_code.co_filename == rec.entry_file and f.f_code.co_qualname == rec.entry_func:
            start = i
            break
    if start is None:
        return 0
    i = start
    active = []
    while True:
        # `raise e` in a handler adds a second entry for the same frame: the deeper one is where it came from
        while i + 1 < len(frames) and frames[i + 1][0] is frames[i][0]:
            i += 1
        f, ln = frames[i]
        key = "%s::%s" % (rec.rel(f.f_code.co_filename), f.f_code.co_qualname)
        active.append(key)
        site = rec.site_at(key, ln)
        if site == 0:
            return 0
        if i + 1 < len(frames):
            nx = frames[i + 1][0]
            nk = [rec.rel(nx.f_code.co_filename), nx.f_code.co_qualname]
            nkey = "%s::%s" % tuple(nk)
            if nk in rec.sk["sites"][site]["inline"] and active.count(nkey) < rec.sk["unroll"].get(nkey, 1):
                i += 1
                continue
        return site


def identity_map(o, path="doc", acc=None, seen=None):
    """structural path -> the generateDS object / member list found there (held by reference)"""
    if acc is None:
        acc, seen = {}, set()
    if isinstance(o, list):
        acc[path + "[]"] = o
        for i, x in enumerate(o):
            identity_map(x, "%s[%d]" % (path, i), acc, seen)
        return acc
    d = getattr(o, "__dict__", None)
    if d is None or id(o) in seen or isinstance(o, type) or not (type(o).__module__ or "").startswith("neuroml"):
        return acc
    seen.add(id(o))
    acc[path] = o
    for k, v in sorted(d.items()):
        if k not in SKIP_KEYS and (isinstance(v, list) or hasattr(v, "__dict__")):
            identity_map(v, path + "." + k, acc, seen)
    return acc


def identity_diff(before, after):
    """(components that are no longer the same objects, member lists replaced by other list objects)"""
    objs, lists = [], []
    for k, v in before.items():
        w = after.get(k)
        if w is not v:
            (lists if k.endswith("[]") else objs).append(k)
    return sorted(objs), sorted(lists)


def file_digest(kind, path):
    """what a successful write left on disk, in a form that can be compared between two writes"""
    if not os.path.exists(path):
        return None
    if kind in ("xw", "xwo"):
        with open(path, "rb") as fh:
            return fh.read().decode("utf-8", "replace")
    import tables
    out = []
    h = tables.open_file(path, mode="r")
    try:
        for node in h.walk_nodes("/"):
            attrs = {k: dump(node._v_attrs[k]) for k in node._v_attrs._v_attrnamesuser}     # no addresses
            row = [node._v_pathname, type(node).__name__, attrs]
            if isinstance(node, tables.Array):
                row.append(repr(node.read().tolist()))
            out.append(row)
    finally:
        h.close()
    return out


def observe(kind, obj, path, fault_at=None, fault_kind=1, opts=None):
    """run the entry point once; returns the observation dict"""
    eid = KIND_ENTRY[kind]
    is_writer = kind in WRITERS
    before = dump(obj) if is_writer else None
    idmap = identity_map(obj) if is_writer else None
    rec = Rec(eid, path, fault_at, fault_kind, doc_object_ids(obj) if is_writer else ())
    caller_list = list(obj) if kind == "rfa" else None
    exc = None
    result = None
    fileobj = None
    if kind == "xwo":
        fileobj = FileProxy(open(path, "w"))
    with Instr(rec):
        try:
            result = the_call(kind, obj, path, opts, fileobj)
        except RecursionError:
            raise
        except SystemExit as e:
            exc = e
        except Exception as e:
            exc = e
    callers_file_closed = None
    if fileobj is not None:
        callers_file_closed = fileobj._real.closed
        fileobj._real.close()
    reg, fds = handles_open(path)
    proxy_open = [p for p in rec.proxies if not p.lib_closed]
    after = dump(obj) if is_writer else None
    moved, relisted = identity_diff(idmap, identity_map(obj)) if is_writer else ([], [])
    obs = {"calls": [list(c) for c in rec.calls], "nfile": rec.nfile, "delivered": rec.delivered,
           "raised": None if exc is None else type(exc).__name__,
           "leak": bool(reg or fds or proxy_open), "leak_detail": {"registry": reg, "fds": len(fds),
                                                                   "text_unclosed": len(proxy_open)},
           "doc_changed": bool(is_writer and before != after),
           "changed_fields": sorted(diff_fields(before, after)) if is_writer and before != after else [],
           "moved": moved[:5], "relisted": relisted[:5], "callers_file_closed": callers_file_closed,
           "unlabelled": rec.unlabelled[:3]}
    if kind == "rfa":
        obs["list_added"] = [os.path.basename(x) for x in obj[len(caller_list):]] if obj[:len(caller_list)] == caller_list \
            else ["<rewritten>"]
    if exc is not None and not rec.delivered:
        # the input itself made the library fail
        if rec.last_raise is not None and rec.last_raise[1] is exc:
            j, cnt, cutat = rec.last_raise[0], 0, len(rec.calls)
            for i, c in enumerate(rec.calls):
                if c[1] != 8:
                    cnt += 1
                    if cnt == j:
                        cutat = i + 1
                        break
            obs["natural"] = {"in_call": j, "kind": exc_kind(exc), "before": cutat}
        else:
            obs["natural"] = {"site": natural_site(rec, exc), "kind": exc_kind(root_cause(exc)[1]),
                              "before": len(rec.calls) if rec.first_cleanup is None else rec.first_cleanup}
        obs["raised_msg"] = str(exc)[:120]
    release(path, rec)
    exc = None
    return obs, result


# ============================================================================ cases
def make_input(case, root):
    """-> (kind, object to pass, path)"""
    import neuroml.loaders  # noqa: F401  (exportHdf5 uses neuroml.utils without importing it)
    kind = case["kind"]
    if kind == "xw":
        return kind, build_doc(case["spec"]), os.path.join(root, "out.nml")
    if kind == "xwo":
        return kind, build_doc(case["spec"]), os.path.join(root, "out_fileobj.nml")
    if kind in ("hw", "hwn"):
        return kind, build_doc(case["spec"]), os.path.join(root, "out.nml.h5")
    if kind == "hwo":
        # a document made of the optimized containers: what NeuroMLHdf5Loader.load(.., optimized=True) returns
        import neuroml.writers as W
        import neuroml.loaders as L
        src = os.path.join(root, "src_opt.nml.h5")
        W.NeuroMLHdf5Writer.write(build_doc(case["spec"]), src)
        doc = L.NeuroMLHdf5Loader.load(src, optimized=True)
        os.remove(src)
        bad = case["spec"].get("bad_opt")
        if bad == "none_id_pop":
            doc.networks[0].populations[-1].id = None            # TypeError in PopulationContainer.exportHdf5
        elif bad == "nonsense_member":
            doc.izhikevich_cells.append("this is not a component")   # the embedded-XML step fails
        return kind, doc, os.path.join(root, "out.nml.h5")
    if kind in ("xr", "rf", "rs") and case.get("form", "xml") == "xml":
        import neuroml.writers as W
        p = os.path.join(root, "in.nml")
        W.NeuroMLWriter.write(build_doc(case["spec"]), p)
        data = open(p, "rb").read()
        dmg = case.get("damage")
        if dmg == "truncated":
            data = data[:max(1, int(len(data.rstrip()) * case.get("at", 0.5)))]
        elif dmg == "empty":
            data = b""
        elif dmg == "other_root":
            data = b'<cell xmlns="http://www.neuroml.org/schema/neuroml2" id="lonely"/>\n'
        elif dmg == "missing":
            os.remove(p)
            data = None
        if data is not None:
            with open(p, "wb") as fh:
                fh.write(data)
        if kind == "rs":
            return kind, (data or b"<neuroml").decode("utf-8"), p
        return kind, None, p
    if kind == "rf":
        c2 = dict(case, kind="hr")
        return kind, None, make_input(c2, root)[2]
    if kind == "rfa":
        return kind, [], make_input(dict(case, kind="rfi"), root)[2]
    if kind == "rfi":
        # main.nml includes an XML file and an HDF5 file lying next to it
        import neuroml as n
        import neuroml.writers as W
        spec = case["spec"]
        inc = os.path.join(root, "inc.nml")
        W.NeuroMLWriter.write(build_doc({"id": "inc", "izh": ["izh_inc"], "pulses": ["pg_inc"]}), inc)
        h5 = make_input({"kind": "hr", "spec": spec, "damage": case.get("damage") if case.get("damage") in
                         ("no_root", "bad_xml", "not_hdf5") else None}, root)[2]
        os.rename(h5, os.path.join(root, "net.nml.h5"))
        main = n.NeuroMLDocument(id="main")
        main.includes.append(n.IncludeType(href="inc.nml"))
        main.includes.append(n.IncludeType(href="net.nml.h5"))
        main.izhikevich_cells.append(n.IzhikevichCell(id="izh_main", v0="-70mV", thresh="30mV", a="0.02", b="0.2",
                                                      c="-65", d="6"))
        p = os.path.join(root, "main.nml")
        W.NeuroMLWriter.write(main, p)
        dmg = case.get("damage")
        if dmg == "inc_missing":
            os.remove(inc)
        elif dmg == "inc_truncated":
            data = open(inc, "rb").read()
            with open(inc, "wb") as fh:
                fh.write(data[:len(data) // 2])
        return kind, None, p
    if kind == "aw":
        return kind, build_arraymorph(case["spec"]), os.path.join(root, "out.am.h5")
    if kind in ("hr", "hro"):
        import neuroml.writers as W
        import tables
        p = os.path.join(root, "in.nml.h5")
        dmg = case.get("damage")
        if dmg == "noembed":        # a file without the embedded top-level XML (component objects unknown to the parser)
            W.NeuroMLHdf5Writer.write(build_doc(case["spec"]), p, embed_xml=False)
            dmg = None
        else:
            W.NeuroMLHdf5Writer.write(build_doc(case["spec"]), p)
        if dmg == "not_hdf5":
            with open(p, "wb") as fh:
                fh.write(b"this is not an HDF5 file\n" * 4)
        elif dmg:
            h = tables.open_file(p, mode="a")
            try:
                if dmg == "no_root":
                    h.rename_node("/neuroml", "neuromlx")
                elif dmg == "bad_xml":
                    h.root.neuroml._f_setattr("neuroml_top_level", "<neuroml id='x'><unclosed></neuroml>")
                elif dmg == "no_id_attr":
                    h.root.neuroml._f_delattr("id")
                elif dmg == "extra_group":
                    h.create_group("/neuroml", "stray_group")
                elif dmg in ("no_columns", "bytes_attrs"):
                    # files of older writers: no column_<i> attributes (the parser falls back on the row width), or
                    # attribute values stored as bytes
                    import numpy as np
                    for node in h.walk_nodes("/neuroml", classname="Array"):
                        for k in list(node.attrs._v_attrnamesuser):
                            if k.startswith("column_"):
                                v = node.attrs[k]
                                node._f_delattr(k)
                                if dmg == "bytes_attrs":
                                    node._f_setattr(k, np.bytes_(str(v).encode()))
                elif dmg == "deep_group":
                    g = h.create_group("/neuroml/network/population_p0", "level4")
                    g = h.create_group(g, "level5")
                    g._f_setattr("id", "deep")
                elif dmg == "bad_shape":
                    for node in h.walk_nodes("/neuroml", classname="Array"):
                        name, parent = node._v_name, node._v_parent
                        attrs = {k: node.attrs[k] for k in node.attrs._v_attrnamesuser}
                        node._f_remove()
                        import numpy as np
                        a = h.create_carray(parent, name, obj=np.zeros([2, 1], np.float32))
                        for k, v in attrs.items():
                            a._f_setattr(k, v)
                        break
            finally:
                h.close()
        return kind, None, p
    if kind == "ar":
        import neuroml.writers as W
        p = os.path.join(root, "in.am.h5")
        try:
            W.ArrayMorphWriter.write(build_arraymorph(case["spec"]), p)
        except Exception:
            import tables
            tables.file._open_files.close_all()
        if case.get("damage") == "not_hdf5":
            with open(p, "wb") as fh:
                fh.write(b"junk" * 10)
        return kind, None, p
    raise ValueError(kind)


def fault_points(rng, n, cap):
    if n <= cap:
        return list(range(1, n + 1))
    pts = set(range(1, 13)) | {n, n - 1, n - 2}
    while len(pts) < cap:
        pts.add(rng.randint(1, n))
    return sorted(pts)


def run_case(ctx, case, cap=60):
    """all real runs of one case.  Returns the record used for the driver comparison."""
    sk = load_skeletons()
    root = tempfile.mkdtemp(prefix="verif_c08_")
    rec = {"case": case, "faults": []}
    try:
        kind, obj, path = make_input(case, root)
        opts = case.get("opts")
        name = KIND_NAME.get(kind, ENTRY_NAMES[KIND_ENTRY[kind]])
        clean, res = observe(kind, obj, path, opts=opts)
        rec["clean"] = clean
        rec["entry"] = KIND_ENTRY[kind]
        case["_clean_ok"] = clean["raised"] is None
        if clean["raised"] is None:
            # what a successful call leaves behind: the retried call after every injected failure must leave the same
            case["_clean_digest"] = file_digest(kind, path) if kind in WRITERS else dump(res)
        res = None
        ctx.count("case:" + kind)
        ctx.count("clean:" + ("ok" if clean["raised"] is None else "raises:" + clean["raised"]))
        check_oracle(ctx, case, name, kind, obj, path, clean, None)
        if clean["raised"] is not None and kind in WRITERS and not clean["doc_changed"]:
            # the same call succeeds once the cause is removed: from the SAME document object, onto the same path
            # (whatever the failed call left there), and leaves what a first call with a fresh document leaves
            if cure(case, obj):
                o2, _ = observe(kind, obj, path, opts=opts)
                ctx.count("cured-retry")
                if o2["raised"] is not None:
                    ctx.fail("C08:%s:retry-failed" % name, "%s still fails after the cause was removed" % name,
                             {"case": case, "retry": o2["raised"], "msg": o2.get("raised_msg")})
                else:
                    d_retry = file_digest(kind, path)
                    fresh_root = tempfile.mkdtemp(prefix="verif_c08f_")
                    try:
                        k2, obj_f, path_f = make_input(case, fresh_root)
                        cure(case, obj_f)
                        o3, _ = observe(kind, obj_f, path_f, opts=opts)
                        if o3["raised"] is None and file_digest(kind, path_f) != d_retry:
                            ctx.fail("C08:%s:retry-differs" % name,
                                     "the call retried after a failure does not leave what a first call leaves",
                                     {"case": case})
                    finally:
                        shutil.rmtree(fresh_root, ignore_errors=True)
        n = clean["nfile"]
        nat = clean.get("natural")
        if nat is not None:
            # the input itself makes the call fail: inject only before that point (one failure per run)
            n = len([c for c in clean["calls"][:nat["before"]] if c[1] != 8]) - (1 if "in_call" in nat else 0)
        pts = case.get("faults") or fault_points(ctx.rng, n, cap)
        kinds = [1, 2] if kind in WRITERS else [1]
        for k in pts:
            if k > n:
                continue
            for fk in kinds:
                if fk == 2 and k % 3 != 1 and len(pts) > 12:
                    continue          # AttributeError-class faults: a third of the points of long runs
                if kind == "rfa":
                    obj = []                             # the caller's list, empty before every failing call
                if kind in WRITERS:
                    obj = make_input(case, root)[1]      # a fresh document for every run (the path keeps what the
                    #                                      previous failed/retried call left on it)
                o, _ = observe(kind, obj, path, fault_at=k, fault_kind=fk, opts=opts)
                o["k"], o["fk"] = k, fk
                rec["faults"].append(o)
                site = o["calls"][-1][0] if o["calls"] else 0
                # the faulted call is the k-th file-layer call: find it
                fl = [c for c in o["calls"] if c[1] != 8]
                fsite = fl[k - 1][0] if len(fl) >= k else site
                ctx.seen([name, fsite, fk, k if k < 4 else 4], nontrivial=(k > 1))
                if k > 1:
                    FAULT_KEYS.add((name, fsite, fk, k if k < 4 else 4))
                ctx.count("fault:%s:%s" % (kind, {0: "open", 1: "close"}.get(fl[k - 1][1], "io") if len(fl) >= k else "?"))
                check_oracle(ctx, case, name, kind, obj, path, o, (k, fk))
        ctx.sample({"kind": kind, "entry": name, "file_layer_calls": n, "fault_points": len(pts),
                    "clean_outcome": clean["raised"] or "ok"})
    finally:
        shutil.rmtree(root, ignore_errors=True)
        try:
            import tables
            tables.file._open_files.close_all()
        except Exception:
            pass
    return rec


def cure(case, obj):
    """remove the cause of a failure from a freshly built document; False if there is nothing known to remove"""
    spec = case["spec"]
    done = False
    if case["kind"] == "aw":
        if spec["shape"] == "doc":
            for i, c in enumerate(obj.cells):
                c.id = "cured_cell%d" % i
                c.morphology.id = "cured_m%d" % i
            del obj.morphology[:]
            return True
        return False
    bad = spec.get("bad")
    if bad == "seg_id_str" and obj.cells:
        obj.cells[-1].morphology.segments[-1].id = 77
        done = True
    elif bad == "loc_str":
        for net in obj.networks:
            for pp in net.populations:
                for inst in pp.instances:
                    if isinstance(inst.location.x, str):
                        inst.location.x = 1.0
                        done = True
    elif bad == "nonsense_member":
        obj.izhikevich_cells.pop()
        done = True
    elif bad in ("none_delay", "us_delay"):
        for net in obj.networks:
            for pr in net.projections:
                for c in pr.connection_wds:
                    if c.delay is None or c.delay == "10us":
                        c.delay = "1ms"
                        done = True
    elif bad == "none_id_pop":
        for net in obj.networks:
            for i, pp in enumerate(net.populations):
                if pp.id is None:
                    pp.id = "cured_p%d" % i
                    done = True
    if spec.get("bad_opt") == "none_id_pop":
        for net in obj.networks:
            for i, pp in enumerate(net.populations):
                if pp.id is None:
                    pp.id = "cured_p%d" % i
                    done = True
    elif spec.get("bad_opt") == "nonsense_member":
        obj.izhikevich_cells.pop()
        done = True
    if case["kind"] == "hwo":
        for net in obj.networks:          # a projection container without connections cannot be written
            keep = [e for e in net.projections if len(e.connections) > 0]
            if len(keep) != len(net.projections):
                net.projections = keep
                done = True
    if case["kind"] in ("hw", "hwn", "hwo"):
        if len(obj.networks) > 1:       # a second network cannot be written (group "network" exists already)
            del obj.networks[1:]
            done = True
        for net in obj.networks:
            if net.synaptic_connections or net.explicit_inputs:
                net.synaptic_connections = []
                net.explicit_inputs = []
                done = True
            for e in net.electrical_projections:
                for c in e.electrical_connections + e.electrical_connection_instances + \
                        e.electrical_connection_instance_ws:
                    if c.synapse == "gj2":
                        c.synapse = "gj1"
                        done = True
            for e in net.continuous_projections:
                for c in e.continuous_connections + e.continuous_connection_instances + \
                        e.continuous_connection_instance_ws:
                    if c.post_component == "gs2":
                        c.post_component = "gs1"
                        done = True
            keep = [e for e in net.electrical_projections if e.electrical_connections or
                    e.electrical_connection_instances or e.electrical_connection_instance_ws]
            if len(keep) != len(net.electrical_projections):
                net.electrical_projections = keep
                done = True
            keep = [e for e in net.input_lists if e.input or e.input_ws]    # zero rows: create_carray refuses
            if len(keep) != len(net.input_lists):
                net.input_lists = keep
                done = True
            keep = [e for e in net.continuous_projections if e.continuous_connections or
                    e.continuous_connection_instances or e.continuous_connection_instance_ws]
            if len(keep) != len(net.continuous_projections):
                net.continuous_projections = keep
                done = True
    return done


def check_oracle(ctx, case, name, kind, obj, path, o, fault):
    """the full property on the real code, after one call"""
    failed = o["raised"] is not None
    where = {"case": {k: v for k, v in case.items() if not k.startswith("_")}, "fault": fault, "observed": {k: o[k] for k in ("raised", "leak", "leak_detail",
                                                                           "doc_changed", "changed_fields")}}
    if fault is not None and o["delivered"] and not failed:
        ctx.fail("C08:%s:swallowed" % name, "an error raised by the file layer did not make %s raise" % name, where)
    if not failed:
        if o["leak"]:
            ctx.fail("C08:%s:leak-on-success" % name, "%s returned normally with a handle still open" % name, where)
        return
    if o["leak"]:
        ctx.fail("C08:%s:leak" % name, "%s left a file handle open after a failed call" % name, where)
    if o["doc_changed"]:
        ctx.fail("C08:%s:doc-changed:%s" % (name, "+".join(o["changed_fields"][:3])),
                 "%s left the in-memory document modified after a failed call" % name, where)
    elif o.get("moved"):
        # equal by value but no longer the same components: a component the caller still holds is not the one in
        # the document any more (changing it is not seen by the document)
        ctx.fail("C08:%s:doc-changed:identity" % name,
                 "%s left the document holding other (equal) component objects after a failed call" % name,
                 dict(where, moved=o["moved"]))
    if o.get("list_added"):
        # the caller's `already_included` list is an argument the failed call must leave as it was: files marked as
        # included although nothing of them was merged are skipped by the next call made with the same list
        ctx.fail("C08:%s:caller-list-changed" % name,
                 "%s left files marked in the caller's already_included list after a failed call" % name,
                 dict(where, marked=o["list_added"]))
    if o.get("relisted"):
        ctx.count("member-list-replaced-by-equal-list")     # harmless by itself (observed, not a failure)
    # retry: the same call, same document object, same path (with whatever the failed call left on it), no fault
    if fault is not None:
        clean_ok = case.get("_clean_ok")
        if clean_ok is None:
            return
        if clean_ok:
            o2, res = observe(kind, obj, path, opts=case.get("opts"))
            ctx.count("retry-after-fault")
            if o2["raised"] is not None:
                ctx.fail("C08:%s:retry-failed" % name,
                         "%s does not succeed when called again after a failed call" % name,
                         dict(where, retry=o2["raised"]))
            elif o2["leak"]:
                ctx.fail("C08:%s:leak-on-success" % name, "%s returned normally with a handle still open" % name, where)
            elif "_clean_digest" in case:
                got = file_digest(kind, path) if kind in WRITERS else dump(res)
                if got != case["_clean_digest"]:
                    ctx.fail("C08:%s:retry-differs" % name,
                             "the call retried after a failed call does not produce what a first call produces",
                             where)


# ============================================================================ model side
def model_lines(records):
    lines = []
    for r in records:
        clean = r["clean"]
        j = {"op": "run", "entry": r["entry"], "faults": [[f["k"] - 1, f["fk"]] for f in r["faults"]],
             "natural": None, "prefix": False}
        nat = clean.get("natural")
        if nat is None:
            j["trace"] = clean["calls"]
        elif "in_call" in nat:
            # the file layer itself raised inside call number in_call: a fault at that call
            j["trace"] = clean["calls"][:nat["before"]]
            j["prefix"] = True
            j["faults"] = j["faults"] + [[nat["in_call"] - 1, nat["kind"]]]
        else:
            j["trace"] = clean["calls"][:nat["before"]]
            j["natural"] = [nat["site"], nat["kind"]]
        r["line"] = j
        lines.append(j)
    return lines


def compare(ctx, records, outs):
    for r, out in zip(records, outs):
        clean = r["clean"]
        name = ENTRY_NAMES[r["entry"]]
        case = {k: v for k, v in r["case"].items() if not k.startswith("_")}
        ctx.corr_evals += 1
        if clean["unlabelled"] or any(c[0] == 0 for c in clean["calls"]):
            ctx.disagree("site-labelling", case, {"unlabelled": clean["unlabelled"], "calls": clean["calls"][:40]},
                         "every file-layer call belongs to a site of the extracted skeleton of %s" % name)
            continue
        if not out.get("matched"):
            ctx.disagree("skeleton-accepts-trace", case,
                         {"calls": r["line"]["trace"][:80], "natural": clean.get("natural"),
                          "raised": clean["raised"], "msg": clean.get("raised_msg")},
                         "the extracted skeleton of %s cannot produce this sequence of file-layer calls" % name)
            continue
        mfaults = list(out["faults"])
        nat = clean.get("natural")
        if nat is not None and "in_call" in nat:
            m = mfaults.pop()       # the run in which the file layer raised by itself
        else:
            m = out["clean"]
        real = canon_real(clean)
        if canon_model(m) != real:
            ctx.disagree("clean-run", case, dict(real, natural=nat, msg=clean.get("raised_msg")), canon_model(m))
        for f, mf in zip(r["faults"], mfaults):
            ctx.corr_evals += 1
            real = canon_real(f)
            mod = canon_model(mf)
            if real != mod:
                ctx.disagree("fault-run", {"case": case, "k": f["k"], "class": f["fk"]}, real, mod)


def canon_real(o):
    return {"raised": o["raised"] is not None, "leak": o["leak"], "doc_modified": o["doc_changed"],
            "calls": [list(c) for c in o["calls"]]}


def canon_model(m):
    return {"raised": m["outcome"] == "raised", "leak": m["handles"] > 0, "doc_modified": m["detached"] > 0,
            "calls": [list(c) for c in m["trace"]]}


def run_records(ctx, cases, cap=60):
    records = []
    for c in cases:
        c = json.loads(json.dumps(c))
        try:
            r = run_case(ctx, c, cap)
        except RecursionError:
            raise
        except Exception as e:
            import traceback
            ctx.notes.append("case crashed the harness: %r %s\n%s" % (e, json.dumps(c)[:300],
                                                                       traceback.format_exc()[-800:]))
            ctx.disagree("harness-case", c, repr(e), None)
            r = None
        if r is not None and "clean" in r:
            records.append(r)
    lines = model_lines(records)
    send = [json.dumps(j) for j in lines]
    import time
    t0 = time.time()
    rc, out = fw.run_driver("C08", send) if send else (0, [])
    ctx.extra["driver_s"] = round(ctx.extra.get("driver_s", 0) + time.time() - t0, 1)
    ctx.extra["driver_lines"] = ctx.extra.get("driver_lines", 0) + len(send)
    if os.environ.get("C08_DUMP_LINES"):
        with open(os.environ["C08_DUMP_LINES"], "a") as fh:
            fh.write("\n".join(send) + "\n")
    if rc != 0 or len(out) != len(send):
        ctx.disagree("driver", "driver failed rc=%s" % rc, "\n".join(out[-5:]), None)
        return records
    compare(ctx, records, [json.loads(x) for x in out])
    return records


# ============================================================================ truncation
TOK = re.compile(r"<(/?)([A-Za-z_][\w:.\-]*)((?:\s+[\w:.\-]+\s*=\s*(?:\"[^\"]*\"|'[^']*'))*)\s*(/?)>", re.S)


def tokenise(text):
    """[(kind, tag id, start, end)] kind 0 open 1 close 2 empty 3 text; None if the text is not of the expected form"""
    toks, pos, tags = [], 0, {}
    while pos < len(text):
        if text[pos] == "<":
            m = TOK.match(text, pos)
            if not m:
                return None
            tid = tags.setdefault(m.group(2), len(tags) + 1)
            kind = 1 if m.group(1) else (2 if m.group(4) else 0)
            toks.append((kind, tid, pos, m.end()))
            pos = m.end()
        else:
            j = text.find("<", pos)
            j = len(text) if j < 0 else j
            if text[pos:j].strip():
                toks.append((3, 0, pos, j))
            else:
                toks.append((4, 0, pos, j))      # inter-element white space: not a token of the model
            pos = j
    return toks


def build_tree(toks):
    """token stream -> (tree in the driver's encoding, number of white-space tokens after the root) or None"""
    stack, names = [[]], []
    for (kind, tid, _cs, _ce) in toks:
        if kind == 0:
            stack.append([])
            names.append(tid)
            continue
        if kind == 1:
            if not names or names[-1] != tid:
                return None
            kids = stack.pop()
            names.pop()
            node = [0, tid, kids]
        elif kind == 2:
            node = [1, tid]
        elif kind == 3:
            node = [2]
        else:
            node = [3]
        stack[-1].append(node)
    top = stack[0]
    if names or not top or top[0][0] not in (0, 1) or any(x != [3] for x in top[1:]):
        return None
    return top[0], len(top) - 1


def cut_offsets(ctx, data, toks, boff, every):
    """byte offsets to cut at.  thorough: EVERY offset (files up to 30000 bytes; beyond that every offset of the first and
    last 3000 bytes and every 7th in between).  quick: a stratified sample -- for every kind of token (start tag, end
    tag, empty element, character data, white space) a few tokens, each cut at its first byte (= token boundary),
    after its first byte, in the middle, before its last byte; inside attribute values; every offset of the first
    20 and the last 60 bytes (the root's end tag and the trailing line feed)."""
    n = len(data)
    if every:
        if n <= 30000:
            return list(range(0, n + 1))
        return sorted(set(range(0, 3000)) | set(range(n - 3000, n + 1)) | set(range(0, n, 7)))
    pts = set(range(0, min(20, n + 1))) | set(range(max(0, n - 60), n + 1))
    bykind = {}
    for t in toks:
        bykind.setdefault(t[0], []).append(t)
    for kind, ts in sorted(bykind.items()):
        pick = ts if len(ts) <= 6 else [ts[0], ts[-1]] + ctx.rng.sample(ts[1:-1], 4)
        for (_k, _tid, cs, ce) in pick:
            b0, b1 = boff[cs], boff[ce]
            pts |= {b0, b0 + 1, (b0 + b1) // 2, b1 - 1}
            if kind in (3, 4):          # character data / white space: every offset of the (short) token
                pts |= set(range(b0, min(b1, b0 + 40)))
    quotes = [i for i, ch in enumerate(data) if ch in (34, 39)]
    for q in (quotes if len(quotes) <= 8 else ctx.rng.sample(quotes, 8)):
        pts |= {q, q + 1, q + 2}
    return sorted(p for p in pts if 0 <= p <= n)


def trunc_case(ctx, spec, lines, pending, every=False):
    import neuroml.writers as W
    import neuroml.loaders as L
    root = tempfile.mkdtemp(prefix="verif_c08t_")
    try:
        p = os.path.join(root, "full.nml")
        doc = build_doc(spec)
        W.NeuroMLWriter.write(doc, p)
        data = open(p, "rb").read()
        try:
            full = L.NeuroMLLoader.load(p)
        except Exception as e:
            ctx.notes.append("written document does not load back: %r" % (e,))
            return
        ref = dump(full)
        text = data.decode("utf-8")
        toks = tokenise(text)
        if toks is None:
            ctx.disagree("xml-token-form", {"spec": spec}, "file is not a sequence of <tag ...>, </tag>, <tag/>, text",
                         None)
            return
        boff = [0]
        for ch in text:
            boff.append(boff[-1] + len(ch.encode("utf-8")))
        # byte offset of the end of the root element
        end_root = len(data.rstrip())
        offsets = cut_offsets(ctx, data, toks, boff, every)
        cut = os.path.join(root, "cut.nml")
        verdict = {}
        for k in offsets:
            with open(cut, "wb") as fh:
                fh.write(data[:k])
            try:
                d = L.NeuroMLLoader.load(cut)
                loaded = True
            except Exception:
                loaded = False
            ctx.seen(["trunc", spec.get("id"), k], nontrivial=(0 < k < end_root))
            ctx.count("trunc:" + ("rejected" if not loaded else "loaded"))
            verdict[k] = loaded
            if loaded:
                same = dump(d) == ref
                if k < end_root or not same:
                    ctx.fail("C08:truncation:%s" % ("loaded-smaller" if not same else "loaded-strict-prefix"),
                             "a truncated XML file was loaded instead of rejected",
                             {"spec": spec, "offset": k, "length": len(data), "same_document": same})
            elif k >= end_root:
                # only white space after the root's end tag is lost: this IS the complete document
                ctx.fail("C08:truncation:complete-document-rejected",
                         "a file that lacks only trailing white space was rejected by the loader",
                         {"spec": spec, "offset": k, "length": len(data)})
            reg, fds = handles_open(cut)
            if fds:
                ctx.fail("C08:NeuroMLLoader.load:leak", "the XML loader left a descriptor open",
                         {"spec": spec, "offset": k})
        # model side: the file's token stream (with white space) must be the model's serialisation of a tree, and
        # the model's verdict on every cut must be the loader's
        bt = build_tree(toks)
        if bt is None:
            ctx.disagree("xml-token-form", {"spec": spec}, "file is not one root element followed by white space", None)
            return
        tree, ntrail = bt
        cuts = []
        ti = 0
        for k in offsets:
            while ti < len(toks) and boff[toks[ti][3]] <= k:
                ti += 1
            # toks[ti] is the first token that ends after byte k (or ti == len(toks))
            if ti == len(toks) or boff[toks[ti][2]] == k:
                cuts.append((k, ti, 0))
            else:
                kind, _tid, cs, _ce = toks[ti]
                if kind in (0, 1, 2):
                    rest = 1
                else:
                    head = data[boff[cs]:k].decode("utf-8", "ignore")
                    rest = 3 if not head.strip() else 2
                cuts.append((k, ti, rest))
            ctx.count("cut:" + ("boundary", "in-markup", "in-text", "in-blank")[cuts[-1][2]])
        lines.append(json.dumps({"op": "truncws", "tree": tree, "trail": ntrail,
                                 "tokens": [[t[0], t[1]] for t in toks],
                                 "cuts": [[c[1], c[2]] for c in cuts]}))
        pending.append({"spec": spec, "cuts": cuts, "verdict": verdict, "ntok": len(toks) - ntrail,
                        "end_root": end_root})
    finally:
        shutil.rmtree(root, ignore_errors=True)


def trunc_compare(ctx, pending, outs):
    for p, o in zip(pending, outs):
        ctx.corr_evals += 1
        if not (o.get("layout") and o.get("element") and o.get("whole") and o.get("ntok") == p["ntok"]):
            ctx.disagree("xml-layout", {"spec": p["spec"]}, "written file",
                         "model: the file's token stream is not `tokens tree ++ trail n` of an element tree "
                         "(layout %s element %s whole %s ntok %s/%s)" % (o.get("layout"), o.get("element"),
                                                                          o.get("whole"), o.get("ntok"), p["ntok"]))
            continue
        for (k, nwhole, rest), comp in zip(p["cuts"], o["complete"]):
            ctx.corr_evals += 1
            # both directions, at every cut tried: the loader accepts exactly what the model calls complete
            if comp != p["verdict"][k]:
                ctx.disagree("loader-verdict", {"spec": p["spec"], "offset": k},
                             "loaded" if p["verdict"][k] else "rejected",
                             "complete" if comp else "incomplete")
            # the theorem's case split: strictly inside the document (a token of the root is lost) <-> rejected
            if comp != (nwhole >= p["ntok"]) or (nwhole >= p["ntok"]) != (k >= p["end_root"]):
                ctx.disagree("cut-classification", {"spec": p["spec"], "offset": k},
                             {"whole_tokens": nwhole, "root_tokens": p["ntok"], "end_root": p["end_root"]},
                             "model verdict %s contradicts c08_ws_truncated_rejected / _only_trailing_space_lost" % comp)


# ============================================================================ corpus, run, replay
CORPUS = [
    # repaired defect: export raises ValueError (a segment id that is not a number) -> NeuroMLWriter.write must close the file
    {"kind": "xw", "spec": {"id": "d1", "cells": [{"id": "c0", "nseg": 2}], "bad": "seg_id_str"}},
    # AttributeError path (the one the repository's tests cover)
    {"kind": "xw", "spec": {"id": "d2", "izh": ["i0"], "bad": "nonsense_member"}},
    # repaired defect: exportHdf5 refuses synapticConnection / explicitInput -> the HDF5 handle must be closed
    {"kind": "hw", "spec": {"id": "h1", "networks": [{"id": "n", "pops": [{"id": "p0", "size": 2}], "synconn": 1}]}},
    {"kind": "hw", "spec": {"id": "h2", "networks": [{"id": "n", "pops": [{"id": "p0", "instances": [[0, 0, 0]]}],
                                                      "expinputs": 1}]}},
    # repaired defect: the embedded-XML step fails -> networks must be re-attached (and the handle closed)
    {"kind": "hw", "spec": {"id": "h3", "cells": [{"id": "c0", "nseg": 1}], "bad": "seg_id_str",
                            "networks": [{"id": "n", "pops": [{"id": "p0", "size": 1}]}]}},
    # every fault point of a network with all exporters
    {"kind": "hw", "spec": {"id": "h4", "notes": "a < b", "networks": [{"id": "n", "temperature": "32degC", "pops": [
        {"id": "p0", "instances": [[0, 0, 0], [1, 0, 0]], "props": [["t", "v"]]}, {"id": "p1", "size": 3}],
        "projs": [{"id": "pr", "pre": "p0", "post": "p1", "wd": [[0, 0, 1, 0.5, "1ms"]], "segfrac": True}],
        "eprojs": [{"id": "ep", "pre": "p0", "post": "p1", "instance_ws": [[0, 0, 1, 0.5]]}],
        "cprojs": [{"id": "cp", "pre": "p0", "post": "p1", "instances": [[0, 0, 1]]}],
        "ilists": [{"id": "il", "pop": "p0", "inputs_w": [[0, 1, 1.5]]}]}]}},
    # an empty electrical projection: IndexError inside exportHdf5
    {"kind": "hw", "spec": {"id": "h5", "networks": [{"id": "n", "pops": [{"id": "p0", "size": 1}],
                                                      "eprojs": [{"id": "ep", "pre": "p0", "post": "p0"}]}]}},
    # repaired defect: ArrayMorphWriter with two cells of the same id: NodeError from create_group -> handle closed
    {"kind": "aw", "spec": {"shape": "doc", "morphs": [{"n": 2, "id": "m0", "cell_id": "cell0"},
                                                       {"n": 2, "id": "m1", "cell_id": "cell0"}]}},
    # OPEN FINDING: id-less morphology/cell: ids are assigned before the fault and stay
    {"kind": "aw", "spec": {"shape": "doc", "morphs": [{"n": 2, "id": None, "cell_id": None}]}},
    {"kind": "aw", "spec": {"shape": "single", "morphs": [{"n": 3, "id": None}]}},
    # repaired defect: NeuroMLHdf5Parser.parse fails after opening the file
    {"kind": "hr", "spec": {"id": "r1", "networks": [{"id": "n", "pops": [{"id": "p0", "size": 1}]}]},
     "damage": "no_root"},
    {"kind": "hr", "spec": {"id": "r2", "izh": ["i0"], "networks": [{"id": "n", "pops": [
        {"id": "p0", "instances": [[0, 0, 0]]}]}]}, "damage": "bad_xml"},
    {"kind": "hr", "spec": {"id": "r3", "networks": [{"id": "n", "pops": [{"id": "p0", "instances": [[1, 2, 3]]}],
                                                      "projs": [{"id": "pr", "pre": "p0", "post": "p0",
                                                                 "conns": [[0, 0, 0]]}]}]}},
    {"kind": "hro", "spec": {"id": "r4", "networks": [{"id": "n", "pops": [{"id": "p0", "instances": [[1, 2, 3]]}]}]}},
    {"kind": "ar", "spec": {"shape": "doc", "morphs": [{"n": 2, "id": "m0", "cell_id": "c0"},
                                                       {"n": 3, "id": "m1", "cell_id": "c1"}]}},
    {"kind": "ar", "spec": {"shape": "single", "morphs": [{"n": 2, "id": "m0"}]}},
]
NET1 = {"id": "n", "pops": [{"id": "p0", "instances": [[1, 2, 3], [4, 5, 6]], "props": [["t", "v"]]}, {"id": "p1", "size": 2}],
        "projs": [{"id": "pr", "pre": "p0", "post": "p1", "wd": [[0, 0, 1, 0.5, "1ms"]], "segfrac": True}],
        "ilists": [{"id": "il", "pop": "p0", "inputs_w": [[0, 1, 1.5]]}]}
CORPUS += [
    # second pass ---------------------------------------------------------------------------------------------
    # caller-owned file object, close=False: every write is a fault point, the library must not close it
    {"kind": "xwo", "spec": {"id": "o1", "izh": ["i0"], "cells": [{"id": "c0", "nseg": 2}]}},
    {"kind": "xwo", "spec": {"id": "o2", "cells": [{"id": "c0", "nseg": 1}], "bad": "seg_id_str"}},
    # embed_xml=False (with and without compression)
    {"kind": "hwn", "spec": {"id": "e1", "networks": [NET1]}, "opts": {"compress": False}},
    {"kind": "hwn", "spec": {"id": "e2", "networks": [{"id": "n", "pops": [{"id": "p0", "size": 2}], "synconn": 1}]}},
    {"kind": "hw", "spec": {"id": "e3", "izh": ["i0"], "networks": [NET1]}, "opts": {"compress": False}},
    # a document of optimized containers (PopulationContainer/ProjectionContainer/InputListContainer.exportHdf5)
    {"kind": "hwo", "spec": {"id": "k1", "izh": ["i0"], "networks": [NET1]}},
    {"kind": "hwo", "spec": {"id": "k2", "networks": [NET1], "bad_opt": "none_id_pop"}},
    {"kind": "hwo", "spec": {"id": "k3", "networks": [NET1], "bad_opt": "nonsense_member"}},
    # XML loader: truncated file, a root element that is not <neuroml>, an empty file
    {"kind": "xr", "spec": {"id": "x1", "izh": ["i0"]}, "form": "xml", "damage": "truncated", "at": 0.9},
    {"kind": "xr", "spec": {"id": "x2"}, "form": "xml", "damage": "other_root"},
    {"kind": "xr", "spec": {"id": "x3", "cells": [{"id": "c0", "nseg": 2}]}, "form": "xml"},
    # module-level readers on XML, on HDF5 (intact, damaged), on a missing file (SystemExit), on strings
    {"kind": "rf", "spec": {"id": "f1", "izh": ["i0"]}, "form": "xml"},
    {"kind": "rf", "spec": {"id": "f2", "izh": ["i0"]}, "form": "xml", "damage": "missing"},
    {"kind": "rf", "spec": {"id": "f3", "izh": ["i0"], "networks": [NET1]}, "form": "h5"},
    {"kind": "rf", "spec": {"id": "f4", "networks": [NET1]}, "form": "h5", "damage": "no_root"},
    {"kind": "rf", "spec": {"id": "f5", "izh": ["i0"], "networks": [NET1]}, "form": "h5", "damage": "bad_xml"},
    {"kind": "rs", "spec": {"id": "s1", "izh": ["i0"]}, "form": "xml"},
    {"kind": "rs", "spec": {"id": "s2", "izh": ["i0"]}, "form": "xml", "damage": "truncated", "at": 0.5},
    # include resolution: an XML and an HDF5 include; the HDF5 include damaged; the XML include cut / missing
    {"kind": "rfi", "spec": {"id": "i1", "izh": ["i0"], "networks": [NET1]}},
    {"kind": "rfi", "spec": {"id": "i2", "networks": [NET1]}, "damage": "no_root"},
    {"kind": "rfi", "spec": {"id": "i3", "networks": [NET1]}, "damage": "inc_truncated"},
    {"kind": "rfi", "spec": {"id": "i4", "networks": [NET1]}, "damage": "inc_missing"},
    # a group nested deeper than the expansion of parse_group (un-expanded code below the third level)
    {"kind": "hr", "spec": {"id": "r5", "networks": [NET1]}, "damage": "deep_group"},
    # follow-up (repaired tree): a construct refused in the MIDDLE of the write -- two synapses in one electrical
    # projection / two components in one continuous projection are refused after the projection group was created:
    # the handle must be closed, the networks re-attached, the cured document written by the retry
    {"kind": "hw", "spec": {"id": "m1", "izh": ["i0"], "networks": [{"id": "n", "pops": [{"id": "p0", "size": 3}],
        "eprojs": [{"id": "ep", "pre": "p0", "post": "p0", "conns": [[0, 0, 1], [1, 1, 2]], "mixed": True}]}]}},
    {"kind": "hwn", "spec": {"id": "m2", "networks": [{"id": "n", "pops": [{"id": "p0", "instances": [[0, 0, 0], [1, 0, 0]]}],
        "cprojs": [{"id": "cp", "pre": "p0", "post": "p0", "instances": [[0, 0, 1], [1, 1, 0]], "mixed": True}]}]}},
    # OPEN FINDING: a list of included files owned by the caller keeps the marks of a failed read (the XML include was
    # merged into a document that is thrown away; on the repaired tree the HDF5 include is marked before it is read)
    {"kind": "rfa", "spec": {"id": "a1", "networks": [NET1]}, "damage": "no_root"},
    {"kind": "rfa", "spec": {"id": "a2", "izh": ["i0"], "networks": [NET1]}},
    # files as older writers left them: no embedded XML, no column attributes, attribute values as bytes
    {"kind": "hr", "spec": {"id": "r6", "izh": ["i0"], "networks": [NET1]}, "damage": "noembed"},
    {"kind": "hr", "spec": {"id": "r7", "networks": [NET1]}, "damage": "no_columns"},
    {"kind": "hr", "spec": {"id": "r8", "networks": [NET1]}, "damage": "bytes_attrs"},
]
TRUNC_CORPUS = [
    {"id": "t0"},
    {"id": "t1", "notes": "a < b & c > d", "izh": ["i0"], "cells": [{"id": "c0", "nseg": 2, "notes": "]]> <![CDATA["}]},
]


def reader_spec(rng):
    """a document that NeuroMLHdf5Writer can write (so that there is a file to read)"""
    spec = gen_h5_spec(rng)
    spec.pop("bad", None)
    del spec["networks"][1:]
    for net in spec["networks"]:
        net.pop("synconn", None)
        net.pop("expinputs", None)
        net["ilists"] = [e for e in net.get("ilists", []) if e["inputs"] or e["inputs_w"]]
        net["eprojs"] = [{k: v for k, v in e.items() if k != "mixed"} for e in net.get("eprojs", [])
                         if len(e) - ("mixed" in e) > 3]
        net["cprojs"] = [{k: v for k, v in e.items() if k != "mixed"} for e in net.get("cprojs", [])
                         if len(e) - ("mixed" in e) > 3]
    return spec


def gen_cases2(ctx):
    """second pass: specialisations (keyword arguments, caller-owned file object, optimized containers) and the
    module-level readers"""
    rng = ctx.rng
    m = ctx.search_mult
    cases = []
    for _ in range(ctx.n(3, 25) * m):
        cases.append({"kind": "xwo", "spec": gen_xml_spec(rng)})
    for _ in range(ctx.n(4, 30) * m):
        c = {"kind": "hwn", "spec": gen_h5_spec(rng), "opts": {"compress": rng.random() < 0.5}}
        if c["spec"].get("bad") in ("seg_id_str", "nonsense_member"):
            c["spec"].pop("bad")          # only the embedded-XML step would see them
        cases.append(c)
    for _ in range(ctx.n(3, 25) * m):
        spec = reader_spec(rng)
        for net in spec["networks"]:      # the optimized loader refuses electrical / continuous projections
            net["eprojs"], net["cprojs"] = [], []
        r = rng.random()
        if r < 0.15:
            spec["bad_opt"] = "none_id_pop"
        elif r < 0.3:
            spec["bad_opt"] = "nonsense_member"
        cases.append({"kind": "hwo", "spec": spec})
    for _ in range(ctx.n(4, 24) * m):
        spec = gen_xml_spec(rng)
        spec.pop("bad", None)
        dmg = rng.choice([None, None, "truncated", "truncated", "empty", "other_root", "missing"])
        kind = rng.choice(["xr", "rf", "rs"])
        if kind == "rs" and dmg == "missing":
            dmg = "truncated"
        cases.append({"kind": kind, "spec": spec, "form": "xml", "damage": dmg, "at": rng.choice([0.1, 0.5, 0.9, 0.99])})
    for _ in range(ctx.n(3, 16) * m):
        cases.append({"kind": "rf", "form": "h5", "spec": reader_spec(rng), "damage": rng.choice(DAMAGE)})
    for _ in range(ctx.n(1, 6) * m):
        cases.append({"kind": "rfa", "spec": reader_spec(rng),
                      "damage": rng.choice([None, "no_root", "bad_xml", "not_hdf5"])})
    for _ in range(ctx.n(2, 10) * m):
        cases.append({"kind": "rfi", "spec": reader_spec(rng),
                      "damage": rng.choice([None, None, "no_root", "bad_xml", "not_hdf5", "inc_missing", "inc_truncated"])})
    return cases


def gen_cases(ctx):
    rng = ctx.rng
    m = ctx.search_mult
    cases = []
    for _ in range(ctx.n(7, 45) * m):
        cases.append({"kind": "xw", "spec": gen_xml_spec(rng)})
    for _ in range(ctx.n(9, 70) * m):
        c = {"kind": "hw", "spec": gen_h5_spec(rng)}
        if rng.random() < 0.25:
            c["opts"] = {"compress": False}
        cases.append(c)
    for _ in range(ctx.n(5, 35) * m):
        cases.append({"kind": "aw", "spec": gen_am_spec(rng)})
    for _ in range(ctx.n(6, 36) * m):
        spec = gen_h5_spec(rng)
        spec.pop("bad", None)
        del spec["networks"][1:]
        for net in spec["networks"]:
            net.pop("synconn", None)
            net.pop("expinputs", None)
            net["ilists"] = [e for e in net.get("ilists", []) if e["inputs"] or e["inputs_w"]]
            net["eprojs"] = [{k: v for k, v in e.items() if k != "mixed"} for e in net.get("eprojs", [])
                         if len(e) - ("mixed" in e) > 3]
            net["cprojs"] = [{k: v for k, v in e.items() if k != "mixed"} for e in net.get("cprojs", [])
                         if len(e) - ("mixed" in e) > 3]
        cases.append({"kind": rng.choice(["hr", "hr", "hro"]), "spec": spec, "damage": rng.choice(DAMAGE)})
    for _ in range(ctx.n(3, 25) * m):
        spec = gen_am_spec(rng)
        spec.pop("standalone", None)
        for i, mm in enumerate(spec["morphs"]):
            if spec["shape"] == "doc":
                mm["cell_id"] = "cell%d" % i
        cases.append({"kind": "ar", "spec": spec, "damage": rng.choice([None, None, None, "not_hdf5"])})
    return cases


def directed(ctx, cases):
    """When an obligation is broken fw asks for a 10x wider search (ctx.search_mult).  The search is directed instead:
    the driver names the entry points whose skeleton has an unprotected place that is not a known finding; cases of
    those entry points are kept at 4x the normal number, the others (and everything when the driver names none) at
    the normal number.  Keeps a run against a broken tree within the time budget."""
    if ctx.search_mult <= 1:
        return cases
    suspects = set()
    rc, out = fw.run_driver("C08", [json.dumps({"op": "unprotected"})])
    known_rows = set()
    try:
        src = open(fw.module_path("NmlVerif.Props.C08Gen")).read()
        m = re.search(r"def known : List \(Nat × UKind\) := \[(.*?)\n\]", src, re.S)
        known_rows = {(int(a), b) for a, b in re.findall(r"\((\d+),\s*\.(\w+)\)", m.group(1))} if m else set()
        for e in json.loads(out[0])["entries"]:
            if any((e["id"], i[0]) not in known_rows for i in e["issues"]):
                suspects.add(e["id"])
    except Exception:
        pass
    ctx.extra["directed_search_entries"] = sorted(ENTRY_NAMES[e] for e in suspects)
    base = ctx.search_mult
    seen, out_cases = {}, []
    for c in cases:
        k = c["kind"]
        seen[k] = seen.get(k, 0) + 1
        quota = ctx.n(10, 80) * (4 if KIND_ENTRY[k] in suspects else 1)
        if k in ("hr", "hro", "rf", "rfi"):
            quota = ctx.n(5, 30) * (3 if KIND_ENTRY[k] in suspects else 1)
        if seen[k] <= quota:
            out_cases.append(c)
    return out_cases


def run(ctx):
    load_skeletons()
    cap = ctx.n(30, 150)
    cases = [json.loads(json.dumps(c)) for c in CORPUS] + directed(ctx, gen_cases(ctx) + gen_cases2(ctx))
    run_records(ctx, cases, cap)
    # directed search when the per-run obligation is broken: the driver says which entry points have an unprotected
    # place; the corpus + generated cases above already fault every call of those entry points
    rc, out = fw.run_driver("C08", [json.dumps({"op": "unprotected"})])
    if rc == 0 and out:
        try:
            ents = json.loads(out[0])["entries"]
            ctx.extra["unprotected"] = {ENTRY_NAMES[e["id"]]: sorted({i[0] for i in e["issues"]}) for e in ents
                                        if e["issues"]}
        except Exception:
            pass
    # truncation
    specs = [json.loads(json.dumps(s)) for s in TRUNC_CORPUS]
    for _ in range(ctx.n(3, 12) * min(ctx.search_mult, 3)):
        s = gen_xml_spec(ctx.rng)
        s.pop("bad", None)
        specs.append(s)
    if ctx.tier == "thorough":
        specs.append({"id": "big", "cells": [{"id": "c%d" % i, "nseg": 6} for i in range(12)],
                      "networks": [gen_network(ctx.rng, 0)]})
    lines, pending = [], []
    for s in specs:
        trunc_case(ctx, s, lines, pending, every=(ctx.tier == "thorough"))
    if lines:
        rc, out = fw.run_driver("C08", lines)
        if rc != 0 or len(out) != len(lines):
            ctx.disagree("driver", "trunc driver failed rc=%s" % rc, "\n".join(out[-5:]), None)
        else:
            trunc_compare(ctx, pending, [json.loads(x) for x in out])
    ctx.extra["exhaustive"] = False
    ctx.extra["distinct_nontrivial_fault_points"] = len(FAULT_KEYS)


def replay(ctx, payload):
    # the driver must run on the skeletons of the tree being replayed against
    regenerate(ctx)
    ok, log = fw.lake_build(["NmlVerif.Gen.Skeletons"])
    if not ok:
        return {"fails": True, "error": "cannot build Gen/Skeletons.lean", "log": log[-500:]}
    case = payload.get("case", {})
    if "spec" in case and "offset" in case:
        lines, pending = [], []
        trunc_case(ctx, case["spec"], lines, pending, every=True)
        if lines:
            rc, out = fw.run_driver("C08", lines)
            if rc == 0 and len(out) == len(lines):
                trunc_compare(ctx, pending, [json.loads(x) for x in out])
    else:
        c = case.get("case", case)
        if isinstance(c, dict) and "case" in c:
            c = c["case"]
        c = {k: v for k, v in c.items() if not k.startswith("_")}
        if case.get("fault"):
            c["faults"] = [case["fault"][0]]
        run_records(ctx, [c])
    known = fw.known_findings("C08")
    bad = [f for f in ctx.failures if f["key"] not in known]
    return {"fails": bool(bad or ctx.corr_disagreements), "failures": bad,
            "known": sorted({f["key"] for f in ctx.failures if f["key"] in known}),
            "disagreements": ctx.corr_disagreements[:5]}
