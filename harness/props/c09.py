"""C09 — with build-time validation on, factories never hand back an invalid component.

Tie: member table extracted from nml.py on every run (translators/members_extract.py -> Gen/Members.lean, shared
with C10); decision-level hand model of component_factory/_check_arg_list/add-with-a-type/the global switch
(lean/NmlVerif/Model/Factory.lean) compared with the real entry points on all 199 component types x
{valid, facet-violating, misspelt, cast-failing keywords} x 4 switch settings x string/class form; the same calls
are judged by a harness-side oracle that restates the property on the real objects (explicit validate() on what
was returned), independent of the Lean model.
"""
import ast
import json
import os
import re
import sys

import fw

sys.path.insert(0, os.path.join(fw.VERIF, "translators"))
import members_extract  # noqa: E402
from props import c10  # noqa: E402  (shared helpers: classes(), quiet, serialisation, snapshots)

LEAN_PROPS = ["NmlVerif.Props.C09"]
LEVEL = "proof"
RULE = ("streams: (factory) EVERY one of the 199 component types x keyword sets {valid (from MemberSpec types and the "
        "validate_*_patterns_/enumerations in nml.py), one facet violation, one required member missing, one misspelt "
        "key (3 spellings), one value the constructor cannot cast} x {ENABLED on/off} x {validate True/False} x "
        "{string, class} form, through Class.component_factory, neuroml.utils.component_factory; (addtype) every "
        "(parent type, child type) pair with a candidate member: parent.add(<type>, **kw) with the same keyword sets; "
        "(session) random enable/disable/call histories through the public switch functions. A case is non-trivial "
        "when the keywords are not all-valid or validation is off (a branch other than the happy path decides); "
        "distinct = distinct (type, keyword kind, switch, flag, form, entry point, outcome)")
TRUST = [
    "translators/members_extract.py (shared with C10; its table is compared with the real _get_members() of every class by C10's members stream and again here through _check_arg_list outcomes)",
    "decision-level hand model of component_factory/_check_arg_list/add (Model/Factory.lean), tied by correspondence only",
    "validate(), the generated constructors' casts and Cell.setup_nml_cell are parameters of the model: their verdicts are measured on the real library per case (validate() vs schema is C02/C03, constructors vs table is C11)",
]
ASSUMPTIONS = [
    "keyword VALUES are of the Python kind the member expects (str/number/component/list of components); a value of another Python type (e.g. a list for an integer attribute) makes the constructor raise TypeError, which is neither outcome named by the property: outside the quantifier's three keyword classes",
    "the type argument names one of the 199 generated component classes (other module attributes: AttributeError/TypeError, outside the quantifier)",
    "add() with a component INSTANCE ignores **kwargs entirely (they are only used with a type argument): outside the quantifier, noted in notes/C09.md",
    "validate() is the non-recursive generatedssupersuper.validate(): 'a component that validate() accepts' is judged by exactly that call",
]

NUMERIC = {"xs:string": "s1", "xs:float": 0.5, "xs:double": 0.5, "ZeroToOne": 0.5, "xs:nonNegativeInteger": 1,
           "NonNegativeInteger": 1, "PositiveInteger": 1, "DoubleGreaterThanZero": 1.5, "xs:anyURI": "u1",
           "xs:boolean": True, "xs:integer": 1, "xs:int": 1, "xs:positiveInteger": 1}
INT_TYPES = ("xs:nonNegativeInteger", "NonNegativeInteger", "PositiveInteger", "xs:integer", "xs:int", "xs:positiveInteger")
FLOAT_TYPES = ("xs:float", "xs:double", "ZeroToOne", "DoubleGreaterThanZero")
BOUNDED = {"ZeroToOne": 7.5, "NonNegativeInteger": -3, "PositiveInteger": 0, "DoubleGreaterThanZero": -1.5}

_ENUMS = None


def enumerations():
    """simple type name -> first enumeration value, read from the `validate_<Type>` methods of the CURRENT nml.py"""
    global _ENUMS
    if _ENUMS is None:
        with open(os.path.join(fw.REPO, "neuroml", "nml", "nml.py"), encoding="utf-8") as fh:
            tree = ast.parse(fh.read())
        out = {}
        for node in ast.walk(tree):
            if isinstance(node, ast.FunctionDef) and node.name.startswith("validate_") and node.name not in out:
                for a in ast.walk(node):
                    if (isinstance(a, ast.Assign) and isinstance(a.targets[0], ast.Name)
                            and a.targets[0].id == "enumerations"):
                        try:
                            out[node.name[len("validate_"):]] = ast.literal_eval(a.value)
                        except Exception:  # noqa
                            pass
        _ENUMS = out
    return _ENUMS


def pattern_candidates(patterns):
    out = []
    for grp in patterns:
        for p in grp:
            m = re.search(r"\(([A-Za-z0-9_|]+)\)\)\$$", p)
            if m:
                out += ["1" + u for u in m.group(1).split("|")]
    return out + ["a1", "1", "0.5", "pop0[0]", "s"]


def sample_simple(cls, dt):
    pats = getattr(cls, "validate_%s_patterns_" % dt, None)
    if pats is not None:
        for cand in pattern_candidates(pats):
            if all(any(re.search(p, cand) for p in grp) for grp in pats):
                return cand
        return None
    if dt in enumerations() and enumerations()[dt]:
        return enumerations()[dt][0]
    return NUMERIC.get(dt)


_VALID = {}


def valid_kwargs(cname, depth=0):
    """keyword arguments meant to make a valid component: every required member, by its declared type"""
    if depth == 0 and cname in _VALID:
        return dict(_VALID[cname])
    C = c10.classes()
    cls, kw = C[cname], {}
    for (n, dt, cont, opt) in sorted(c10.ref_members(cls)):
        if opt or n == "__ANY__":
            continue
        if dt in C:
            if depth < 3:
                with c10.quiet():
                    child = C[dt](**valid_kwargs(dt, depth + 1))
                kw[n] = [child] if cont else child
        else:
            v = sample_simple(cls, dt)
            if v is not None:
                kw[n] = [v] if cont else v
    if depth == 0:
        _VALID[cname] = dict(kw)
    return kw


def keyword_sets(rng, cname):
    """-> list of (kind, kwargs)"""
    C = c10.classes()
    cls = C[cname]
    ms = sorted(c10.ref_members(cls))
    names = [m[0] for m in ms]
    base = valid_kwargs(cname)
    out = [("valid", dict(base))]
    # a valid optional member as well
    opt_simple = [m for m in ms if m[3] and m[1] not in C and m[0] != "__ANY__" and not m[2] and sample_simple(cls, m[1]) is not None]
    if opt_simple:
        m = rng.choice(opt_simple)
        kw = dict(base)
        kw[m[0]] = sample_simple(cls, m[1])
        out.append(("valid+optional", kw))
    # one facet violation
    facet = [m for m in ms if m[1] not in C and not m[2] and m[0] != "__ANY__"
             and (getattr(cls, "validate_%s_patterns_" % m[1], None) is not None or m[1] in enumerations() or m[1] in BOUNDED)]
    if facet:
        m = rng.choice(facet)
        kw = dict(base)
        if m[1] in BOUNDED:
            kw[m[0]] = BOUNDED[m[1]]
        elif m[1] in enumerations() and isinstance(enumerations()[m[1]][0], float):
            kw[m[0]] = 0.25
        else:
            kw[m[0]] = "not a valid %s!" % m[1]
        out.append(("facet", kw))
    # one required member missing
    req = [k for k in base]
    if req:
        kw = dict(base)
        del kw[rng.choice(sorted(req))]
        out.append(("missing", kw))
    # misspelt keys: one of three spellings (never a member name)
    victim = rng.choice(names) if names else "id"
    camel = re.sub(r"_([a-z])", lambda mm: mm.group(1).upper(), victim)
    spellings = [victim + "s", victim.capitalize() if victim.capitalize() != victim else victim + "_", camel if camel != victim else victim + "Id",
                 "gds_collector_", "extensiontype_", "anytypeobjs_"]
    sp = [s for s in spellings if s not in names]
    k = rng.choice(sp[:3] if rng.random() < 0.8 else sp)
    kw = dict(base)
    kw[k] = "x1"
    out.append(("typo", kw))
    if rng.random() < 0.5:
        kw = {k: "x1"}
        kw.update(base)          # the misspelt key first
        out.append(("typo-first", kw))
    # a value the constructor cannot cast (int()/float() of a word): ValueError from the constructor itself
    castable = [m for m in ms if m[1] in INT_TYPES + FLOAT_TYPES and not m[2]]
    if castable:
        m = rng.choice(castable)
        kw = dict(base)
        kw[m[0]] = "abc"
        out.append(("cast", kw))
    return out


def kw_enc(kw):
    """keyword arguments as plain JSON (stored in cases / replay files): components become {"__c__": class}"""
    def enc(v):
        if c10._is_gen(v):
            return {"__c__": type(v).__name__}
        if isinstance(v, list):
            return [enc(x) for x in v]
        return v
    return [[k, enc(v)] for k, v in kw.items()]


def kw_dec(pairs_):
    C = c10.classes()

    def dec(v):
        if isinstance(v, dict) and "__c__" in v:
            with c10.quiet():
                return C[v["__c__"]](**valid_kwargs(v["__c__"], 1))
        if isinstance(v, list):
            return [dec(x) for x in v]
        return v
    return dict((k, dec(v)) for k, v in pairs_)


def with_kw(d, kw):
    d = dict(d)
    d["_kw"] = kw
    d["kw"] = kw_enc(kw)
    return d


def kw_json(kw, ids):
    return [[k, c10.ser_val(v, ids)] for k, v in kw.items()]


def measure(cname, kw):
    """cf: the constructor itself raises ValueError; cv: real validate() accepts what the constructor (+ Cell setup)
    builds. Measured WITHOUT the factory."""
    C = c10.classes()
    try:
        with c10.quiet():
            o = C[cname](**kw)
            if cname == "Cell":
                o.setup_nml_cell()
    except ValueError:
        return True, False, None, None
    except Exception as e:  # noqa
        return None, False, "ctor:%s" % type(e).__name__, None
    v = c10.validity(o)
    return False, bool(v), (None if v is not None else "validate-crashed"), o


def member_fields(o, ids):
    if o is None:
        return []
    return [[m[0], c10.ser_val(vars(o)[m[0]], ids)] for m in c10.ref_members(type(o)) if m[0] in vars(o)]


def classify(e):
    s = str(e)
    if c10.classify_exc(e) == "strFails":       # raised by a __str__ helper while a duplicate warning was formatted
        return "err:add:strFails"
    if isinstance(e, ValueError):
        m = re.match(r"'(.*)' is not a permitted argument", s)
        if m:
            return "err:badArg:" + m.group(1)
        if s.startswith("Validation failed"):
            return "err:invalid"
        return "err:ctor"
    if isinstance(e, AttributeError):
        return "err:attr"
    t = c10.classify_exc(e)      # the exceptions of add()'s placement part (property C10)
    if not t.startswith("other:"):
        return "err:add:" + t
    return "err:other:%s:%s" % (type(e).__name__, s[:60])


def switch_to(b):
    import neuroml
    with c10.quiet():
        if b:
            neuroml.enable_build_time_validation()
        else:
            neuroml.disable_build_time_validation()


def type_arg(cname, form):
    return cname if form == "str" else c10.classes()[cname]


def call_factory(ep, cname, form, flag, kw, rng_cls="NeuroMLDocument"):
    import neuroml
    import neuroml.utils as U
    arg = type_arg(cname, form)
    with c10.quiet():
        if ep == "utils":
            return U.component_factory(arg, flag, **kw)
        return c10.classes()[rng_cls].component_factory(arg, validate=flag, **kw)


# ------------------------------------------------------------------ factory stream
def factory_case(ctx, case):
    """case = {cls, form, kind, kw (python dict, rebuilt by the caller), en, flag, ep, via}"""
    import neuroml
    cname, kw = case["cls"], case["_kw"]
    C = c10.classes()
    names = [m[0] for m in c10.ref_members(C[cname])]
    cf, cv, odd, plain = measure(cname, kw)
    ids = c10.Ids()
    line = {"op": "factory", "en": case["en"], "cls": cname, "form": case["form"], "kw": kw_json(kw, ids),
            "flag": case["flag"], "cf": bool(cf), "cv": cv, "oid": 1000, "fields": member_fields(plain, ids)}
    saved = c10.get_switch()
    ret, exc = None, None
    try:
        switch_to(case["en"])
        seen_en = neuroml.get_build_time_validation()
        try:
            ret = call_factory(case["ep"], cname, case["form"], case["flag"], kw, case.get("via", "NeuroMLDocument"))
        except Exception as e:  # noqa
            exc = e
        after = c10.get_switch()
    finally:
        c10.set_switch(saved)
    tag = "ok" if exc is None else classify(exc)
    rec = {"r": tag}
    pub = {k: v for k, v in case.items() if not k.startswith("_")}
    # ---- oracle (property statement on the real objects)
    gate = case["en"] and case["flag"]
    bad_keys = [k for k in kw if k not in names]

    def fail(key, what):
        ctx.fail(key, what, {"factory": pub, "observed": tag})
    if seen_en != case["en"] or after != case["en"]:
        fail("C09:switch-changed", "the switch reads %s/%s around a call made under %s" % (seen_en, after, case["en"]))
    if exc is not None and not isinstance(exc, ValueError):
        fail("C09:non-valueerror", "the factory raised %s" % tag)
    if bad_keys and not isinstance(exc, ValueError):
        fail("C09:typo-accepted:" + case["kind"], "keyword(s) %s are not members of %s but the call did not raise ValueError (%s)"
             % (bad_keys, cname, tag))
    if exc is None:
        if type(ret).__name__ != cname:
            fail("C09:wrong-type", "asked for %s, got %s" % (cname, type(ret).__name__))
        lost = [k for k in kw if k in names and not c10.value_equal(getattr(ret, k, None), getattr(plain, k, None))]
        if lost:
            fail("C09:keyword-lost", "member keyword(s) %s did not reach the component as the constructor would set them" % lost)
        v = c10.validity(ret)
        if gate and v is not True:
            fail("C09:invalid-returned:" + case["kind"], "validation on, yet the returned %s fails an explicit validate()" % cname)
        if not gate and v != cv:
            fail("C09:off-changed-component", "validation off: the returned component validates=%s, the plainly constructed one %s" % (v, cv))
    else:
        if not gate and not bad_keys and cf is False:
            fail("C09:raised-although-off:" + case["kind"], "validation off (ENABLED=%s, validate=%s), all keywords are members, "
                 "constructor fine, yet the call raised %s" % (case["en"], case["flag"], tag))
        if gate and not bad_keys and cf is False and cv:
            fail("C09:valid-refused", "a valid %s was refused: %s" % (cname, tag))
    return line, rec, odd


def gen_factory_cases(ctx, names, per_class_settings):
    rng = ctx.rng
    cases = []
    vias = sorted(c10.classes())
    for cname in names:
        for kind, kw in keyword_sets(rng, cname):
            settings = [(en, fl) for en in (True, False) for fl in (True, False)]
            forms = ["str", "class"]
            combos = [(s, f) for s in settings for f in forms]
            if per_class_settings < len(combos):
                # always the 4 switch settings; the form alternates
                combos = [(s, forms[(i + rng.randint(0, 1)) % 2]) for i, s in enumerate(settings)]
            for (en, fl), form in combos:
                ep = "utils" if rng.random() < 0.3 else "cls"
                cases.append(with_kw({"cls": cname, "form": form, "kind": kind, "en": en, "flag": fl, "ep": ep,
                                      "via": rng.choice(vias)}, kw))
    return cases


def run_factory(ctx, cases, stream="factory"):
    lines, recs = [], []
    for case in cases:
        line, rec, odd = factory_case(ctx, case)
        lines.append(json.dumps(line))
        recs.append((case, rec, odd))
    rc, out = fw.run_driver("C09", lines, timeout=3000)
    if rc != 0 or len(out) != len(lines):
        ctx.disagree("driver", "%s: driver failed rc=%s (%d/%d)" % (stream, rc, len(out), len(lines)), "\n".join(out[-3:])[:400], None)
        out = [None] * len(lines)
    for (case, rec, odd), l in zip(recs, out):
        pub = {k: v for k, v in case.items() if not k.startswith("_")}
        ctx.count("%s:%s" % (stream, case["kind"]))
        ctx.count("outcome:" + ":".join(rec["r"].split(":")[:2]))
        ctx.seen([case["cls"], case["kind"], case["en"], case["flag"], case["form"], case["ep"], rec["r"]],
                 nontrivial=(case["kind"] != "valid" or not (case["en"] and case["flag"])))
        if odd:
            ctx.count("unmodelled:" + odd)
            continue
        if l is not None:
            ctx.corr_evals += 1
            model = json.loads(l)
            model.pop("landed", None)
            if model != rec:
                ctx.disagree(stream, pub, rec, model)
    for case, rec, _ in recs[:3]:
        ctx.sample({k: v for k, v in case.items() if not k.startswith("_")} | {"result": rec["r"]})


# ------------------------------------------------------------------ add(<type>, …) stream
def pairs():
    """(parent class, child class, member name, container, n candidates) for every pair with a candidate member"""
    C = c10.classes()
    out = []
    for p, pc in C.items():
        ms = c10.ref_members(pc)
        for m in ms:
            if m[1] in C:
                out.append((p, m[1], m[0], m[2], len([x for x in ms if x[1] == m[1]])))
    return out


def addtype_script(rng, p, child, member, ncand):
    calls = []
    sets = keyword_sets(rng, child)
    rng.shuffle(sets)
    for kind, kw in sets[:4]:
        en, fl = rng.choice([(True, True), (True, True), (True, False), (False, True), (False, False)])
        hint = member if ncand > 1 else rng.choice([None, None, member])
        calls.append(with_kw({"cls": child, "form": rng.choice(["str", "class"]), "kind": kind, "en": en, "flag": fl,
                              "hint": hint, "force": rng.random() < 0.2}, kw))
    if rng.random() < 0.5:       # the same valid keywords again: an equal component is made and refused as duplicate
        c0 = dict(calls[0])
        calls.append(c0)
    return {"parent": p, "parent_valid_kw": rng.random() < 0.7, "calls": calls}


def run_addtype(ctx, scripts, stream="addtype"):
    C = c10.classes()
    lines, recs_all = [], []
    for s in scripts:
        ids = c10.Ids()
        with c10.quiet():
            parent = C[s["parent"]](**{k: v for k, v in (valid_kwargs(s["parent"]) if s["parent_valid_kw"] else {}).items()
                                      if not isinstance(v, list)})
        line = {"op": "addtype", "parent": c10.ser_obj(parent, ids), "calls": []}
        names_p = c10.ref_members(type(parent))
        recs = []
        saved = c10.get_switch()
        next_oid = 5000
        for call in s["calls"]:
            kw = call["_kw"]
            cname = call["cls"]
            cf, cv, odd, plain = measure(cname, kw)
            child_names = [m[0] for m in c10.ref_members(C[cname])]
            before = c10.snapshot(parent, ids)
            ret, exc, tags = None, None, []
            import warnings
            try:
                switch_to(call["en"])
                with c10.quiet(), warnings.catch_warnings(record=True) as ws:
                    warnings.simplefilter("always")
                    try:
                        ret = parent.add(type_arg(cname, call["form"]), hint=call["hint"], force=call["force"],
                                         validate=call["flag"], **kw)
                    except Exception as e:  # noqa
                        exc = e
                tags = c10.classify_warn(ws)
                after_sw = c10.get_switch()
            finally:
                c10.set_switch(saved)
            next_oid += 1
            if ret is not None:
                ids.m[id(ret)] = next_oid
                ids.keep.append(ret)
            else:
                # a component may have been created and stored although the call raised (validation of the parent)
                for n, _dt, cont, _o in names_p:
                    v = vars(parent).get(n)
                    for x in (v if isinstance(v, list) else [v]):
                        if c10._is_gen(x) and id(x) not in ids.m and type(x).__name__ == cname:
                            ids.m[id(x)] = next_oid
                            ids.keep.append(x)
            after = c10.snapshot(parent, ids)
            ch, gone = c10.snap_diff(before, after)
            pv = c10.validity(parent)
            try:
                with c10.quiet():
                    str(ret if ret is not None else C[cname](**kw))
                sok = True
            except Exception:  # noqa
                sok = False
            tag = "ok" if exc is None else classify(exc)
            rec = {"r": tag, "w": tags[0] if len(tags) == 1 else (None if not tags else "+".join(tags)),
                   "ret": next_oid if exc is None else None, "ch": ch}
            line["calls"].append({"cls": cname, "form": call["form"], "kw": kw_json(kw, ids), "flag": call["flag"],
                                  "cf": bool(cf), "cv": cv, "oid": next_oid, "en": call["en"], "hint": call["hint"],
                                  "force": call["force"], "pv": bool(pv), "sok": sok,
                                  "fields": member_fields(plain, ids)})
            pub = {k: v for k, v in call.items() if not k.startswith("_")}
            pub["parent"] = s["parent"]
            # ---- oracle
            gate = call["en"] and call["flag"]
            bad_keys = [k for k in kw if k not in child_names]

            def fail(key, what):
                ctx.fail(key, what, {"addtype": pub, "observed": tag, "script_parent": s["parent"]})
            if after_sw != call["en"]:
                fail("C09:switch-changed", "add() changed the switch")
            if bad_keys:
                if not isinstance(exc, ValueError):
                    fail("C09:typo-accepted:add", "add(%s, …) accepted non-member keyword(s) %s (%s)" % (cname, bad_keys, tag))
                elif ch:
                    fail("C09:typo-changed-parent", "add() refused the keyword but changed the parent: %s" % [c[0] for c in ch])
            if exc is None:
                if gate:
                    if c10.validity(ret) is not True:
                        fail("C09:invalid-returned:add", "validation on, yet the component returned by add() fails validate()")
                    if pv is not True:
                        fail("C09:invalid-parent:add", "validation on, add() returned, yet the parent fails validate()")
            elif not isinstance(exc, ValueError) and not tag.startswith("err:add:"):  # noqa
                fail("C09:non-valueerror", "add(<type>) raised %s" % tag)
            elif tag.startswith("err:add:"):
                pass            # placement errors of add() are property C10's business
            elif not gate and not bad_keys and cf is False and isinstance(exc, ValueError):
                fail("C09:raised-although-off:add", "validation off, yet add(<type>) raised %s" % tag)
            recs.append((pub, rec, odd))
            ctx.count("%s:%s" % (stream, call["kind"]))
            ctx.count("outcome:" + ":".join(tag.split(":")[:2]))
            ctx.seen([s["parent"], cname, call["kind"], call["en"], call["flag"], call["form"], "add", tag],
                     nontrivial=(call["kind"] != "valid" or not gate))
        lines.append(json.dumps(line))
        recs_all.append(recs)
    rc, out = fw.run_driver("C09", lines, timeout=3000)
    if rc != 0 or len(out) != len(lines):
        ctx.disagree("driver", "%s: driver failed rc=%s (%d/%d)" % (stream, rc, len(out), len(lines)), "\n".join(out[-3:])[:400], None)
        return
    for s, recs, l in zip(scripts, recs_all, out):
        model = json.loads(l)["res"]
        odd_seen = False
        for i, (pub, rec, odd) in enumerate(recs):
            if odd:
                ctx.count("unmodelled:" + odd)
                odd_seen = True
            if odd_seen:
                continue         # the model's parent state is no longer comparable after an unmodelled call
            ctx.corr_evals += 1
            if model[i] != rec:
                ctx.disagree(stream, {"parent": s["parent"], "call": pub, "index": i}, rec, model[i])
                break


# ------------------------------------------------------------------ sessions: the public switch functions
def gen_session(rng, names):
    cmds = []
    for _ in range(rng.randint(3, 10)):
        r = rng.random()
        if r < 0.25:
            cmds.append(["enable"])
        elif r < 0.5:
            cmds.append(["disable"])
        else:
            cname = rng.choice(names)
            kind, kw = rng.choice(keyword_sets(rng, cname))
            cmds.append(["make", with_kw({"cls": cname, "form": rng.choice(["str", "class"]), "kind": kind,
                                          "flag": rng.random() < 0.75}, kw)])
    return {"init": rng.random() < 0.6, "cmds": cmds}


def reenable_session(rng, cname):
    """disable -> invalid accepted -> enable -> invalid refused -> valid accepted (the sentence of the property)"""
    sets = dict(keyword_sets(rng, cname))
    bad = sets.get("facet") or sets.get("missing")
    if bad is None:
        return None

    def mk(kind, kw, flag=True):
        return ["make", with_kw({"cls": cname, "form": rng.choice(["str", "class"]), "kind": kind, "flag": flag}, kw)]
    k = "facet" if "facet" in sets else "missing"
    return {"init": True, "cmds": [mk(k, bad), ["disable"], mk(k, bad), mk(k, bad, False), ["enable"], mk(k, bad),
                                   mk("valid", sets["valid"]), mk(k, bad, False)]}


def run_sessions(ctx, sessions, stream="session"):
    import neuroml
    lines, recs = [], []
    for s in sessions:
        saved = c10.get_switch()
        ids = c10.Ids()
        res, mcmds, odd_any = [], [], False
        oid = 100
        try:
            c10.set_switch(s["init"])
            expect = s["init"]
            for c in s["cmds"]:
                if c[0] == "enable":
                    switch_to(True)
                    expect = True
                    mcmds.append(["enable"])
                elif c[0] == "disable":
                    switch_to(False)
                    expect = False
                    mcmds.append(["disable"])
                else:
                    d = c[1]
                    oid += 1
                    cf, cv, odd, _o = measure(d["cls"], d["_kw"])
                    odd_any = odd_any or bool(odd)
                    exc, ret = None, None
                    try:
                        ret = call_factory("cls", d["cls"], d["form"], d["flag"], d["_kw"])
                    except Exception as e:  # noqa
                        exc = e
                    tag = "ok" if exc is None else classify(exc)
                    res.append(tag)
                    mcmds.append(["make", {"cls": d["cls"], "form": d["form"], "kw": kw_json(d["_kw"], ids),
                                           "flag": d["flag"], "cf": bool(cf), "cv": cv, "oid": oid}])
                    pub = {k: v for k, v in d.items() if not k.startswith("_")}
                    gate = expect and d["flag"]
                    ctx.count("session:make:" + ("checked" if gate else "unchecked"))
                    ctx.seen(["session", d["cls"], d["kind"], expect, d["flag"], tag], nontrivial=True)
                    if exc is None and gate and c10.validity(ret) is not True:
                        ctx.fail("C09:invalid-returned:session", "the last toggle was enable and validate=True, yet an invalid %s came back"
                                 % d["cls"], {"session": _pub_session(s), "at": pub})
                    if exc is not None and not gate and cf is False and all(k in [m[0] for m in c10.ref_members(c10.classes()[d["cls"]])] for k in d["_kw"]):
                        ctx.fail("C09:raised-although-off:session", "the last toggle was disable (or validate=False), yet the call raised %s" % tag,
                                 {"session": _pub_session(s), "at": pub})
                if neuroml.get_build_time_validation() != expect:
                    ctx.fail("C09:switch-state", "get_build_time_validation() is %s after %s" % (neuroml.get_build_time_validation(), c[0]),
                             {"session": _pub_session(s)})
            final = c10.get_switch()
        finally:
            c10.set_switch(saved)
        lines.append(json.dumps({"op": "session", "init": s["init"], "cmds": mcmds}))
        recs.append((s, {"switch": final, "res": res}, odd_any))
    rc, out = fw.run_driver("C09", lines, timeout=3000)
    if rc != 0 or len(out) != len(lines):
        ctx.disagree("driver", "%s: driver failed rc=%s" % (stream, rc), "\n".join(out[-3:])[:400], None)
        return
    for (s, rec, odd), l in zip(recs, out):
        if odd:
            ctx.count("unmodelled:session")
            continue
        ctx.corr_evals += 1
        model = json.loads(l)
        if model != rec:
            ctx.disagree(stream, _pub_session(s), rec, model)


def _pub_session(s):
    return {"init": s["init"], "cmds": [c if c[0] != "make" else ["make", {k: v for k, v in c[1].items() if not k.startswith("_")}]
                                         for c in s["cmds"]]}


# ------------------------------------------------------------------ corpus (fixed cases, run first)
def corpus_cases(ctx):
    rng = ctx.rng
    out = []
    fixed = [("Network", "typo"), ("IafCell", "facet"), ("IafCell", "missing"), ("Cell", "valid"), ("Cell", "typo"),
             ("Population", "cast"), ("NeuroMLDocument", "valid"), ("HHRate", "typo"), ("Annotation", "typo"),
             ("Property", "missing")]
    for cname, kind in fixed:
        sets = dict((k, v) for k, v in keyword_sets(rng, cname))
        if kind not in sets:
            continue
        for en in (True, False):
            for fl in (True, False):
                for form in ("str", "class"):
                    out.append(with_kw({"cls": cname, "form": form, "kind": kind, "en": en, "flag": fl,
                                        "ep": "utils" if form == "class" else "cls", "via": "NeuroMLDocument"}, sets[kind]))
    return out


def regenerate(ctx):
    gaps, summ = members_extract.regenerate(fw.REPO, fw.LEAN)
    ctx.extra["member_table"] = summ
    return gaps


def run(ctx):
    C = c10.classes()
    names = list(C)
    saved = c10.get_switch()
    try:
        nvalid = 0
        for n in names:
            cf, cv, odd, _o = measure(n, valid_kwargs(n))
            nvalid += 1 if cv else 0
        ctx.extra["types_with_valid_keywords"] = "%d/%d" % (nvalid, len(names))
        run_factory(ctx, corpus_cases(ctx), "corpus")
        # every type x keyword kinds x 4 settings (x both forms in thorough)
        run_factory(ctx, gen_factory_cases(ctx, names, ctx.n(4, 8)), "factory")
        ctx.extra["exhaustive"] = ctx.tier == "thorough"
        ctx.extra["exhaustive_what"] = ("all %d component types x keyword kinds x 4 switch settings%s; all %d (parent, child) pairs "
                                        "with a candidate member for add(<type>)" % (
                                            len(names), " x both forms" if ctx.tier == "thorough" else " (forms alternate)", len(pairs())))
        ps = pairs()
        reps = ctx.n(1, 3) * ctx.search_mult
        scripts = [addtype_script(ctx.rng, p, c, m, nc) for _ in range(reps) for (p, c, m, _cont, nc) in ps]
        run_addtype(ctx, scripts)
        sess = [x for x in (reenable_session(ctx.rng, n) for n in names) if x is not None]
        sess += [gen_session(ctx.rng, names) for _ in range(ctx.n(150, 1500) * ctx.search_mult)]
        run_sessions(ctx, sess)
    finally:
        c10.set_switch(saved)


def replay(ctx, payload):
    """re-run the stored call: keyword arguments are stored in the case (components as {"__c__": class})"""
    case = payload["case"]
    saved = c10.get_switch()
    try:
        if "factory" in case:
            d = dict(case["factory"])
            d["_kw"] = kw_dec(d["kw"])
            run_factory(ctx, [d], "replay")
        elif "addtype" in case:
            d = dict(case["addtype"])
            d["_kw"] = kw_dec(d["kw"])
            run_addtype(ctx, [{"parent": d["parent"], "parent_valid_kw": True, "calls": [d]}], "replay")
        elif "session" in case:
            s = case["session"]
            cmds = []
            for c in s["cmds"]:
                if c[0] == "make":
                    d = dict(c[1])
                    d["_kw"] = kw_dec(d["kw"])
                    cmds.append(["make", d])
                else:
                    cmds.append(c)
            run_sessions(ctx, [{"init": s["init"], "cmds": cmds}], "replay")
        else:
            return {"fails": False, "note": "nothing to replay (obligation-level record)"}
    finally:
        c10.set_switch(saved)
    return {"fails": bool(ctx.failures or ctx.corr_disagreements),
            "failures": [{"key": f["key"], "what": f["what"]} for f in ctx.failures],
            "disagreements": ctx.corr_disagreements[:3]}
