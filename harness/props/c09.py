"""C09 — with build-time validation on, factories never hand back an invalid component.

Tie: member table extracted from nml.py on every run (translators/members_extract.py -> Gen/Members.lean, shared
with C10); decision-level hand model of component_factory/_check_arg_list/add-with-a-type/the global switch
(lean/NmlVerif/Model/Factory.lean) compared with the real entry points on all 199 component types x
{valid, facet-violating, misspelt, cast-failing keywords} x 4 switch settings x string/class form; the same calls
are judged by a harness-side oracle that restates the property on the real objects (explicit validate() on what
was returned), independent of the Lean model.
"""
import ast
import json
import os
import re
import sys

import fw

sys.path.insert(0, os.path.join(fw.VERIF, "translators"))
import members_extract  # noqa: E402
import factory_extract  # noqa: E402
import py2lean_add  # noqa: E402  (C10's translator: the shape of __add the placement block of add() has in the tree)
from props import c10  # noqa: E402  (shared helpers: classes(), quiet, serialisation, snapshots)

LEAN_PROPS = ["NmlVerif.Props.C09", "NmlVerif.Props.C09Gen", "NmlVerif.Props.C09Tables"]
LEAN_EXTRA = ["NmlVerif.Gen.AddImpl"]     # imported by the driver only (shape of __add): must be rebuilt when it changes
LEVEL = "proof"
RULE = ("streams: (factory) EVERY one of the 199 component types x keyword sets {valid (from MemberSpec types and the "
        "validate_*_patterns_/enumerations in nml.py), valid+optional, one facet violation, one BOUNDARY spelling of a "
        "pattern-restricted value (trailing/leading space, line feed, tab, empty string), one required member missing, "
        "one misspelt key (3 spellings + trailing-underscore forms), one value the constructor cannot cast} x {ENABLED "
        "on/off} x {validate True/False} x {string, class} form, through Class.component_factory and "
        "neuroml.utils.component_factory; what the constructor stored is compared attribute by attribute with the "
        "model's constructor (binding table); (addtype) every (parent type, child type) pair with a candidate member "
        "plus ambiguous / wrong-hint / no-member calls: parent.add(<type>, **kw); (session) random enable/disable/"
        "factory/add/helper histories incl. raising calls through the public switch functions; (helpers) every call "
        "site of component_factory/add inside the helper methods (regenerated table) x {valid, invalid, misspelt} x "
        "switch. Oracle: explicit validate() AND, for facet/boundary values, libxml2 on the bundled XSD. A case is "
        "non-trivial when the keywords are not all-valid or validation is off; distinct = distinct (type, keyword "
        "kind, switch, flag, form, entry point, outcome)")
TRUST = [
    "translators/members_extract.py (shared with C10; its table is compared with the real _get_members() of every class by C10's members stream and again here through _check_arg_list outcomes)",
    "translators/factory_extract.py: statement-level translation of component_factory/_check_arg_list/add/utils wrapper/switch functions, constructor table, ENABLED writers/readers, helper call sites; validated by the correspondence streams (every generated definition is the one the driver runs), not verified",
    "validate() (vs schema: C02/C03), Python's int()/float() and Cell.setup_nml_cell's effect are parameters of the model, measured on the real library / interpreter per case; the oracle additionally asks libxml2 (bundled XSD) about facet/boundary values",
    "the placement block of add() is property C10's model in the shape its translator reads off the tree (Add.addCoreX with Gen.AddImpl.dupTest / warnFmt / bookKeeping; Props/C10Gen.lean proves the translated add/__add equal to it); factory_extract only checks that the block does not touch the gate, the keywords or return early",
]
ASSUMPTIONS = [
    "keyword VALUES are of the Python kind the member expects (str/number/component/list of components); a value of another Python type (e.g. a list for an integer attribute) makes the constructor raise TypeError, which is neither outcome named by the property: the statement quantifies over 'valid, facet-violating, misspelt' keyword sets, wrong-typed values are not among them (decided in notes/C09.md, second pass)",
    "the type argument names one of the 199 generated component classes (other module attributes, subclass instances, non-type objects: AttributeError/TypeError, outside the quantifier)",
    "add() with a component INSTANCE ignores **kwargs entirely (they are only used with a type argument): outside the quantifier, noted in notes/C09.md",
    "validate() is the non-recursive generatedssupersuper.validate(): 'a component that validate() accepts' is judged by exactly that call, plus libxml2 for single facet/boundary values",
    "Cell builder helpers are clients of the factory/add(): the statement's subjects are component_factory and add(); of the helpers the check demands what follows from the statement (switch untouched, misspelt keywords refused, each call site validates iff ENABLED and its flag) — sites with a literal validate=False return unvalidated components by design",
]

NUMERIC = {"xs:string": "s1", "xs:float": 0.5, "xs:double": 0.5, "ZeroToOne": 0.5, "xs:nonNegativeInteger": 1,
           "NonNegativeInteger": 1, "PositiveInteger": 1, "DoubleGreaterThanZero": 1.5, "xs:anyURI": "u1",
           "xs:boolean": True, "xs:integer": 1, "xs:int": 1, "xs:positiveInteger": 1}
INT_TYPES = ("xs:nonNegativeInteger", "NonNegativeInteger", "PositiveInteger", "xs:integer", "xs:int", "xs:positiveInteger")
FLOAT_TYPES = ("xs:float", "xs:double", "ZeroToOne", "DoubleGreaterThanZero")
BOUNDED = {"ZeroToOne": 7.5, "NonNegativeInteger": -3, "PositiveInteger": 0, "DoubleGreaterThanZero": -1.5}

_ENUMS = None


def enumerations():
    """simple type name -> first enumeration value, read from the `validate_<Type>` methods of the CURRENT nml.py"""
    global _ENUMS
    if _ENUMS is None:
        with open(os.path.join(fw.REPO, "neuroml", "nml", "nml.py"), encoding="utf-8") as fh:
            tree = ast.parse(fh.read())
        out = {}
        for node in ast.walk(tree):
            if isinstance(node, ast.FunctionDef) and node.name.startswith("validate_") and node.name not in out:
                for a in ast.walk(node):
                    if (isinstance(a, ast.Assign) and isinstance(a.targets[0], ast.Name)
                            and a.targets[0].id == "enumerations"):
                        try:
                            out[node.name[len("validate_"):]] = ast.literal_eval(a.value)
                        except Exception:  # noqa
                            pass
        _ENUMS = out
    return _ENUMS


def pattern_candidates(patterns):
    out = []
    for grp in patterns:
        for p in grp:
            m = re.search(r"\(([A-Za-z0-9_|]+)\)\)\$$", p)
            if m:
                out += ["1" + u for u in m.group(1).split("|")]
    return out + ["a1", "1", "0.5", "pop0[0]", "s"]


def sample_simple(cls, dt):
    pats = getattr(cls, "validate_%s_patterns_" % dt, None)
    if pats is not None:
        for cand in pattern_candidates(pats):
            if all(any(re.search(p, cand) for p in grp) for grp in pats):
                return cand
        return None
    if dt in enumerations() and enumerations()[dt]:
        return enumerations()[dt][0]
    return NUMERIC.get(dt)


_VALID = {}


def valid_kwargs(cname, depth=0):
    """keyword arguments meant to make a valid component: every required member, by its declared type"""
    if depth == 0 and cname in _VALID:
        return dict(_VALID[cname])
    C = c10.classes()
    cls, kw = C[cname], {}
    for (n, dt, cont, opt) in sorted(c10.ref_members(cls)):
        if opt or n == "__ANY__":
            continue
        if dt in C:
            if depth < 3:
                with c10.quiet():
                    child = C[dt](**valid_kwargs(dt, depth + 1))
                kw[n] = [child] if cont else child
        else:
            v = sample_simple(cls, dt)
            if v is not None:
                kw[n] = [v] if cont else v
    if depth == 0:
        _VALID[cname] = dict(kw)
    return kw


def keyword_sets(rng, cname):
    """-> list of (kind, kwargs)"""
    C = c10.classes()
    cls = C[cname]
    ms = sorted(c10.ref_members(cls))
    names = [m[0] for m in ms]
    base = valid_kwargs(cname)
    out = [("valid", dict(base))]
    # a valid optional member as well
    opt_simple = [m for m in ms if m[3] and m[1] not in C and m[0] != "__ANY__" and not m[2] and sample_simple(cls, m[1]) is not None]
    if opt_simple:
        m = rng.choice(opt_simple)
        kw = dict(base)
        kw[m[0]] = sample_simple(cls, m[1])
        out.append(("valid+optional", kw))
    # one facet violation
    facet = [m for m in ms if m[1] not in C and not m[2] and m[0] != "__ANY__"
             and (getattr(cls, "validate_%s_patterns_" % m[1], None) is not None or m[1] in enumerations() or m[1] in BOUNDED)]
    if facet:
        m = rng.choice(facet)
        kw = dict(base)
        if m[1] in BOUNDED:
            kw[m[0]] = BOUNDED[m[1]]
        elif m[1] in enumerations() and isinstance(enumerations()[m[1]][0], float):
            kw[m[0]] = 0.25
        else:
            kw[m[0]] = "not a valid %s!" % m[1]
        out.append(("facet", kw))
    # one boundary spelling of a pattern-restricted / enumerated string value
    bkw = boundary_kwargs(rng, cname, base)
    if bkw is not None:
        out.append(("boundary", bkw))
    # one required member missing
    req = [k for k in base]
    if req:
        kw = dict(base)
        del kw[rng.choice(sorted(req))]
        out.append(("missing", kw))
    # misspelt keys: one of three spellings (never a member name)
    victim = rng.choice(names) if names else "id"
    camel = re.sub(r"_([a-z])", lambda mm: mm.group(1).upper(), victim)
    spellings = [victim + "s", victim.capitalize() if victim.capitalize() != victim else victim + "_", camel if camel != victim else victim + "Id",
                 victim + "_", victim.rstrip("_") if victim.endswith("_") else "_" + victim, victim.upper() if victim.upper() != victim else victim.lower(),
                 "gds_collector_", "extensiontype_", "anytypeobjs_"]
    sp = [s for s in spellings if s not in names and s]
    k = rng.choice(sp[:6] if rng.random() < 0.8 else sp)
    if rng.random() < 0.25:      # a genuine member name — of ANOTHER class
        others = sorted({m[0] for c in rng.sample(sorted(C), 6) for m in c10.ref_members(C[c])} - set(names) - {"__ANY__"})
        if others:
            k = rng.choice(others)
    tv = rng.choice(["x1", "x1", "x1", None, "", 0, False])      # … whatever its value (falsy ones included)
    kw = dict(base)
    kw[k] = tv
    out.append(("typo", kw))
    if rng.random() < 0.5:
        kw = {k: tv}
        kw.update(base)          # the misspelt key first
        out.append(("typo-first", kw))
    # a value the constructor cannot cast (int()/float() of a word): ValueError from the constructor itself
    castable = [m for m in ms if m[1] in INT_TYPES + FLOAT_TYPES and not m[2]]
    if castable:
        m = rng.choice(castable)
        kw = dict(base)
        kw[m[0]] = "abc"
        out.append(("cast", kw))
    return out


BOUNDARY_FORMS = [("lf-after", lambda v: v + "\n"), ("space-after", lambda v: v + " "), ("space-before", lambda v: " " + v),
                  ("lf-before", lambda v: "\n" + v), ("tab-after", lambda v: v + "\t"), ("empty", lambda v: ""),
                  ("lf-inside", lambda v: v[:1] + "\n" + v[1:])]


def boundary_members(cname):
    C = c10.classes()
    cls = C[cname]
    return [m for m in sorted(c10.ref_members(cls)) if m[1] not in C and not m[2] and m[0] != "__ANY__"
            and (getattr(cls, "validate_%s_patterns_" % m[1], None) is not None
                 or (m[1] in enumerations() and isinstance((enumerations()[m[1]] or [0])[0], str)))
            and isinstance(sample_simple(cls, m[1]), str)]


def boundary_kwargs(rng, cname, base, form=None, member=None):
    ms = boundary_members(cname)
    if member is not None:
        ms = [m for m in ms if m[0] == member]
    if not ms:
        return None
    m = rng.choice(ms)
    v = base.get(m[0]) if isinstance(base.get(m[0]), str) else sample_simple(c10.classes()[cname], m[1])
    f = dict(BOUNDARY_FORMS)[form] if form else rng.choice(BOUNDARY_FORMS)[1]
    kw = dict(base)
    kw[m[0]] = f(v)
    return kw


def kw_enc(kw):
    """keyword arguments as plain JSON (stored in cases / replay files): components become {"__c__": class}"""
    def enc(v):
        if c10._is_gen(v):
            return {"__c__": type(v).__name__}
        if isinstance(v, list):
            return [enc(x) for x in v]
        return v
    return [[k, enc(v)] for k, v in kw.items()]


def kw_dec(pairs_):
    C = c10.classes()

    def dec(v):
        if isinstance(v, dict) and "__c__" in v:
            with c10.quiet():
                return C[v["__c__"]](**valid_kwargs(v["__c__"], 1))
        if isinstance(v, list):
            return [dec(x) for x in v]
        return v
    return dict((k, dec(v)) for k, v in pairs_)


def with_kw(d, kw):
    d = dict(d)
    d["_kw"] = kw
    d["kw"] = kw_enc(kw)
    return d


def kw_json(kw, ids):
    return [[k, c10.ser_val(v, ids)] for k, v in kw.items()]


_DEFAULTS = {}


def ctor_defaults(cname):
    """default literals of the constructors along the MRO (values int()/float() may be applied to)"""
    if cname not in _DEFAULTS:
        import inspect
        out = []
        for k in c10.classes()[cname].__mro__:
            f = k.__dict__.get("__init__")
            if f is None or not hasattr(f, "__code__"):
                continue
            for p in inspect.signature(f).parameters.values():
                if p.default is not inspect.Parameter.empty and isinstance(p.default, (str, int, float, bool)):
                    if not any(type(x) is type(p.default) and x == p.default for x in out):
                        out.append(p.default)
        _DEFAULTS[cname] = out
    return _DEFAULTS[cname]


def cast_table(cname, kw, ids):
    """Python's int() / float() on every atom among the keyword values and the default literals: the model's
    `Env.pyInt` / `Env.pyFloat` (a parameter: the interpreter, not the library)"""
    vals = [v for v in kw.values() if isinstance(v, (str, int, float, bool))] + list(ctor_defaults(cname))
    out, seen = [], set()
    for v in vals:
        key = c10.atom_token(v)
        if key in seen:
            continue
        seen.add(key)
        for kind, f in (("int", int), ("float", float)):
            try:
                r = c10.ser_val(f(v), ids)
            except (ValueError, OverflowError):
                r = None
            out.append([kind, c10.ser_val(v, ids), r])
    return out


class Measured:
    """what is measured on the real library WITHOUT the factory: cf: the constructor itself raises ValueError;
    cv: real validate() accepts what the constructor (+ Cell setup) builds; plain: that object; cellset: the
    attributes Cell.setup_nml_cell left behind"""

    def __init__(self, cname, kw, ids):
        C = c10.classes()
        self.cf, self.cv, self.odd, self.plain, self.cellset = False, False, None, None, []
        self.casts = cast_table(cname, kw, ids)
        try:
            with c10.quiet():
                o = C[cname](**kw)
                if cname == "Cell":
                    before = dict(vars(o))
                    o.setup_nml_cell()
                    self.cellset = [[k, c10.ser_val(v, ids)] for k, v in vars(o).items()
                                    if k not in c10.EXCL and (k not in before or before[k] is not v)]
        except ValueError:
            self.cf = True
            return
        except Exception as e:  # noqa
            self.odd = "ctor:%s" % type(e).__name__
            return
        v = c10.validity(o)
        self.cv, self.plain = bool(v), o
        if v is None:
            self.odd = "validate-crashed"

    def call_fields(self, oid):
        return {"cv": self.cv, "oid": oid, "casts": self.casts, "cellset": self.cellset}


def measure(cname, kw):
    m = Measured(cname, kw, c10.Ids())
    return (True if m.cf else (None if m.odd and m.plain is None else False)), m.cv, m.odd, m.plain


_MISSING = ["missing-attribute"]


def real_fields(o, names, ids):
    """the attributes `names` of the really constructed object, in the canonical form of the driver"""
    d = vars(o)
    return [[n, c10.shallow(d[n], ids) if n in d else _MISSING] for n in names]


def stored_as_given(v, got):
    if got is v:
        return True
    if v is None:
        return got is None or got == []
    if isinstance(v, bool) or isinstance(got, bool):
        return type(got) is type(v) and got == v
    if isinstance(got, (int, float)):
        try:
            return float(v) == float(got) or (got != got and float(v) != float(v))
        except (TypeError, ValueError):
            return False
    return type(got) is type(v) and got == v


_XSD_BASE = {}


def xsd_says(o, cname):
    """libxml2's verdict on the component written on its own (None: could not be written / no verdict)"""
    import bindgen
    try:
        with c10.quiet():
            ok, _msg, _text = bindgen.xsd_verdict(o, cname)
        return bool(ok)
    except Exception:  # noqa
        return None


def xsd_base_ok(cname):
    """the all-valid keyword set of the class gives a schema-valid element — as the factory would build it (Cell: after
    setup_nml_cell) — so that ONE changed value decides"""
    if cname not in _XSD_BASE:
        try:
            M = Measured(cname, valid_kwargs(cname), c10.Ids())
            _XSD_BASE[cname] = M.plain is not None and xsd_says(M.plain, cname) is True
        except Exception:  # noqa
            _XSD_BASE[cname] = False
    return _XSD_BASE[cname]


def changed_values(cname, kw):
    """(member, data type, value) of the simple-typed keywords that differ from the all-valid keyword set"""
    base = valid_kwargs(cname)
    dts = dict((m[0], m[1]) for m in c10.ref_members(c10.classes()[cname]))
    return [(k, dts.get(k, "?"), v) for k, v in kw.items()
            if not c10._is_gen(v) and not isinstance(v, list) and (k not in base or type(base[k]) is not type(v) or base[k] != v)]


def classify(e):
    s = str(e)
    if c10.classify_exc(e) == "strFails":       # raised by a __str__ helper while a duplicate warning was formatted
        return "err:add:strFails"
    if isinstance(e, ValueError):
        m = re.match(r"'(.*)' is not a permitted argument", s)
        if m:
            return "err:badArg:" + m.group(1)
        if s.startswith("Validation failed"):
            return "err:invalid"
        return "err:ctor"
    if isinstance(e, AttributeError):
        return "err:attr"
    t = c10.classify_exc(e)      # the exceptions of add()'s placement part (property C10)
    if not t.startswith("other:"):
        return "err:add:" + t
    return "err:other:%s:%s" % (type(e).__name__, s[:60])


def switch_to(b):
    import neuroml
    with c10.quiet():
        if b:
            neuroml.enable_build_time_validation()
        else:
            neuroml.disable_build_time_validation()


def type_arg(cname, form):
    return cname if form == "str" else c10.classes()[cname]


def call_factory(ep, cname, form, flag, kw, rng_cls="NeuroMLDocument"):
    import neuroml
    import neuroml.utils as U
    arg = type_arg(cname, form)
    with c10.quiet():
        if ep == "utils":
            return U.component_factory(arg, flag, **kw)
        return c10.classes()[rng_cls].component_factory(arg, validate=flag, **kw)


# ------------------------------------------------------------------ factory stream
def factory_case(ctx, case):
    """case = {cls, form, kind, kw (python dict, rebuilt by the caller), en, flag, ep, via}"""
    import neuroml
    cname, kw = case["cls"], case["_kw"]
    C = c10.classes()
    names = [m[0] for m in c10.ref_members(C[cname])]
    ids = c10.Ids()
    M = Measured(cname, kw, ids)
    cf, cv, odd, plain = M.cf, M.cv, M.odd, M.plain
    line = {"op": "factory", "en": case["en"], "ep": case["ep"], "cls": cname, "form": case["form"], "kw": kw_json(kw, ids),
            "flag": case["flag"]}
    line.update(M.call_fields(1000))
    saved = c10.get_switch()
    ret, exc = None, None
    try:
        switch_to(case["en"])
        seen_en = neuroml.get_build_time_validation()
        try:
            ret = call_factory(case["ep"], cname, case["form"], case["flag"], kw, case.get("via", "NeuroMLDocument"))
        except Exception as e:  # noqa
            exc = e
        after = c10.get_switch()
    finally:
        c10.set_switch(saved)
    tag = "ok" if exc is None else classify(exc)
    rec = {"r": tag}
    pub = {k: v for k, v in case.items() if not k.startswith("_")}
    # ---- oracle (property statement on the real objects)
    gate = case["en"] and case["flag"]
    bad_keys = [k for k in kw if k not in names]

    def fail(key, what):
        ctx.fail(key, what, {"factory": pub, "observed": tag})
    if seen_en != case["en"] or after != case["en"]:
        fail("C09:switch-changed", "the switch reads %s/%s around a call made under %s" % (seen_en, after, case["en"]))
    if exc is not None and not isinstance(exc, ValueError):
        fail("C09:non-valueerror", "the factory raised %s" % tag)
    if bad_keys and not isinstance(exc, ValueError):
        fail("C09:typo-accepted:" + case["kind"], "keyword(s) %s are not members of %s but the call did not raise ValueError (%s)"
             % (bad_keys, cname, tag))
    if exc is None:
        if type(ret).__name__ != cname:
            fail("C09:wrong-type", "asked for %s, got %s" % (cname, type(ret).__name__))
        lost = [k for k in kw if k in names and not c10.value_equal(getattr(ret, k, None), getattr(plain, k, None))]
        if lost:
            fail("C09:keyword-lost", "member keyword(s) %s did not reach the component as the constructor would set them" % lost)
        v = c10.validity(ret)
        if gate and v is not True:
            fail("C09:invalid-returned:" + case["kind"], "validation on, yet the returned %s fails an explicit validate()" % cname)
        if gate and case["kind"] in ("facet", "boundary") and xsd_base_ok(cname) and xsd_says(ret, cname) is False:
            # the library's own validate() is not the only judge: one changed value, and libxml2 rejects it
            ch = changed_values(cname, kw)
            fail("C09:invalid-returned:xsd:%s:%s" % (case["kind"], "+".join(sorted({c[1] for c in ch})) or "?"),
                 "validation on, the factory returned a %s that the XML Schema rejects (the all-valid keyword set is schema-valid; "
                 "changed value: %r)" % (cname, ch))
        if not gate and v != cv:
            fail("C09:off-changed-component", "validation off: the returned component validates=%s, the plainly constructed one %s" % (v, cv))
    else:
        if not gate and not bad_keys and cf is False:
            fail("C09:raised-although-off:" + case["kind"], "validation off (ENABLED=%s, validate=%s), all keywords are members, "
                 "constructor fine, yet the call raised %s" % (case["en"], case["flag"], tag))
        if gate and not bad_keys and cf is False and cv:
            fail("C09:valid-refused", "a valid %s was refused: %s" % (cname, tag))
    if plain is not None:
        # a member keyword arrives under the attribute of its own name (c09_tree_member_keyword_stored), judged without
        # the model: identity for strings / components / lists, numeric equality for what int()/float() cast
        wrong = [k for k, v_ in kw.items() if k in names and k != "__ANY__" and not stored_as_given(v_, vars(plain).get(k, _MISSING))]
        if wrong:
            fail("C09:keyword-misplaced", "member keyword(s) %s of %s did not arrive under the attribute of the same name (got %r)"
                 % (wrong, cname, [vars(plain).get(k, "<no attribute>") for k in wrong][:3]))
    if gate and case["kind"] in ("facet", "boundary") and plain is not None and xsd_base_ok(cname):
        x = xsd_says(plain, cname)
        ctx.count("xsd:%s:validate=%s,schema=%s" % (case["kind"], "accepts" if cv else "rejects",
                                                   "accepts" if x else ("rejects" if x is False else "n/a")))
    return line, rec, odd, (plain, ids)


def gen_factory_cases(ctx, names, per_class_settings):
    rng = ctx.rng
    cases = []
    vias = sorted(c10.classes())
    for cname in names:
        for kind, kw in keyword_sets(rng, cname):
            settings = [(en, fl) for en in (True, False) for fl in (True, False)]
            forms = ["str", "class"]
            combos = [(s, f) for s in settings for f in forms]
            if per_class_settings < len(combos):
                # always the 4 switch settings; the form alternates
                combos = [(s, forms[(i + rng.randint(0, 1)) % 2]) for i, s in enumerate(settings)]
            for (en, fl), form in combos:
                ep = "utils" if rng.random() < 0.3 else "cls"
                cases.append(with_kw({"cls": cname, "form": form, "kind": kind, "en": en, "flag": fl, "ep": ep,
                                      "via": rng.choice(vias)}, kw))
    return cases


def run_factory(ctx, cases, stream="factory"):
    lines, recs = [], []
    for case in cases:
        line, rec, odd, real = factory_case(ctx, case)
        lines.append(json.dumps(line))
        recs.append((case, rec, odd, real))
    rc, out = fw.run_driver("C09", lines, timeout=3000)
    if rc != 0 or len(out) != len(lines):
        ctx.disagree("driver", "%s: driver failed rc=%s (%d/%d)" % (stream, rc, len(out), len(lines)), "\n".join(out[-3:])[:400], None)
        out = [None] * len(lines)
    for (case, rec, odd, (plain, ids)), l in zip(recs, out):
        pub = {k: v for k, v in case.items() if not k.startswith("_")}
        ctx.count("%s:%s" % (stream, case["kind"]))
        ctx.count("outcome:" + ":".join(rec["r"].split(":")[:2]))
        ctx.seen([case["cls"], case["kind"], case["en"], case["flag"], case["form"], case["ep"], rec["r"]],
                 nontrivial=(case["kind"] != "valid" or not (case["en"] and case["flag"])))
        if odd:
            ctx.count("unmodelled:" + odd)
            continue
        if l is not None:
            ctx.corr_evals += 1
            model = json.loads(l)
            mf = model.pop("fields", None)
            if model != rec:
                ctx.disagree(stream, pub, rec, model)
                continue
            # what the constructor stored, attribute by attribute (model: constructor table of the bindings)
            if (mf is None) != (plain is None):
                ctx.disagree(stream + ":stored", pub, "constructed" if plain is not None else "constructor raised",
                             "constructed" if mf is not None else "constructor raises")
            elif mf is not None:
                rf = real_fields(plain, [n for n, _ in mf], ids)
                ctx.count("stored-attributes-compared", len(mf))
                if rf != mf:
                    diff = [[a, b] for a, b in zip(rf, mf) if a != b][:4]
                    ctx.disagree(stream + ":stored", pub, diff, "(real, model) attribute pairs that differ")
    for case, rec, _, _r in recs[:3]:
        ctx.sample({k: v for k, v in case.items() if not k.startswith("_")} | {"result": rec["r"]})


# ------------------------------------------------------------------ add(<type>, …) stream
def pairs():
    """(parent class, child class, member name, container, n candidates) for every pair with a candidate member"""
    C = c10.classes()
    out = []
    for p, pc in C.items():
        ms = c10.ref_members(pc)
        for m in ms:
            if m[1] in C:
                out.append((p, m[1], m[0], m[2], len([x for x in ms if x[1] == m[1]])))
    return out


def addtype_script(rng, p, child, member, ncand):
    calls = []
    sets = keyword_sets(rng, child)
    rng.shuffle(sets)
    for kind, kw in sets[:4]:
        en, fl = rng.choice([(True, True), (True, True), (True, False), (False, True), (False, False)])
        hint = member if ncand > 1 else rng.choice([None, None, member])
        r = rng.random()
        if r < 0.06:
            hint = None                 # several candidate members and no hint: "Multiple members can accept …"
        elif r < 0.12:
            hint = "no_such_member"     # a hint naming none of the candidates (ignored when there is one candidate)
        calls.append(with_kw({"cls": child, "form": rng.choice(["str", "class"]), "kind": kind, "en": en, "flag": fl,
                              "hint": hint, "force": rng.random() < 0.2}, kw))
    if rng.random() < 0.5:       # the same valid keywords again: an equal component is made and refused as duplicate
        c0 = dict(calls[0])
        calls.append(c0)
    if rng.random() < 0.08:      # a type the parent has no member for: the component is made, then add() raises
        other = rng.choice(sorted(c10.classes()))
        if not any(m[1] == other for m in c10.ref_members(c10.classes()[p])):
            k, kw = keyword_sets(rng, other)[0]
            calls.append(with_kw({"cls": other, "form": rng.choice(["str", "class"]), "kind": k, "en": rng.random() < 0.7,
                                  "flag": rng.random() < 0.7, "hint": None, "force": False}, kw))
    return {"parent": p, "parent_valid_kw": rng.random() < 0.7, "calls": calls}


def run_addtype(ctx, scripts, stream="addtype"):
    C = c10.classes()
    lines, recs_all = [], []
    for s in scripts:
        ids = c10.Ids()
        with c10.quiet():
            parent = C[s["parent"]](**{k: v for k, v in (valid_kwargs(s["parent"]) if s["parent_valid_kw"] else {}).items()
                                      if not isinstance(v, list)})
        line = {"op": "addtype", "parent": c10.ser_obj(parent, ids), "calls": []}
        names_p = c10.ref_members(type(parent))
        recs = []
        saved = c10.get_switch()
        next_oid = 5000
        for call in s["calls"]:
            kw = call["_kw"]
            cname = call["cls"]
            M = Measured(cname, kw, ids)
            cf, cv, odd, plain = M.cf, M.cv, M.odd, M.plain
            child_names = [m[0] for m in c10.ref_members(C[cname])]
            before = c10.snapshot(parent, ids)
            ret, exc, tags = None, None, []
            import warnings
            try:
                switch_to(call["en"])
                with c10.quiet(), warnings.catch_warnings(record=True) as ws:
                    warnings.simplefilter("always")
                    try:
                        ret = parent.add(type_arg(cname, call["form"]), hint=call["hint"], force=call["force"],
                                         validate=call["flag"], **kw)
                    except Exception as e:  # noqa
                        exc = e
                tags = c10.classify_warn(ws)
                after_sw = c10.get_switch()
            finally:
                c10.set_switch(saved)
            next_oid += 1
            if ret is not None:
                ids.m[id(ret)] = next_oid
                ids.keep.append(ret)
            else:
                # a component may have been created and stored although the call raised (validation of the parent)
                for n, _dt, cont, _o in names_p:
                    v = vars(parent).get(n)
                    for x in (v if isinstance(v, list) else [v]):
                        if c10._is_gen(x) and id(x) not in ids.m and type(x).__name__ == cname:
                            ids.m[id(x)] = next_oid
                            ids.keep.append(x)
            after = c10.snapshot(parent, ids)
            ch, gone = c10.snap_diff(before, after)
            pv = c10.validity(parent)
            try:
                with c10.quiet():
                    str(ret if ret is not None else C[cname](**kw))
                sok = True
            except Exception:  # noqa
                sok = False
            tag = "ok" if exc is None else classify(exc)
            rec = {"r": tag, "w": tags[0] if len(tags) == 1 else (None if not tags else "+".join(tags)),
                   "ret": next_oid if exc is None else None, "ch": ch}
            cl = {"cls": cname, "form": call["form"], "kw": kw_json(kw, ids), "flag": call["flag"], "en": call["en"],
                  "hint": call["hint"], "force": call["force"], "pv": bool(pv), "sok": sok}
            cl.update(M.call_fields(next_oid))
            line["calls"].append(cl)
            pub = {k: v for k, v in call.items() if not k.startswith("_")}
            pub["parent"] = s["parent"]
            # ---- oracle
            gate = call["en"] and call["flag"]
            bad_keys = [k for k in kw if k not in child_names]

            def fail(key, what):
                ctx.fail(key, what, {"addtype": pub, "observed": tag, "script_parent": s["parent"]})
            if after_sw != call["en"]:
                fail("C09:switch-changed", "add() changed the switch")
            if bad_keys:
                if not isinstance(exc, ValueError):
                    fail("C09:typo-accepted:add", "add(%s, …) accepted non-member keyword(s) %s (%s)" % (cname, bad_keys, tag))
                elif ch:
                    fail("C09:typo-changed-parent", "add() refused the keyword but changed the parent: %s" % [c[0] for c in ch])
            if exc is None:
                if gate:
                    if c10.validity(ret) is not True:
                        fail("C09:invalid-returned:add", "validation on, yet the component returned by add() fails validate()")
                    if pv is not True:
                        fail("C09:invalid-parent:add", "validation on, add() returned, yet the parent fails validate()")
            elif not isinstance(exc, ValueError) and not tag.startswith("err:add:"):  # noqa
                fail("C09:non-valueerror", "add(<type>) raised %s" % tag)
            elif tag.startswith("err:add:"):
                pass            # placement errors of add() are property C10's business
            elif not gate and not bad_keys and cf is False and isinstance(exc, ValueError):
                fail("C09:raised-although-off:add", "validation off, yet add(<type>) raised %s" % tag)
            recs.append((pub, rec, odd))
            ctx.count("%s:%s" % (stream, call["kind"]))
            ctx.count("outcome:" + ":".join(tag.split(":")[:2]))
            ctx.seen([s["parent"], cname, call["kind"], call["en"], call["flag"], call["form"], "add", tag],
                     nontrivial=(call["kind"] != "valid" or not gate))
        lines.append(json.dumps(line))
        recs_all.append(recs)
    rc, out = fw.run_driver("C09", lines, timeout=3000)
    if rc != 0 or len(out) != len(lines):
        ctx.disagree("driver", "%s: driver failed rc=%s (%d/%d)" % (stream, rc, len(out), len(lines)), "\n".join(out[-3:])[:400], None)
        return
    for s, recs, l in zip(scripts, recs_all, out):
        model = json.loads(l)["res"]
        odd_seen = False
        for i, (pub, rec, odd) in enumerate(recs):
            if odd:
                ctx.count("unmodelled:" + odd)
                odd_seen = True
            if odd_seen:
                continue         # the model's parent state is no longer comparable after an unmodelled call
            ctx.corr_evals += 1
            if model[i] != rec:
                ctx.disagree(stream, {"parent": s["parent"], "call": pub, "index": i}, rec, model[i])
                break


# ------------------------------------------------------------------ sessions: the public switch functions
def gen_session(rng, names):
    cmds = []
    ps = pairs()
    for _ in range(rng.randint(3, 10)):
        r = rng.random()
        if r < 0.22:
            cmds.append(["enable"])
        elif r < 0.44:
            cmds.append(["disable"])
        elif r < 0.56:
            # add(<type>) on a fresh parent, under whatever the history left
            (p, child, member, _cont, ncand) = rng.choice(ps)
            kind, kw = rng.choice(keyword_sets(rng, child))
            cmds.append(["addt", with_kw({"cls": child, "form": rng.choice(["str", "class"]), "kind": kind,
                                          "flag": rng.random() < 0.75, "parent": p, "hint": member if ncand > 1 else None,
                                          "force": False}, kw)])
        elif r < 0.66:
            cmds.append(["helper", rng.choice(sorted(HELPERS))])
        else:
            cname = "Cell" if rng.random() < 0.15 else rng.choice(names)
            kind, kw = rng.choice(keyword_sets(rng, cname))
            cmds.append(["make", with_kw({"cls": cname, "form": rng.choice(["str", "class"]), "kind": kind,
                                          "flag": rng.random() < 0.75}, kw)])
    return {"init": rng.random() < 0.6, "cmds": cmds}


def reenable_session(rng, cname):
    """disable -> invalid accepted -> enable -> invalid refused -> valid accepted (the sentence of the property)"""
    sets = dict(keyword_sets(rng, cname))
    bad = sets.get("facet") or sets.get("missing")
    if bad is None:
        return None

    def mk(kind, kw, flag=True):
        return ["make", with_kw({"cls": cname, "form": rng.choice(["str", "class"]), "kind": kind, "flag": flag}, kw)]
    k = "facet" if "facet" in sets else "missing"
    cell = ["make", with_kw({"cls": "Cell", "form": "str", "kind": "valid", "flag": True}, valid_kwargs("Cell"))]
    return {"init": True, "cmds": [mk(k, bad), ["disable"], mk(k, bad), cell, mk(k, bad, False), mk(k, bad), ["enable"],
                                   mk(k, bad), mk("valid", sets["valid"]), mk(k, bad, False)]}


def run_sessions(ctx, sessions, stream="session"):
    import neuroml
    C = c10.classes()
    lines, recs = [], []
    for s in sessions:
        saved = c10.get_switch()
        ids = c10.Ids()
        res, mcmds, odd_any = [], [], False
        oid = 100
        try:
            c10.set_switch(s["init"])
            expect = s["init"]
            for c in s["cmds"]:
                if c[0] == "enable":
                    switch_to(True)
                    expect = True
                    mcmds.append(["enable"])
                elif c[0] == "disable":
                    switch_to(False)
                    expect = False
                    mcmds.append(["disable"])
                elif c[0] == "helper":
                    # a Cell builder helper in the middle of the history: not a command of the model (helpers write no
                    # switch: c09_gen_switch_writers) — whatever it returns or raises, the switch must read as before
                    try:
                        run_helper(HELPERS[c[1]], expect, quiet_only=True)
                    except Exception:  # noqa
                        pass
                    ctx.count("session:helper")
                else:
                    d = c[1]
                    oid += 1
                    M = Measured(d["cls"], d["_kw"], ids)
                    cf, cv, odd = M.cf, M.cv, M.odd
                    odd_any = odd_any or bool(odd)
                    exc, ret = None, None
                    names_c = [m[0] for m in c10.ref_members(C[d["cls"]])]
                    mline = {"cls": d["cls"], "form": d["form"], "kw": kw_json(d["_kw"], ids), "flag": d["flag"]}
                    mline.update(M.call_fields(oid))
                    if c[0] == "make":
                        try:
                            ret = call_factory("cls", d["cls"], d["form"], d["flag"], d["_kw"])
                        except Exception as e:  # noqa
                            exc = e
                    else:
                        with c10.quiet():
                            parent = C[d["parent"]](**{k: v for k, v in valid_kwargs(d["parent"]).items() if not isinstance(v, list)})
                        mline["parent"] = c10.ser_obj(parent, ids)
                        import warnings
                        with c10.quiet(), warnings.catch_warnings():
                            warnings.simplefilter("ignore")
                            try:
                                ret = parent.add(type_arg(d["cls"], d["form"]), hint=d["hint"], force=d["force"],
                                                 validate=d["flag"], **d["_kw"])
                            except Exception as e:  # noqa
                                exc = e
                        try:
                            with c10.quiet():
                                str(ret if ret is not None else C[d["cls"]](**d["_kw"]))
                            sok = True
                        except Exception:  # noqa
                            sok = False
                        mline.update({"hint": d["hint"], "force": d["force"], "pv": bool(c10.validity(parent)), "sok": sok})
                    tag = "ok" if exc is None else classify(exc)
                    res.append(tag)
                    mcmds.append([c[0], mline])
                    pub = {k: v for k, v in d.items() if not k.startswith("_")}
                    gate = expect and d["flag"]
                    ctx.count("session:%s:%s" % (c[0], "checked" if gate else "unchecked"))
                    ctx.seen(["session", c[0], d["cls"], d["kind"], expect, d["flag"], tag], nontrivial=True)
                    if exc is None and gate and c10.validity(ret) is not True:
                        ctx.fail("C09:invalid-returned:session", "the last toggle was enable and validate=True, yet an invalid %s came back"
                                 % d["cls"], {"session": _pub_session(s), "at": pub})
                    if exc is not None and not gate and cf is False and isinstance(exc, ValueError) \
                            and not tag.startswith("err:add:") and all(k in names_c for k in d["_kw"]):
                        ctx.fail("C09:raised-although-off:session", "the last toggle was disable (or validate=False), yet the call raised %s" % tag,
                                 {"session": _pub_session(s), "at": pub})
                if neuroml.get_build_time_validation() != expect:
                    ctx.fail("C09:switch-state", "get_build_time_validation() is %s after %s (the last toggle left %s)"
                             % (neuroml.get_build_time_validation(), c[0] if c[0] != "helper" else "helper " + c[1], expect),
                             {"session": _pub_session(s)})
                    c10.set_switch(expect)       # go on from the state the history should be in
            final = c10.get_switch()
        finally:
            c10.set_switch(saved)
        lines.append(json.dumps({"op": "session", "init": s["init"], "cmds": mcmds}))
        recs.append((s, {"switch": final, "res": res}, odd_any))
    rc, out = fw.run_driver("C09", lines, timeout=3000)
    if rc != 0 or len(out) != len(lines):
        ctx.disagree("driver", "%s: driver failed rc=%s" % (stream, rc), "\n".join(out[-3:])[:400], None)
        return
    for (s, rec, odd), l in zip(recs, out):
        if odd:
            ctx.count("unmodelled:session")
            continue
        ctx.corr_evals += 1
        model = json.loads(l)
        if model != rec:
            ctx.disagree(stream, _pub_session(s), rec, model)


def _pub_session(s):
    return {"init": s["init"], "cmds": [c if c[0] not in ("make", "addt") else [c[0], {k: v for k, v in c[1].items() if not k.startswith("_")}]
                                         for c in s["cmds"]]}


# ------------------------------------------------------------------ helpers: every call site of the regenerated table
def _cell(cid="c0"):
    import neuroml
    with c10.quiet():
        c = neuroml.Cell(id=cid)
        c.setup_nml_cell()
    return c


def _cell2():
    c = _cell()
    with c10.quiet():
        saved = c10.get_switch()
        c10.set_switch(False)
        try:
            s0 = c.add_segment([0, 0, 0, 2], [10, 0, 0, 2], seg_type="soma", name="soma")
            s1 = c.add_segment([10, 0, 0, 1], [20, 0, 0, 1], seg_type="dendrite", parent=s0, name="d0")
            c.add_segment([20, 0, 0, 1], [30, 0, 0, 1], seg_type="dendrite", parent=s1, name="d1")
        finally:
            c10.set_switch(saved)
    return c


def _doc(with_id=True):
    import neuroml
    return neuroml.NeuroMLDocument(id="d0") if with_id else neuroml.NeuroMLDocument()


CD = dict(id="cd0", ion_channel="kChan", cond_density="1 S_per_m2", erev="-77 mV", ion="k")

# name -> {method, site: (callee, literal type | None) the input is aimed at, kind: valid | invalid | typo,
#          call: () -> result}.  `invalid`: the component made at (or the parent validated by) THAT site is invalid.
HELPERS = {
    "memb:valid": {"method": "add_membrane_property", "site": ("add", None), "kind": "valid",
                   "call": lambda: _cell().add_membrane_property("SpikeThresh", value="-20mV")},
    "memb:valid:class": {"method": "add_membrane_property", "site": ("add", None), "kind": "valid",
                         "call": lambda: _cell().add_membrane_property(c10.classes()["SpikeThresh"], value="-20mV")},
    "memb:invalid": {"method": "add_membrane_property", "site": ("add", None), "kind": "invalid",
                     "call": lambda: _cell().add_membrane_property("SpikeThresh", value="minus twenty")},
    "memb:invalid:lf": {"method": "add_membrane_property", "site": ("add", None), "kind": "invalid",
                        "call": lambda: _cell().add_membrane_property("SpikeThresh", value="-20mV\n")},
    "memb:typo": {"method": "add_membrane_property", "site": ("add", None), "kind": "typo",
                  "call": lambda: _cell().add_membrane_property("SpikeThresh", value="-20mV", segment_group="all")},
    "intra:valid": {"method": "add_intracellular_property", "site": ("add", None), "kind": "valid",
                    "call": lambda: _cell().add_intracellular_property("Resistivity", value="0.1 kohm_cm")},
    "intra:invalid": {"method": "add_intracellular_property", "site": ("add", None), "kind": "invalid",
                      "call": lambda: _cell().add_intracellular_property("Resistivity", value="0.1 kohm")},
    "intra:invalid:lf": {"method": "add_intracellular_property", "site": ("add", None), "kind": "invalid",
                         "call": lambda: _cell().add_intracellular_property("Resistivity", value="0.1 kohm_cm\n")},
    "intra:typo": {"method": "add_intracellular_property", "site": ("add", None), "kind": "typo",
                   "call": lambda: _cell().add_intracellular_property(c10.classes()["Resistivity"], value="0.1 kohm_cm", segmentGroups="all")},
    "seggroup:valid": {"method": "add_segment_group", "site": ("add", "SegmentGroup"), "kind": "valid",
                       "call": lambda: _cell().add_segment_group("dend_1")},
    "seggroup:invalid": {"method": "add_segment_group", "site": ("add", "SegmentGroup"), "kind": "invalid",
                         "call": lambda: _cell().add_segment_group("not a valid id")},
    "segment:valid": {"method": "add_segment", "site": ("factory", "Segment"), "kind": "valid",
                      "call": lambda: _cell().add_segment([0, 0, 0, 2], [10, 0, 0, 2], seg_type="soma")},
    "segment:invalid-point": {"method": "add_segment", "site": ("factory", "Point3DWithDiam"), "kind": "invalid",
                              "call": lambda: _cell().add_segment([0, 0, 0, 2], [None, 0, 0, 2], seg_type="soma")},
    "segment:invalid-parent": {"method": "add_segment", "site": ("factory", "SegmentParent"), "kind": "invalid",
                               "call": lambda: (lambda c: c.add_segment([10, 0, 0, 1], [20, 0, 0, 1], seg_type="dendrite",
                                                                        parent=c.morphology.segments[0], fraction_along=7.5))(_cell2())},
    "cdv:valid": {"method": "add_channel_density_v", "site": ("add", "IncludeType"), "kind": "valid",
                  "call": lambda: _cell().add_channel_density_v("ChannelDensity", _doc(), ion_chan_def_file="k.channel.nml", **CD)},
    "cdv:invalid-doc": {"method": "add_channel_density_v", "site": ("add", "IncludeType"), "kind": "invalid",
                        "call": lambda: _cell().add_channel_density_v("ChannelDensity", _doc(False), ion_chan_def_file="k.channel.nml", **CD)},
    "cdv:typo": {"method": "add_channel_density_v", "site": ("add", "IncludeType"), "kind": "typo",
                 "call": lambda: _cell().add_channel_density_v("ChannelDensity", _doc(), ion_chan_def_file="k.channel.nml",
                                                               condDensity="1 S_per_m2", **CD)},
    "cd:valid": {"method": "add_channel_density", "site": ("add", "IncludeType"), "kind": "valid",
                 "call": lambda: _cell().add_channel_density(_doc(), "cd0", "kChan", "1 S_per_m2", ion_chan_def_file="k.channel.nml")},
    "cd:invalid-doc": {"method": "add_channel_density", "site": ("add", "IncludeType"), "kind": "invalid",
                       "call": lambda: _cell().add_channel_density(_doc(False), "cd0", "kChan", "1 S_per_m2", ion_chan_def_file="k.channel.nml")},
    "setup:invalid-cell": {"method": "setup_nml_cell", "site": ("add", "Morphology"), "kind": "invalid",
                           "call": lambda: __import__("neuroml").Cell(id="not a valid id").setup_nml_cell()},
    "append:valid": {"method": "append", "site": ("add", None), "kind": "valid",
                     "call": lambda: _doc().append(__import__("neuroml").IafCell(id="iaf0"))},
    "append:invalid-doc": {"method": "append", "site": ("add", None), "kind": "invalid",
                           "call": lambda: _doc(False).append(__import__("neuroml").IafCell(id="iaf0"))},
    "sectionise:valid": {"method": "__sectionise", "site": ("add", "Member"), "kind": "valid",
                         "call": lambda: _cell2().create_unbranched_segment_group_branches(0, use_convention=True)},
}


def site_of(h, sites):
    """index of the call site (regenerated table) a helper invocation is aimed at"""
    for i, s in enumerate(sites):
        if s[1] == h["method"] and s[2] == h["site"][0] and s[3] == h["site"][1]:
            return i
    return None


def run_helper(h, en, quiet_only=False):
    """-> (tag, result, switch afterwards); the caller restores the switch"""
    import warnings
    c10.set_switch(en)
    ret, exc = None, None
    with c10.quiet(), warnings.catch_warnings():
        warnings.simplefilter("ignore")
        try:
            ret = h["call"]()
        except Exception as e:  # noqa
            exc = e
    return ("ok" if exc is None else classify(exc)), ret, exc, c10.get_switch()


_SITES = None


def model_sites():
    global _SITES
    if _SITES is None:
        rc, out = fw.run_driver("C09", [json.dumps({"op": "sites"})], timeout=600)
        _SITES = json.loads(out[0]) if rc == 0 and out else {"sites": [], "initial": None}
    return _SITES


def run_helpers(ctx, names=None, stream="helpers"):
    ms = model_sites()
    sites = ms["sites"]
    covered = set()
    for name in (names or sorted(HELPERS)):
        h = HELPERS[name]
        si = site_of(h, sites)
        if si is None:
            ctx.disagree(stream, {"helper": name}, "call site %s.%s(%s) exists in the harness" % (h["method"], h["site"][0], h["site"][1]),
                         "not in the regenerated table of call sites")
            continue
        covered.add(sites[si][1])
        flag = sites[si][4]
        for en in (True, False):
            saved = c10.get_switch()
            try:
                tag, ret, exc, after = run_helper(h, en)
            finally:
                c10.set_switch(saved)
            # the model: the site validates iff ENABLED and its flag (Site.validates; c09_site_flag)
            validates = en and {"dflt": True, "lit:True": True, "lit:False": False}.get(flag, True)
            expect = {"valid": "ok", "typo": "err:badArg", "invalid": "err:invalid" if validates else "ok"}[h["kind"]]
            case = {"helper": name, "en": en, "site": sites[si][:5]}
            ctx.count("helpers:%s:%s" % (h["kind"], "validates" if validates else "unvalidated"))
            ctx.seen(["helper", name, en, tag], nontrivial=True)
            ctx.corr_evals += 1
            if ":".join(tag.split(":")[:2]) != expect:
                ctx.disagree(stream, case, tag, expect)

            def fail(key, what):
                ctx.fail(key, what, {"helper": case, "observed": tag})
            if after != en:
                fail("C09:switch-changed:helper", "%s left the switch at %s (it was %s)" % (h["method"], after, en))
            if exc is not None and not isinstance(exc, ValueError):
                fail("C09:non-valueerror:helper", "%s raised %s" % (h["method"], tag))
            if h["kind"] == "typo" and not (isinstance(exc, ValueError) and tag.startswith("err:badArg")):
                fail("C09:typo-accepted:helper", "%s accepted a keyword that is not a member (%s)" % (h["method"], tag))
            if not en and isinstance(exc, ValueError) and tag == "err:invalid":
                fail("C09:raised-although-off:helper", "validation disabled globally, yet %s validated (%s)" % (h["method"], tag))
            if en and flag in ("dflt", "lit:True") and exc is None and c10._is_gen(ret) and c10.validity(ret) is not True \
                    and h["site"][0] in ("add", "factory") and h["kind"] != "valid":
                fail("C09:invalid-returned:helper", "validation on, the call site validates by its flag, yet %s returned an invalid %s"
                     % (h["method"], type(ret).__name__))
    missing = sorted({s[1] for s in sites} - {HELPERS[n]["method"] for n in HELPERS})
    for m in missing:
        ctx.disagree(stream, {"method": m}, "no invocation in the harness", "call site in the regenerated table")
    ctx.extra["add_placement_shape"] = ms.get("place")
    ctx.extra["helper_sites"] = {"sites": len(sites), "methods": sorted({s[1] for s in sites}), "exercised_methods": sorted(covered),
                                 "unvalidated_by_design": sorted({"%s.%s(%s)" % (s[0], s[1], s[3]) for s in sites if s[4] == "lit:False"})}


def run_misc(ctx):
    """`add()` without an object prints info() and returns None; the default state of the switch in a fresh interpreter"""
    import subprocess
    C = c10.classes()
    for cname in ("NeuroMLDocument", "Network", "Cell"):
        with c10.quiet():
            p = C[cname](id="x1")
            ids = c10.Ids()
            before = c10.snapshot(p, ids)
            sw = c10.get_switch()
            r1 = p.add()
            r2 = p.add("", id="zz")
            after = c10.snapshot(p, ids)
        ctx.seen(["misc", "add-none", cname], nontrivial=True)
        ctx.count("misc:add-without-object")
        if r1 is not None or r2 is not None or before != after or c10.get_switch() != sw:
            ctx.fail("C09:add-none", "add() without an object did something", {"misc": "add-none", "cls": cname})
    env = dict(os.environ)
    env["PYTHONPATH"] = fw.REPO + os.pathsep + env.get("PYTHONPATH", "")
    pr = subprocess.run([sys.executable, "-c", "import neuroml,sys; import neuroml.build_time_validation as b; "
                         "print(neuroml.get_build_time_validation() is True and b.ENABLED is True)"],
                        env=env, capture_output=True, text=True, timeout=120)
    ctx.seen(["misc", "default-switch"], nontrivial=True)
    ctx.corr_evals += 1
    real_default = pr.stdout.strip().endswith("True")
    if real_default != bool(model_sites().get("initial")):
        ctx.disagree("default", {"misc": "default-switch"}, real_default, model_sites().get("initial"))
    if not real_default:
        ctx.fail("C09:default-off", "build-time validation is not enabled in a fresh interpreter", {"misc": "default-switch"})


# ------------------------------------------------------------------ corpus (fixed cases, run first)
def corpus_cases(ctx):
    rng = ctx.rng
    out = []
    fixed = [("Network", "typo"), ("IafCell", "facet"), ("IafCell", "missing"), ("Cell", "valid"), ("Cell", "typo"),
             ("Population", "cast"), ("NeuroMLDocument", "valid"), ("HHRate", "typo"), ("Annotation", "typo"),
             ("Property", "missing"), ("SegmentParent", "valid"), ("ContinuousConnection", "valid"), ("Cell", "boundary")]
    for cname, kind in fixed:
        sets = dict((k, v) for k, v in keyword_sets(rng, cname))
        if kind not in sets:
            continue
        for en in (True, False):
            for fl in (True, False):
                for form in ("str", "class"):
                    out.append(with_kw({"cls": cname, "form": form, "kind": kind, "en": en, "flag": fl,
                                        "ep": "utils" if form == "class" else "cls", "via": "NeuroMLDocument"}, sets[kind]))
    # boundary spellings of pattern-restricted values (one trailing line feed is what Python's `$` lets through):
    # every form, for an inherited id, an own quantity and an enumerated value; trailing-underscore misspellings
    for cname, member in (("Population", "id"), ("SpikeThresh", "value"), ("IafCell", "id"), ("IafCell", "thresh"),
                          ("Cell", "id"), ("SegmentGroup", "id"), ("Input", "target"), ("Population", "type")):
        base = valid_kwargs(cname)
        for form_name, _f in BOUNDARY_FORMS:
            kw = boundary_kwargs(rng, cname, base, form=form_name, member=member)
            if kw is None:
                continue
            for (en, fl) in ((True, True), (False, True)):
                out.append(with_kw({"cls": cname, "form": "str" if en else "class", "kind": "boundary", "en": en, "flag": fl,
                                    "ep": "utils" if fl and form_name == "lf-after" else "cls", "via": "Network"}, kw))
    # the two open findings (validate() does not know the range of the builtin integer types): reproduced every run
    for cname, member, val in (("BaseNonNegativeIntegerId", "id", -3), ("GateHHRates", "instances", 0),
                               ("Member", "segments", -1), ("SegmentParent", "segments", -7)):
        kw = dict(valid_kwargs(cname))
        kw[member] = val
        for (en, fl) in ((True, True), (False, True)):
            out.append(with_kw({"cls": cname, "form": "str", "kind": "facet", "en": en, "flag": fl, "ep": "utils" if en else "cls",
                                "via": "NeuroMLDocument"}, kw))
    for cname, key in (("IafCell", "notes_"), ("IafCell", "neuro_lex_id_"), ("TauInfTransition", "to_"), ("IafCell", "ID"),
                       ("Population", "_id"), ("HHRate", "midPoint")):
        kw = dict(valid_kwargs(cname))
        kw[key] = "x1"
        for (en, fl) in ((True, True), (True, False), (False, False)):
            out.append(with_kw({"cls": cname, "form": "str", "kind": "typo", "en": en, "flag": fl, "ep": "cls",
                                "via": "NeuroMLDocument"}, kw))
    return out


def corpus_sessions(ctx):
    """the history of seeded/C09-2: disable, build a Cell (setup_nml_cell runs inside the factory), then an invalid
    component must still come back unvalidated; plus a raising call between the toggles"""
    rng = ctx.rng
    net = dict(keyword_sets(rng, "Network"))
    iaf = dict(keyword_sets(rng, "IafCell"))

    def mk(cname, kind, kw, flag=True, form="str"):
        return ["make", with_kw({"cls": cname, "form": form, "kind": kind, "flag": flag}, kw)]
    cellv = valid_kwargs("Cell")
    return [
        {"init": True, "cmds": [["disable"], mk("Cell", "valid", cellv), mk("Network", "missing", net["missing"]),
                                mk("IafCell", "missing", iaf["missing"], True, "class"), ["helper", "memb:valid"],
                                mk("Network", "missing", net["missing"]), ["enable"], mk("Network", "missing", net["missing"])]},
        {"init": True, "cmds": [["disable"], mk("IafCell", "typo", iaf["typo"]), mk("IafCell", "missing", iaf["missing"]),
                                ["helper", "intra:invalid"], ["helper", "segment:invalid-point"],
                                mk("IafCell", "missing", iaf["missing"]), ["enable"], mk("IafCell", "typo", iaf["typo"]),
                                mk("IafCell", "missing", iaf["missing"]), mk("IafCell", "valid", iaf["valid"])]},
        {"init": False, "cmds": [mk("Cell", "boundary", dict(cellv, id="c0\n")), ["helper", "setup:invalid-cell"],
                                 mk("Network", "missing", net["missing"]), ["helper", "sectionise:valid"],
                                 mk("Network", "missing", net["missing"], False)]},
    ]


def regenerate(ctx):
    gaps, summ = members_extract.regenerate(fw.REPO, fw.LEAN)
    ctx.extra["member_table"] = summ
    # the placement block of add() is C10's: its translator tells which form `__add` has in this tree
    # C09 reads only the three shape constants (dupTest / warnFmt / bookKeeping), which the translator takes from
    # `__add`, `__same_contents` and `__eq__`: gaps about those are C09's as well; gaps about the rest of `add` /
    # `_get_members` are C10's own business (its check reports them) and do not make C09's placement shape doubtful
    all_add = py2lean_add.regenerate(fw.REPO, os.path.join(fw.LEAN, "NmlVerif", "Gen", "AddImpl.lean"))
    ctx.extra["py2lean_add_gaps_not_about_the_shape"] = len([g for g in all_add if not re.search(r"__add|__same_contents|__eq__", g)])
    gaps_add = ["add/__add (py2lean_add): " + g for g in all_add if re.search(r"__add|__same_contents|__eq__", g)]
    gaps += gaps_add
    gaps2, summ2, sites = factory_extract.regenerate(fw.REPO, fw.LEAN)
    ctx.extra["factory_translation"] = summ2
    known = {h["method"] for h in HELPERS.values()}
    for s in sites:
        if s["method"] not in known:
            gaps2.append("helper %s.%s calls %s: no invocation for it in harness/props/c09.py (HELPERS)"
                         % (s["owner"], s["method"], s["text"]))
    return gaps + gaps2


def run(ctx):
    C = c10.classes()
    names = list(C)
    saved = c10.get_switch()
    global _SITES
    _SITES = None
    try:
        nvalid = 0
        for n in names:
            cf, cv, odd, _o = measure(n, valid_kwargs(n))
            nvalid += 1 if cv else 0
        ctx.extra["types_with_valid_keywords"] = "%d/%d" % (nvalid, len(names))
        ctx.extra["types_with_schema_valid_keywords"] = "%d/%d" % (sum(1 for n in names if xsd_base_ok(n)), len(names))
        ctx.extra["types_with_boundary_member"] = "%d/%d" % (sum(1 for n in names if boundary_members(n)), len(names))
        run_factory(ctx, corpus_cases(ctx), "corpus")
        run_sessions(ctx, corpus_sessions(ctx), "corpus-session")
        run_helpers(ctx)
        run_misc(ctx)
        # every type x keyword kinds x 4 settings (x both forms in thorough)
        run_factory(ctx, gen_factory_cases(ctx, names, ctx.n(4, 8)), "factory")
        ctx.extra["exhaustive"] = ctx.tier == "thorough"
        ctx.extra["exhaustive_what"] = ("all %d component types x keyword kinds x 4 switch settings%s; all %d (parent, child) pairs "
                                        "with a candidate member for add(<type>); all %d helper call sites x switch" % (
                                            len(names), " x both forms" if ctx.tier == "thorough" else " (forms alternate)", len(pairs()),
                                            len(model_sites()["sites"])))
        ps = pairs()
        reps = ctx.n(1, 3) * ctx.search_mult
        scripts = [addtype_script(ctx.rng, p, c, m, nc) for _ in range(reps) for (p, c, m, _cont, nc) in ps]
        run_addtype(ctx, scripts)
        sess = [x for x in (reenable_session(ctx.rng, n) for n in names) if x is not None]
        sess += [gen_session(ctx.rng, names) for _ in range(ctx.n(150, 1500) * ctx.search_mult)]
        run_sessions(ctx, sess)
    finally:
        c10.set_switch(saved)


def replay(ctx, payload):
    """re-run the stored call: keyword arguments are stored in the case (components as {"__c__": class})"""
    case = payload.get("case") or {}
    saved = c10.get_switch()

    def cmd_dec(c):
        if c[0] in ("make", "addt"):
            d = dict(c[1])
            d["_kw"] = kw_dec(d["kw"])
            return [c[0], d]
        return c
    try:
        if "factory" in case:
            d = dict(case["factory"])
            d["_kw"] = kw_dec(d["kw"])
            run_factory(ctx, [d], "replay")
        elif "addtype" in case:
            d = dict(case["addtype"])
            d["_kw"] = kw_dec(d["kw"])
            run_addtype(ctx, [{"parent": d["parent"], "parent_valid_kw": True, "calls": [d]}], "replay")
        elif "session" in case:
            s = case["session"]
            run_sessions(ctx, [{"init": s["init"], "cmds": [cmd_dec(c) for c in s["cmds"]]}], "replay")
        elif "helper" in case:
            run_helpers(ctx, [case["helper"]["helper"]], "replay")
        elif "misc" in case:
            run_misc(ctx)
        else:
            return {"fails": False, "note": "nothing to replay (obligation-level record)"}
    finally:
        c10.set_switch(saved)
    return {"fails": bool(ctx.failures or ctx.corr_disagreements),
            "failures": [{"key": f["key"], "what": f["what"]} for f in ctx.failures],
            "disagreements": ctx.corr_disagreements[:3]}
