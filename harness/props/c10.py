"""C10 — add() stores a child under exactly the right member, or raises changing nothing.

Tie: member table extracted from nml.py on every run (translators/members_extract.py -> Gen/Members.lean);
hand model of add/__add/_get_members/__eq__ (lean/NmlVerif/Model/Add.lean) compared call by call with the real
`add` on scripted histories (member-wise snapshot diff before/after each call); the same calls are judged by a
harness-side oracle that restates the property on the real objects (independent of the Lean model).
"""
import json
import logging
import os
import shutil
import sys
import tempfile
import warnings

import fw

sys.path.insert(0, os.path.join(fw.VERIF, "translators"))
import members_extract  # noqa: E402
import py2lean_add  # noqa: E402

LEAN_PROPS = ["NmlVerif.Props.C10", "NmlVerif.Props.C10Gen", "NmlVerif.Props.C10Fix", "NmlVerif.Props.C10Hist",
              "NmlVerif.Props.C10Xsd"]
LEVEL = "proof"
RULE = ("streams: (members) every generated class: real _get_members() vs the TRANSLATED method; (getmembers-history) "
        "random histories of _get_members() calls from a cache-less state: result and which classes carry which "
        "__all_members_ dict after every call; (pairs) for EVERY parent class one "
        "history whose calls cover every child class with a non-empty candidate set x hints {none, '', each "
        "candidate, near misses, a non-candidate member name, garbage} x force, the same object / an equal copy added "
        "again, plus child classes without candidate (quick: 10 sampled per parent + EVERY child class that is a base "
        "or a derived class of one of the parent's member types, thorough: all 199 -> all 199x199 pairs); "
        "(history) random histories on the 8 multi-candidate parents and container-rich parents with XML-loaded "
        "children, corrupted parents, all 4 gate settings; (eq) the generated __eq__ on every class: the fully set "
        "component vs each one-member variant; (neareq) for every child class some list member holds: the fully set "
        "child, an equal copy, then every variant that differs in exactly ONE member (own / inherited / trailing "
        "underscore / xs:any list / None / another numeric type of the same value / a child component or list one "
        "level down); (multi) several parents sharing children, pool objects that are parents themselves. "
        "A call is non-trivial when the candidate set is non-empty; "
        "distinct = distinct (parent class, child class, hint kind, force, gate, slot state, outcome, variant kind)")
TRUST = [
    "translators/members_extract.py (ast shapes of member_data_items_/MemberSpec_); its output is compared with the real _get_members() of every class on every run",
    "translators/py2lean_add.py (statement vocabulary of add/__add/_get_members, shape of __eq__/__same_contents): validated by running the TRANSLATED methods in the driver against the real ones on every call of every stream; Props/C10Gen.lean proves translated = hand model",
    "translators/members_bridge.py only proposes the renaming Gen.Members -> Gen.Names; that it preserves the strings and carries one table onto the other is decided by the kernel (Props/C10Xsd.lean)",
    "validate() and str(child) are parameters of the model (their verdicts are taken from the real calls); the relation of validate() to the schema is C02/C03",
]
ASSUMPTIONS = [
    "single inheritance among generated classes (checked by the translator; multiple bases are reported as a gap)",
    "attribute values are None/str/int/float/bool/lists/generated objects/lxml elements; numbers compare by exact value across int/float/bool as Python does (no NaN; other value kinds compare by type and repr)",
    "generated classes define no __bool__/__len__ (instances are truthy); a stored child that is changed between two calls is covered call by call (stream multi), not by the model's own state threading",
    "the ValueError raised by the validation that FOLLOWS a placement leaves the child stored: outside the property statement (c10_raise_unchanged / c10_invalid_keeps_child state it exactly)",
    "add(None) / add(<class or name>, **kwargs) are component_factory business (C09); the translated add() marks them `outside` (c10_gen_add_other_kinds)",
]

EXCL = ("parent_object_", "gds_collector_")


# ------------------------------------------------------------------ shared helpers (also used by c09.py)
class _Null:
    def write(self, *_a):
        return 0

    def flush(self):
        pass


class quiet:
    """silence the library's print()/logging during real calls (info() prints pages of text)"""

    def __enter__(self):
        self.out, self.err = sys.stdout, sys.stderr
        sys.stdout, sys.stderr = _Null(), _Null()
        self.lvl = logging.root.manager.disable
        logging.disable(logging.CRITICAL)
        return self

    def __exit__(self, *a):
        sys.stdout, sys.stderr = self.out, self.err
        logging.disable(self.lvl)


_CLASSES = None


def classes():
    """name -> class for every generated class carrying its own member_data_items_ (source order)"""
    global _CLASSES
    if _CLASSES is None:
        import inspect
        from neuroml.nml import nml
        cs = [c for _n, c in inspect.getmembers(nml, inspect.isclass)
              if "member_data_items_" in c.__dict__ and c.__module__ == nml.__name__]
        cs.sort(key=lambda c: c.__dict__["__init__"].__code__.co_firstlineno)
        _CLASSES = {c.__name__: c for c in cs}
    return _CLASSES


def real_members(cls):
    with quiet():
        ms = cls._get_members()
    return [(m.get_name(), m.get_data_type(), 0 if m.get_container() == 0 else 1, 1 if m.get_optional() else 0)
            for m in ms]


def ref_members(cls):
    """harness-side reference for 'the members the bindings declare for a class': the class's own table and those
    of all its base classes, read directly from the class objects (NOT through _get_members, which is under test)"""
    out, seen = [], set()
    for k in cls.__mro__:
        for m in k.__dict__.get("member_data_items_", []) or []:
            if id(m) in seen:
                continue
            seen.add(id(m))
            dt = m.data_type
            if isinstance(dt, list):
                dt = dt[-1] if dt else "xs:string"
            out.append((m.name, dt, 0 if m.container == 0 else 1, 1 if m.optional else 0))
    return out


class Ids:
    """first-visit numbering of object identities (keeps the objects alive so ids are not reused)"""

    def __init__(self):
        self.m, self.keep = {}, []

    def get(self, o):
        k = id(o)
        if k not in self.m:
            self.m[k] = len(self.m) + 1
            self.keep.append(o)
        return self.m[k]


def _is_gen(v):
    from neuroml.nml.generatedssupersuper import GeneratedsSuperSuper
    return isinstance(v, GeneratedsSuperSuper)


def _is_node(v):
    from lxml import etree
    return isinstance(v, etree._Element)


def atom_token(v):
    """canonical token of a plain value: `<type>:<repr>`; a finite float also carries its exact value
    (`float:0.5=1/2`) so that the Lean model can decide Python's cross-type numeric `==` (1 == 1.0 == True)"""
    if type(v) is float and v == v and v not in (float("inf"), float("-inf")):
        return "float:%r=%d/%d" % ((v,) + v.as_integer_ratio())
    return "%s:%r" % (type(v).__name__, v)


def ser_val(v, ids):
    if v is None:
        return None
    if _is_gen(v):
        return ser_obj(v, ids)
    if isinstance(v, list):
        return ["l", [ser_val(x, ids) for x in v]]
    if _is_node(v):
        return ["n", ids.get(v)]
    if isinstance(v, (str, int, float, bool)):
        return ["a", atom_token(v), bool(v)]
    return ["a", "other:" + atom_token(v)[:60], bool(v)]


def ser_obj(o, ids):
    d = getattr(o, "__dict__", {})
    return ["o", ids.get(o), type(o).__name__, [[k, ser_val(v, ids)] for k, v in d.items() if k not in EXCL]]


def shallow(v, ids):
    if v is None:
        return None
    if isinstance(v, list):
        return ["l", [shallow(x, ids) for x in v]]
    if _is_node(v):
        return ["n", ids.get(v)]
    if isinstance(v, (str, int, float, bool)):
        return ["a", atom_token(v)]
    if isinstance(v, (tuple, dict, set)):
        return ["a", "other:" + atom_token(v)[:60]]
    return ["o", ids.get(v)]


def snapshot(o, ids):
    return [[k, shallow(v, ids)] for k, v in vars(o).items() if k not in EXCL]


def snap_diff(before, after):
    b = dict((k, json.dumps(v)) for k, v in before)
    out = [[k, v] for k, v in after if k not in b or b[k] != json.dumps(v)]
    gone = [k for k, _ in before if k not in dict(after)]
    return out, gone


def attr_of(member_name):
    """instance attribute that holds a member: the `xs:any` pseudo member `__ANY__` lives in `anytypeobjs_`"""
    return "anytypeobjs_" if member_name == "__ANY__" else member_name


def atoms_equal(a, b):
    """Python's `==` on plain values, restated: numbers (int / float / bool) compare by exact numeric value whatever
    their type, everything else needs the same type"""
    num = (int, float, bool)
    if isinstance(a, num) and isinstance(b, num):
        try:
            from fractions import Fraction
            return Fraction(a) == Fraction(b)
        except (ValueError, OverflowError):      # nan / inf
            return a == b
    return type(a) is type(b) and a == b


def value_equal(a, b):
    """equality of the VALUES of two components: same class and, member by member (inherited ones included),
    equal content. Independent of the generated __eq__ (ignores lxml nodes and other bookkeeping attributes)."""
    if _is_gen(a) or _is_gen(b):
        if type(a) is not type(b):
            return False
        for n, _dt, _c, _o in ref_members(type(a)):
            n = attr_of(n)
            if not value_equal(getattr(a, n, None), getattr(b, n, None)):
                return False
        # generateDS keeps two more pieces of CONTENT outside the member table: xsi:type and simple-content text
        for n in ("extensiontype_", "valueOf_"):
            if not value_equal(getattr(a, n, None), getattr(b, n, None)):
                return False
        return True
    if isinstance(a, list) or isinstance(b, list):
        return (isinstance(a, list) and isinstance(b, list) and len(a) == len(b)
                and all(value_equal(x, y) for x, y in zip(a, b)))
    return atoms_equal(a, b)


def has_node(o, depth=0):
    if _is_gen(o):
        if getattr(o, "gds_elementtree_node_", None) is not None:
            return True
        return depth < 6 and any(has_node(v, depth + 1) for k, v in vars(o).items() if k not in EXCL)
    if isinstance(o, list):
        return any(has_node(x, depth + 1) for x in o)
    return False


def set_switch(b):
    import neuroml.build_time_validation as btv
    btv.ENABLED = b


def get_switch():
    import neuroml.build_time_validation as btv
    return btv.ENABLED


# ------------------------------------------------------------------ scripts -> real objects
XML_KEYS = [["izhikevich_cells", 0], ["izhikevich_cells", 1], ["iaf_cells", 0], ["pulse_generators", 0],
            ["exp_one_synapses", 0], ["networks", 0], ["networks", 0, "populations", 0],
            ["networks", 0, "populations", 1], ["cells", 0, "morphology", "segments", 0],
            ["cells", 0, "morphology", "segments", 1], ["cells", 0, "morphology", "segment_groups", 0],
            ["ion_channel_hhs", 0, "gate_hh_rates", 0, "forward_rate"]]
_XML_TEXT = None


def xml_text():
    """a small document written by the real writer (temporary directory, removed at once)"""
    global _XML_TEXT
    if _XML_TEXT is None:
        import neuroml as n
        import neuroml.writers as w
        doc = n.NeuroMLDocument(id="d")
        doc.izhikevich_cells.append(n.IzhikevichCell(id="iz0", v0="-70mV", thresh="30mV", a="0.02", b="0.2", c="-65", d="6"))
        doc.izhikevich_cells.append(n.IzhikevichCell(id="iz0", v0="-70mV", thresh="30mV", a="0.02", b="0.2", c="-65", d="6"))
        doc.iaf_cells.append(n.IafCell(id="iaf0", leak_reversal="-50mV", thresh="-55mV", reset="-70mV", C="0.2nF",
                                       leak_conductance="0.01uS"))
        doc.pulse_generators.append(n.PulseGenerator(id="pg0", delay="0ms", duration="1ms", amplitude="1nA"))
        doc.exp_one_synapses.append(n.ExpOneSynapse(id="syn0", gbase="1nS", erev="0mV", tau_decay="1ms"))
        net = n.Network(id="net0")
        net.populations.append(n.Population(id="p0", component="iz0", size=2))
        net.populations.append(n.Population(id="p0", component="iz0", size=2))
        doc.networks.append(net)
        cell = n.Cell(id="c0")
        cell.morphology = n.Morphology(id="m0")
        for i in range(2):
            cell.morphology.segments.append(n.Segment(id=i, name="s", proximal=n.Point3DWithDiam(x=0, y=0, z=0, diameter=1),
                                                      distal=n.Point3DWithDiam(x=1, y=0, z=0, diameter=1)))
        cell.morphology.segment_groups.append(n.SegmentGroup(id="all"))
        doc.cells.append(cell)
        ch = n.IonChannelHH(id="ch0", conductance="10pS")
        g = n.GateHHRates(id="m", instances=3)
        g.forward_rate = n.HHRate(type="HHExpLinearRate", rate="1per_ms", midpoint="-40mV", scale="10mV")
        g.reverse_rate = n.HHRate(type="HHExpLinearRate", rate="1per_ms", midpoint="-40mV", scale="10mV")
        ch.gate_hh_rates.append(g)
        doc.ion_channel_hhs.append(ch)
        d = tempfile.mkdtemp(prefix="verif_c10_")
        try:
            p = os.path.join(d, "d.nml")
            with quiet():
                w.NeuroMLWriter.write(doc, p)
            with open(p) as fh:
                _XML_TEXT = fh.read()
        finally:
            shutil.rmtree(d, ignore_errors=True)
    return _XML_TEXT


def _walk(doc, key):
    o = doc
    for k in key:
        o = o[k] if isinstance(k, int) else getattr(o, k)
    return o


def build_value(v, loaded=None):
    """a JSON value of a script -> Python value: plain atoms as they are, {"$o": entry} a component built by
    `build_entry`, {"$l": [values]} a list"""
    if isinstance(v, dict) and "$o" in v:
        return build_entry(v["$o"], loaded)
    if isinstance(v, dict) and "$l" in v:
        return [build_value(x, loaded) for x in v["$l"]]
    return v


def build_entry(e, loaded=None):
    """one pool entry -> object.  {"cls", "kw": constructor keywords (the constructor's casts apply),
    "attrs": attributes assigned afterwards (stored as given)} | {"xml": path, "copy": k} | {"junk": kind}"""
    C = classes()
    if "xml" in e:
        return _walk(loaded(e.get("copy", 0)), e["xml"])
    if "junk" in e:
        return {"int": 5, "float": 2.5, "obj": object()}[e["junk"]]
    kw = dict((k, build_value(v, loaded)) for k, v in sorted(e.get("kw", {}).items()))
    with quiet():
        o = C[e["cls"]](**kw)
    for k, v in sorted(e.get("attrs", {}).items()):
        setattr(o, k, build_value(v, loaded))
    return o


class Mat:
    """materialise one script: parent (+ further parents), pool"""

    def __init__(self, script):
        import neuroml.loaders as L
        C = classes()
        self.docs = {}

        def loaded(copy):
            if copy not in self.docs:
                with quiet():
                    self.docs[copy] = L.read_neuroml2_string(xml_text(), include_includes=False)
            return self.docs[copy]
        self.pool = [build_entry(e, loaded) for e in script["pool"]]
        self.parents = []
        for pd in [script["parent"]] + list(script.get("parents", [])):
            if "pool" in pd:                       # a pool object that is also used as a parent
                self.parents.append(self.pool[pd["pool"]])
                continue
            with quiet():
                par = C[pd["cls"]]()
            for k, v in sorted(pd.get("attrs", {}).items()):
                setattr(par, k, build_value(v, loaded))
            for c in pd.get("corrupt", []):
                if c[0] == "del":
                    if c[1] in vars(par):
                        delattr(par, c[1])
                else:
                    setattr(par, c[1], c[2])
            self.parents.append(par)
        self.parent = self.parents[0]


def classify_exc(e):
    import traceback
    s = str(e)
    if any(fr.name == "__str__" for fr in traceback.extract_tb(e.__traceback__)):
        return "strFails"
    if isinstance(e, ValueError) and "Validation failed" in s:
        return "invalid"
    if isinstance(e, KeyError):
        return "keyError"
    if isinstance(e, (AttributeError, TypeError)):
        return "notAList"
    if type(e) is Exception:
        if "could not be found" in s:
            return "noMember"
        if "Multiple members can accept" in s:
            return "ambiguous"
        if "does not match any" in s:
            return "badHint"
    return "other:%s:%s" % (type(e).__name__, s[:60])


def classify_exc_plain(e):
    return "%s: %s" % (type(e).__name__, str(e)[:80])


def classify_warn(ws):
    tags = []
    for w in ws:
        s = str(w.message)
        if "has already been assigned" in s:
            tags.append("occupied")
        elif "already exists in" in s:
            tags.append("duplicate")
    return tags


def validity(o):
    try:
        with quiet():
            o.validate()
        return True
    except ValueError:
        return False
    except Exception:
        return None


# ------------------------------------------------------------------ run one script on the real library
def run_real(script):
    """-> (model lines, per-call real records).  Ordinary scripts: ONE model line (the model carries its own parent
    state from call to call).  `percall` scripts (several parents, pool objects that are parents themselves, so that
    a stored child may change between two calls): one model line per call, parent and child serialised right
    before the call."""
    mat = Mat(script)
    ids = Ids()
    pool = mat.pool
    percall = bool(script.get("percall")) or len(mat.parents) > 1
    lines = []
    if not percall:
        line = {"op": "seq", "parent": ser_obj(mat.parent, ids), "pool": [ser_obj(c, ids) for c in pool], "calls": []}
        if script.get("algo"):
            line["algo"] = script["algo"]
        lines.append(line)
    recs = []
    saved = get_switch()
    for ci, call in enumerate(script["calls"]):
        parent = mat.parents[call.get("p", 0)]
        child = pool[call["c"]]
        try:
            with quiet():
                str(child)
            sok = True
        except Exception:  # noqa
            sok = False
        if percall:
            line = {"op": "seq", "parent": ser_obj(parent, ids),
                    "pool": [ser_obj(child, ids)], "calls": []}
            lines.append(line)
        before = snapshot(parent, ids)
        others_before = [(k, json.dumps(snapshot(o, ids))) for k, o in enumerate(mat.parents) if o is not parent]
        child_before = json.dumps(snapshot(child, ids)) if (_is_gen(child) and child is not parent) else None
        members = [(n, d, c) for n, d, c, _o in ref_members(type(parent))]
        slot_before = dict((n, vars(parent)[n]) for n, _d, _c in members if n in vars(parent))
        list_before = dict((n, list(v)) for n, v in slot_before.items() if isinstance(v, list))
        # judged NOW (in a multi-parent history a stored child may be changed by a later call)
        cn = type(child).__name__
        taken_val = dict((n, any(value_equal(child, x) for x in list_before[n]))
                         for n, d, c in members if d == cn and c and n in list_before)
        xml_inv = dict((n, has_node(child) or any(has_node(x) for x in list_before[n])) for n in taken_val)
        ret, exc, tags = None, None, []
        try:
            set_switch(call["en"])
            with quiet(), warnings.catch_warnings(record=True) as ws:
                warnings.simplefilter("always")
                try:
                    ret = parent.add(child, hint=call["hint"], force=call["force"], validate=call["val"])
                except Exception as e:  # noqa
                    exc = e
            tags = classify_warn(ws)
        finally:
            switch_after = get_switch()
            set_switch(saved)
        after = snapshot(parent, ids)
        ch, gone = snap_diff(before, after)
        others_changed = [k for k, b in others_before if json.dumps(snapshot(mat.parents[k], ids)) != b]
        child_changed = child_before is not None and json.dumps(snapshot(child, ids)) != child_before
        pv = validity(parent)
        rec = {"r": "ok" if exc is None else "err:" + classify_exc(exc),
               "w": tags[0] if len(tags) == 1 else (None if not tags else "+".join(tags)),
               "ret": (ids.get(ret) if ret is not None else None) if exc is None else None,
               "ch": ch}
        recs.append({"rec": rec, "gone": gone, "pv": pv, "ret_is_child": ret is child, "exc": exc,
                     "members": members, "slot_before": slot_before, "list_before": list_before,
                     "switch_ok": switch_after == call["en"], "sok": sok, "child": child, "parent": parent,
                     "taken_val": taken_val, "xml_inv": xml_inv, "others_changed": others_changed, "child_changed": child_changed,
                     "line": len(lines) - 1, "pos": 0 if percall else ci,
                     "after": dict((n, (list(vars(parent).get(n)) if isinstance(vars(parent).get(n), list)
                                        else vars(parent).get(n))) for n, _d, _c in members)})
        line["calls"].append({"c": 0 if percall else call["c"], "hint": call["hint"], "force": call["force"],
                              "en": call["en"], "val": call["val"], "pv": bool(pv), "sok": sok})
    return lines, recs


# ------------------------------------------------------------------ oracle: the property on the real objects
def oracle(ctx, script, i, call, R):
    """judge call i by the property statement; returns descriptive bucket"""
    child, members, rec = R["child"], R["members"], R["rec"]
    cname = type(child).__name__
    cands = [m for m in members if m[1] == cname]
    hint, force = call["hint"], call["force"]
    gate = call["en"] and call["val"]
    case = {"script": script, "call": i}
    changed = [k for k, _ in rec["ch"]]
    raised = rec["r"] != "ok"

    def fail(key, what):
        ctx.fail(key, what, case)

    if R["gone"]:
        fail("C10:attribute-deleted", "attributes %s disappeared" % R["gone"])
    if not R["switch_ok"]:
        fail("C10:switch-changed", "add() changed build_time_validation.ENABLED")
    if R.get("others_changed"):
        fail("C10:other-parent-changed", "add() on one parent changed other parents (script parents %s)" % R["others_changed"])
    if R.get("child_changed"):
        fail("C10:child-changed", "add() changed an attribute of the child it was given")
    # selection
    sel, why = None, None
    if len(cands) == 0:
        why = "no-target"
    elif len(cands) == 1:
        sel = cands[0]
    elif not hint:
        why = "ambiguous"
    else:
        named = [m for m in cands if m[0] == hint]
        if len(named) == 1:
            sel = named[0]
        else:
            why = "bad-hint"
    if sel is None:
        if not raised or rec["r"] == "err:invalid":
            fail("C10:no-raise:" + why, "no unique member can be determined (%s) but add() did not raise: %s, changed %s"
                 % (why, rec["r"], changed))
        elif changed:
            fail("C10:raise-changed-parent:" + why, "add() raised (%s) but changed %s" % (rec["r"], changed))
        return why
    name, _dt, container = sel
    cur = R["slot_before"].get(name)
    if name not in R["slot_before"] or (container != 0 and not isinstance(cur, list)):
        # malformed parent (attribute missing / container not a list): outside what constructors establish
        if not raised and not force:
            fail("C10:malformed-parent-accepted", "member %s is missing or not a list and add() neither raised nor was forced" % name)
        elif raised and changed:
            fail("C10:raise-changed-parent:malformed", "add() raised (%s) but changed %s" % (rec["r"], changed))
        return "malformed"
    if container != 0:
        taken = R["taken_val"][name]
    else:
        taken = bool(cur)
    others = [k for k in changed if k != name]
    if others:
        fail("C10:other-member-changed", "attributes other than %s changed: %s" % (name, others))
    if rec["r"] == "err:strFails":
        if taken and not force and container != 0 and not R["sok"] and not changed:
            fail("C10:dup-warning-raises:str", "duplicate refused, but formatting the warning raised (str(child) fails): %s"
                 % classify_exc_plain(R["exc"]))
        else:
            fail("C10:unexpected-raise", "str(child) raised outside the duplicate warning")
        return "refused-str-raises"
    if raised and rec["r"] != "err:invalid":
        fail("C10:unexpected-raise", "a unique member (%s) exists but add() raised %s" % (name, rec["r"]))
        return "sel-raise"
    if rec["r"] == "err:invalid" and not (gate and R["pv"] is False):
        fail("C10:unexpected-raise", "validation error although the gate is off or the parent validates")
    if not raised and gate and R["pv"] is False:
        fail("C10:invalid-not-reported", "gate on, parent invalid after the call, no ValueError")
    now = R["after"].get(name)
    if taken and not force:
        if name in changed:
            xml = R["xml_inv"].get(name, False)
            key = "C10:dup-not-refused:xml-loaded" if (container != 0 and xml) else \
                  ("C10:dup-not-refused" if container != 0 else "C10:occupied-overwritten")
            fail(key, "member %s already held %s; force is off, yet the child was stored" %
                 (name, "a child of equal value" if container != 0 else "a value"))
        elif not raised and rec["w"] != ("duplicate" if container != 0 else "occupied"):
            fail("C10:missing-warning", "refused without the warning (got %r)" % (rec["w"],))
        bucket = "refused"
    else:
        if container != 0:
            ok = (isinstance(now, list) and len(now) == len(R["list_before"][name]) + 1 and now[-1] is child
                  and all(a is b for a, b in zip(now, R["list_before"][name])))
        else:
            ok = now is child
        if not ok:
            fail("C10:not-stored" + (":forced" if taken else ""),
                 "child should be stored in %s (force=%s, taken=%s) but is not" % (name, force, taken))
        elif not raised and rec["w"] is not None:
            fail("C10:spurious-warning", "stored but warned %r" % (rec["w"],))
        bucket = "forced" if taken else "stored"
    if not raised and not R["ret_is_child"]:
        fail("C10:return-not-child", "add() did not return the object it was given")
    return bucket


# ------------------------------------------------------------------ generators
def simple_members(cls):
    C = classes()
    return [m for m in ref_members(cls) if m[1] not in C and m[2] == 0 and m[0] not in ("__ANY__",)]


def child_entry(rng, cname, variant):
    sm = simple_members(classes()[cname])
    attrs = {}
    if sm:
        names = sorted(m[0] for m in sm)
        pick = "id" if "id" in names else names[0]
        attrs[pick] = "v%d" % variant
        if len(names) > 1 and rng.random() < 0.3:
            attrs[names[-1]] = "w%d" % variant
    return {"cls": cname, "attrs": attrs}


def gate_choice(rng, p_on=0.15):
    r = rng.random()
    if r < p_on:
        return True, True
    return rng.choice([(True, False), (False, True), (False, False), (True, False)])


def gen_pairs_script(rng, pname, all_children):
    """one history on a fresh parent of class pname that covers every candidate-bearing child class"""
    C = classes()
    ms = ref_members(C[pname])
    by_type = {}
    for m in ms:
        by_type.setdefault(m[1], []).append(m)
    pool, calls = [], []
    member_names = sorted(m[0] for m in ms)

    def add_call(ci, hint, force, p_on=0.15, kind=None):
        en, val = gate_choice(rng, p_on)
        calls.append({"c": ci, "hint": hint, "force": force, "en": en, "val": val})
        if kind:
            calls[-1]["kind"] = kind
    for cname in sorted(by_type):
        if cname not in C:
            continue
        cands = by_type[cname]
        cand_names = sorted(m[0] for m in cands)
        non_cand = [n for n in member_names if n not in cand_names]
        # prefer a non-candidate member that itself holds components (a wrong-store would then go unnoticed by types)
        obj_non_cand = [m[0] for m in ms if m[1] in C and m[0] not in cand_names]
        hints = [None, ""] + cand_names + ["zz_no_such_member"]
        if len(cands) > 1:
            c0 = rng.choice(cand_names)
            # near misses: proper substrings / superstrings / other case of a candidate's name
            hints += [c0[:-1], c0[1:], c0[:1], c0 + "_", c0.upper(), " " + c0]
        if obj_non_cand:
            hints.append(rng.choice(sorted(obj_non_cand)))
        elif non_cand:
            hints.append(rng.choice(non_cand))
        group = []
        for h in hints:
            for force in (False, True):
                pool.append(child_entry(rng, cname, rng.randint(0, 2)))
                group.append((len(pool) - 1, h, force))
        # the same object again, and an equal copy, unforced and forced
        base = len(pool)
        pool.append(child_entry(rng, cname, 7))
        pool.append(dict(pool[base]))
        h0 = cand_names[0] if len(cands) > 1 else None
        group += [(base, h0, False), (base, h0, False), (base + 1, h0, False), (base, h0, True), (base + 1, h0, True)]
        rng.shuffle(group)
        for g in group:
            add_call(*g)
    others = [c for c in all_children if c not in by_type]
    for cname in others:
        pool.append(child_entry(rng, cname, 0))
        rel = cname in related_children(pname)
        add_call(len(pool) - 1, rng.choice([None, None, "zz_no_such_member", rng.choice(member_names) if member_names else None]),
                 rng.random() < 0.3, p_on=0.05, kind="no-member:related-by-inheritance" if rel else None)
        if rel:      # also with the name of the member that holds the related type as hint
            for m in ms:
                if m[1] in C and (m[1] in [b.__name__ for b in C[cname].__mro__[1:]] or
                                  cname in [b.__name__ for b in C[m[1]].__mro__[1:]]):
                    pool.append(child_entry(rng, cname, 1))
                    add_call(len(pool) - 1, m[0], rng.random() < 0.5, p_on=0.05, kind="no-member:related-by-inheritance")
                    break
    # keep candidate calls and no-candidate calls interleaved
    k = len(calls)
    order = list(range(k))
    rng.shuffle(order)
    calls = [calls[i] for i in order]
    return {"parent": {"cls": pname, "attrs": {}}, "pool": pool, "calls": calls}


_RELATED = None


def related_children(pname):
    """child classes for which the parent declares NO member, but declares one for a base class or for a derived
    class of the child (`add` matches the exact class name: such a child must be refused like any other) — always
    part of the pairs stream, also in the quick tier"""
    global _RELATED
    if _RELATED is None:
        C = classes()
        bases = {n: [b.__name__ for b in c.__mro__[1:] if b.__name__ in C] for n, c in C.items()}
        _RELATED = {}
        for p, pc in C.items():
            T = {m[1] for m in ref_members(pc) if m[1] in C}
            _RELATED[p] = sorted(c for c in C if c not in T and
                                 (set(bases[c]) & T or any(c in bases[t] for t in T)))
    return _RELATED[pname]


MULTI = None


def interesting_parents():
    """parents with several candidates for one type, and parents with >= 3 component-holding members"""
    global MULTI
    if MULTI is None:
        C = classes()
        multi, rich = [], []
        for n, c in C.items():
            ms = ref_members(c)
            types = [m[1] for m in ms if m[1] in C]
            if len(types) != len(set(types)):
                multi.append(n)
            if len(types) >= 3:
                rich.append(n)
        MULTI = (sorted(multi), sorted(rich))
    return MULTI


XML_PARENTS = {"izhikevich_cells": "NeuroMLDocument", "iaf_cells": "NeuroMLDocument", "pulse_generators": "NeuroMLDocument",
               "exp_one_synapses": "NeuroMLDocument", "networks": "NeuroMLDocument", "populations": "Network",
               "segments": "Morphology", "segment_groups": "Morphology", "forward_rate": "GateHHRates"}


def gen_history_script(rng):
    C = classes()
    multi, rich = interesting_parents()
    r = rng.random()
    pool, calls = [], []
    corrupt = []
    if r < 0.3:
        # XML-loaded children into the parent type that holds them
        key = rng.choice(XML_KEYS)
        pname = XML_PARENTS[[k for k in key if isinstance(k, str)][-1]]
        keys = [k for k in XML_KEYS if XML_PARENTS[[x for x in k if isinstance(x, str)][-1]] == pname]
        for _ in range(rng.randint(2, 6)):
            k = rng.choice(keys)
            pool.append({"xml": k, "copy": rng.randint(0, 1)})
        ms = ref_members(C[pname])
    else:
        pname = rng.choice(multi) if r < 0.65 else rng.choice(rich)
        ms = ref_members(C[pname])
    types = sorted({m[1] for m in ms if m[1] in C})
    for _ in range(rng.randint(2, 7)):
        t = rng.choice(types)
        e = child_entry(rng, t, rng.randint(0, 1))
        pool.append(e)
        if rng.random() < 0.4:
            pool.append(dict(e))            # equal copy
    if rng.random() < 0.15:
        pool.append({"junk": rng.choice(["int", "float", "obj"])})
    if rng.random() < 0.12:
        pool.append(child_entry(rng, rng.choice(sorted(C)), 0))    # most likely no candidate
    comp_members = [m for m in ms if m[1] in C]
    if rng.random() < 0.2 and comp_members:
        m = rng.choice(comp_members)
        if m[2]:
            corrupt.append(rng.choice([["del", m[0]], ["set", m[0], None], ["set", m[0], "text"]]))
        else:
            corrupt.append(rng.choice([["del", m[0]], ["set", m[0], ""], ["set", m[0], 0], ["set", m[0], "text"],
                                       ["set", m[0], []]]))
    names = sorted(m[0] for m in ms)
    for _ in range(rng.randint(4, 22)):
        ci = rng.randrange(len(pool))
        e = pool[ci]
        cname = e.get("cls")
        if cname is None and "xml" in e:
            cname = None
        cand = [m[0] for m in ms if cname is not None and m[1] == cname]
        hr = rng.random()
        if hr < 0.35:
            hint = None
        elif hr < 0.75 and cand:
            hint = rng.choice(cand)
        elif hr < 0.9:
            hint = rng.choice(names)
        else:
            hint = rng.choice(["", "zz_no_such_member"] + ([x for c in cand for x in (c[:-1], c[1:], c[:3], c + "s", c.capitalize())]
                                                           if cand else ["e", "s"]))
        if corrupt:
            en, val = rng.choice([(True, False), (False, True), (False, False)])
        else:
            en, val = gate_choice(rng, 0.3)
        calls.append({"c": ci, "hint": hint, "force": rng.random() < 0.3, "en": en, "val": val})
    attrs = {}
    if "id" in names and rng.random() < 0.7:
        attrs["id"] = "p"
    return {"parent": {"cls": pname, "attrs": attrs, "corrupt": corrupt}, "pool": pool, "calls": calls}


# ------------------------------------------------------------------ nearly equal children (vary ONE member at a time)
INT_TYPES = ("NonNegativeInteger", "xs:nonNegativeInteger", "PositiveInteger", "xs:integer", "xs:int", "xs:positiveInteger")
FLOAT_TYPES = ("xs:float", "xs:double", "ZeroToOne", "DoubleGreaterThanZero")


def simple_values(dt):
    """(base value, a different value, [values that are EQUAL to the base although of another type])"""
    if dt in INT_TYPES:
        return 1, 2, [1.0, True]
    if dt in FLOAT_TYPES:
        return 0.5, 0.25, []
    return "a", "b", []


_KWVALS = {}


def kw_values(cname, n, dt):
    """like `simple_values`, but values the CONSTRUCTOR accepts for this member (some constructors cast: a member of
    a quantity type may go through `float(...)`); found by trying, cached"""
    key = (cname, n)
    if key not in _KWVALS:
        first = simple_values(dt)
        for cand in [first, (0.5, 0.25, []), (1, 2, [1.0, True]), ("a", "b", [])]:
            try:
                with quiet():
                    o1, o2 = classes()[cname](**{n: cand[0]}), classes()[cname](**{n: cand[1]})
                if not atoms_equal(getattr(o1, n), getattr(o2, n)):
                    _KWVALS[key] = cand
                    break
            except Exception:  # noqa
                continue
        else:
            _KWVALS[key] = None
    return _KWVALS[key]


def full_entry(cname, via):
    """a component with EVERY simple single-valued member set (own and inherited, whatever its Python name);
    `via` = "kw": through the constructor (its casts apply), "attrs": assigned afterwards"""
    C = classes()
    vals = {}
    for n, dt, cont, _o in ref_members(C[cname]):
        if dt in C or cont or n == "__ANY__":
            continue
        if via == "kw":
            kv = kw_values(cname, n, dt)
            if kv is None:
                continue
            vals[n] = kv[0]
        else:
            vals[n] = simple_values(dt)[0]
    return {"cls": cname, via: vals}


def _with(entry, via, name, value):
    e = json.loads(json.dumps(entry))
    e.setdefault(via, {})[name] = value
    if via == "attrs" and name in e.get("kw", {}):
        del e["kw"][name]
    return e


def near_variants(rng, cname, via, deep_budget):
    """entries that differ from `full_entry(cname, via)` in exactly ONE member -> [(kind, entry)]:
    every simple member (incl. inherited ones and those whose Python name is not the XML name: `from_`), the xs:any
    list, every component-valued member (None vs a component; one level down: two components that differ in one of
    THEIR members), every list-valued member ([] vs [x]; [x] vs [x']; [x] vs [x, x])."""
    C = classes()
    base = full_entry(cname, via)
    out = []
    for n, dt, cont, _o in ref_members(C[cname]):
        tag = "inherited" if n not in [m.name for m in C[cname].__dict__.get("member_data_items_", [])] else "own"
        us = ":underscore" if attr_of(n).endswith("_") else ""
        if n == "__ANY__":
            out.append(("any-list" + us, _with(base, "attrs", "anytypeobjs_", {"$l": ["x"]})))
            out.append(("any-list" + us, _with(base, "attrs", "anytypeobjs_", {"$l": ["y"]})))
        elif dt not in C and not cont:
            b, v, same = (kw_values(cname, n, dt) or simple_values(dt)) if via == "kw" else simple_values(dt)
            if via == "kw" and kw_values(cname, n, dt) is None:
                out.append(("simple:%s%s" % (tag, us), _with(base, "attrs", n, v)))
            else:
                out.append(("simple:%s%s" % (tag, us), _with(base, via, n, v)))
            out.append(("simple-none:%s%s" % (tag, us), _with(base, "attrs", n, None)))
            for sv in same:          # another type, SAME value: equal to the base (Python's ==); must be refused
                out.append(("simple-crosstype", _with(base, "attrs", n, sv)))
        elif dt not in C:
            out.append(("simple-list", _with(base, "attrs", n, {"$l": ["x"]})))
        else:
            sub = full_entry(dt, "attrs")
            wrap = (lambda xs: {"$l": [{"$o": x} for x in xs]}) if cont else (lambda xs: {"$o": xs[0]})
            out.append(("child-%s:%s" % ("list" if cont else "single", tag), _with(base, "attrs", n, wrap([sub]))))
            if cont:
                out.append(("child-list-twice", _with(base, "attrs", n, wrap([sub, sub]))))
            subm = [(sn, sdt) for sn, sdt, scont, _ in ref_members(C[dt]) if sdt not in C and not scont and sn != "__ANY__"]
            subm.sort(key=lambda x: (not x[0].endswith("_"), x[0]))
            picks = subm[:1] + (rng.sample(subm[1:], min(len(subm) - 1, deep_budget)) if len(subm) > 1 else [])
            for sn, sdt in picks:
                sub2 = _with(sub, "attrs", sn, simple_values(sdt)[1])
                out.append(("child-deep%s" % (":underscore" if sn.endswith("_") else ""),
                            _with(base, "attrs", n, wrap([sub2]))))
    return base, out


_HOLDERS = None


def holders():
    """child class -> [(parent class, container member, number of candidates for that child class in the parent)]"""
    global _HOLDERS
    if _HOLDERS is None:
        C = classes()
        h = {}
        for pn, pc in C.items():
            ms = ref_members(pc)
            for n, dt, cont, _o in ms:
                if dt in C and cont:
                    h.setdefault(dt, []).append((pn, n, len([1 for m in ms if m[1] == dt])))
        _HOLDERS = h
    return _HOLDERS


def gen_neareq_script(rng, cname, deep_budget):
    """one history on a parent that holds `cname` children in a list: the fully set child, an equal copy (refused),
    then every one-member variant (stored: it is NOT equal to anything present), a sample of equal copies of
    variants (refused), one forced"""
    pn, member, ncand = rng.choice(holders()[cname])
    via = rng.choice(["kw", "attrs"])
    base, variants = near_variants(rng, cname, via, deep_budget)
    hint = member if ncand > 1 else rng.choice([None, None, member])
    pool, calls = [base, json.loads(json.dumps(base))], []

    def call(ci, kind, force=False):
        en, val = gate_choice(rng, 0.05)
        calls.append({"c": ci, "hint": hint, "force": force, "en": en, "val": val, "kind": kind})
    call(0, "base")
    call(1, "base-copy")
    rng.shuffle(variants)
    for kind, e in variants:
        pool.append(e)
        call(len(pool) - 1, kind)
        if rng.random() < 0.25:
            pool.append(json.loads(json.dumps(e)))
            call(len(pool) - 1, kind + ":copy", force=rng.random() < 0.2)
    call(0, "base-again")
    return {"parent": {"cls": pn, "attrs": {}}, "pool": pool, "calls": calls}


def gen_multi_script(rng):
    """several parents, children shared between them, pool objects that are parents themselves (a stored child is
    changed between two calls): the same object into two parents, the same object twice, an equal copy after the
    stored original was changed, forced replacement of a single-valued member"""
    C = classes()
    pool = [{"cls": "Network", "attrs": {"id": "n0"}}, {"cls": "Network", "attrs": {"id": "n0"}},
            {"cls": "Population", "attrs": {"id": "p0"}}, {"cls": "Population", "attrs": {"id": "p0"}},
            {"cls": "Population", "attrs": {"id": "p1"}}, {"cls": "Instance", "attrs": {"id": 0}},
            {"cls": "Instance", "attrs": {"id": 0}}, {"cls": "Cell", "attrs": {"id": "c0"}},
            {"cls": "Morphology", "attrs": {"id": "m0"}}, {"cls": "Morphology", "attrs": {"id": "m1"}},
            {"cls": "Segment", "attrs": {"id": 0}}, {"cls": "Segment", "attrs": {"id": 0}},
            {"cls": "Cell", "attrs": {"id": "c0"}}, {"cls": "Layout", "attrs": {}}, {"cls": "Layout", "attrs": {}}]
    # parents: 0,1 = two documents; then every pool object that can hold something
    parents = [{"cls": "NeuroMLDocument", "attrs": {"id": "d1"}}] + [{"pool": i} for i in (0, 1, 2, 3, 7, 8, 9, 12)]
    pidx = {"d0": 0, "d1": 1, 0: 2, 1: 3, 2: 4, 3: 5, 7: 6, 8: 7, 9: 8, 12: 9}
    accepts = {"d0": [0, 1, 7, 12], "d1": [0, 1, 7, 12], 0: [2, 3, 4], 1: [2, 3, 4], 2: [5, 6, 13, 14], 3: [5, 6, 13, 14],
               7: [8, 9], 12: [8, 9], 8: [10, 11], 9: [10, 11]}
    calls = []
    for _ in range(rng.randint(8, 26)):
        par = rng.choice(sorted(accepts, key=str))
        ci = rng.choice(accepts[par])
        if rng.random() < 0.08:
            ci = rng.randrange(len(pool))           # most likely no candidate
        en, val = gate_choice(rng, 0.1)
        calls.append({"c": ci, "p": pidx[par], "hint": None, "force": rng.random() < 0.25, "en": en, "val": val,
                      "kind": "multi"})
    return {"parent": {"cls": "NeuroMLDocument", "attrs": {"id": "d0"}}, "parents": parents, "pool": pool,
            "calls": calls, "percall": True}


# ------------------------------------------------------------------ corpus
def _call(c, hint=None, force=False, en=True, val=False):
    return {"c": c, "hint": hint, "force": force, "en": en, "val": val}


_RATE = {"cls": "HHRate", "attrs": {"type": "HHExpLinearRate", "rate": "1per_ms", "midpoint": "-40mV", "scale": "10mV"}}
CORPUS = [
    # FIXED defect (fixes/C10-add-bad-hint-raises.patch): a hint naming none of the candidates was ignored silently
    {"parent": {"cls": "GateHHRates", "attrs": {"id": "m", "instances": 3}}, "pool": [_RATE, dict(_RATE)],
     "calls": [_call(0, "nonsense"), _call(0, "notes"), _call(0, "q10_settings", True), _call(0, "forward_rate"),
               _call(1, "Forward_rate"), _call(1, None), _call(1, ""), _call(1, "reverse_rate", en=True, val=True),
               _call(0, "reverse_rate"), _call(0, "reverse_rate", True)]},
    {"parent": {"cls": "Segment", "attrs": {"id": 0}}, "pool": [{"cls": "Point3DWithDiam", "attrs": {"x": 0.0}},
                                                                  {"cls": "Point3DWithDiam", "attrs": {"x": 0.0}}],
     "calls": [_call(0, "parent"), _call(0, "proximal"), _call(1, "distal"), _call(1, "proximal"),
               _call(1, "proximal", True), _call(0, "zz")]},
    # duplicates: same object, equal copy, forced
    {"parent": {"cls": "NeuroMLDocument", "attrs": {"id": "d"}},
     "pool": [{"cls": "IzhikevichCell", "attrs": {"id": "a"}}, {"cls": "IzhikevichCell", "attrs": {"id": "a"}},
              {"cls": "IzhikevichCell", "attrs": {"id": "b"}}, {"cls": "IafCell", "attrs": {"id": "a"}},
              {"cls": "HHRate", "attrs": {}}, {"junk": "int"}],
     "calls": [_call(0), _call(0), _call(1), _call(2), _call(1, force=True), _call(3, "izhikevich_cells"), _call(4),
               _call(5), _call(2, en=True, val=True), _call(0, en=False, val=True)]},
    # KNOWN FINDING: value-equal components loaded from XML are not recognised as duplicates
    {"parent": {"cls": "NeuroMLDocument", "attrs": {"id": "d"}},
     "pool": [{"xml": ["izhikevich_cells", 0], "copy": 0}, {"xml": ["izhikevich_cells", 0], "copy": 1},
              {"xml": ["izhikevich_cells", 1], "copy": 0}],
     "calls": [_call(0), _call(0), _call(1), _call(2)]},
    # KNOWN FINDING: the duplicate warning formats the child; Input.__str__ fails on an incomplete Input
    {"parent": {"cls": "InputList", "attrs": {"id": "il"}},
     "pool": [{"cls": "Input", "attrs": {}}, {"cls": "Input", "attrs": {}}, {"cls": "InputW", "attrs": {}}],
     "calls": [_call(0), _call(1), _call(1, force=True), _call(2), _call(2)]},
    # malformed parents: container set to None / attribute deleted / falsy single value
    {"parent": {"cls": "Network", "attrs": {"id": "n"}, "corrupt": [["set", "populations", None], ["del", "projections"]]},
     "pool": [{"cls": "Population", "attrs": {"id": "p"}}, {"cls": "Projection", "attrs": {"id": "q"}}],
     "calls": [_call(0), _call(0, force=True), _call(1), _call(1, force=True)]},
    {"parent": {"cls": "Cell", "attrs": {"id": "c"}, "corrupt": [["set", "morphology", ""], ["del", "biophysical_properties"]]},
     "pool": [{"cls": "Morphology", "attrs": {"id": "m"}}, {"cls": "BiophysicalProperties", "attrs": {"id": "b"}}],
     "calls": [_call(0), _call(0), _call(1), _call(1, force=True), _call(1)]},
]


# ------------------------------------------------------------------ driving
def check_members(ctx):
    C = classes()
    lines = [json.dumps({"op": "members", "cls": n}) for n in C]
    rc, out = fw.run_driver("C10", lines)
    if rc != 0 or len(out) != len(lines):
        ctx.disagree("driver", "members stream: driver failed rc=%s" % rc, "\n".join(out[-5:]), None)
        return
    for n, l in zip(C, out):
        model = sorted(tuple([m[0], m[1], int(bool(m[2])), int(bool(m[3]))]) for m in json.loads(l)["members"])
        real = sorted(real_members(C[n]))
        ctx.corr_evals += 1
        ctx.count("members-classes")
        if model != real:
            ctx.disagree("members", {"cls": n}, real, model)
    ctx.extra["members_exhaustive"] = True


def run_scripts(ctx, scripts, stream):
    lines, recs_all, first = [], [], []
    for s in scripts:
        ls, recs = run_real(s)
        first.append(len(lines))
        lines += [json.dumps(l) for l in ls]
        recs_all.append(recs)
    rc, out = fw.run_driver("C10", lines, timeout=3000)
    ok = rc == 0 and len(out) == len(lines)
    if not ok:
        ctx.disagree("driver", "%s: driver failed rc=%s (%d/%d lines)" % (stream, rc, len(out), len(lines)),
                     "\n".join(out[-3:])[:500], None)
    res = [json.loads(l)["res"] for l in out] if ok else None
    for s, recs, f0 in zip(scripts, recs_all, first):
        for i, (call, R) in enumerate(zip(s["calls"], recs)):
            bucket = oracle(ctx, s, i, call, R)
            cname = type(R["child"]).__name__
            ncand = len([m for m in R["members"] if m[1] == cname])
            ctx.count("%s:%s" % (stream, bucket))
            if call.get("kind") and stream in ("pairs", "neareq"):
                ctx.count("kind:%s" % call["kind"].split(":copy")[0])
            ctx.count("result:" + R["rec"]["r"].split(":")[1] if ":" in R["rec"]["r"] else "result:ok")
            hk = ("none" if not call["hint"] else
                  ("cand" if any(m[0] == call["hint"] and m[1] == cname for m in R["members"]) else
                   ("member" if any(m[0] == call["hint"] for m in R["members"]) else "garbage")))
            ctx.seen([type(R["parent"]).__name__, cname, hk, call["force"], call["en"], call["val"], bucket, R["rec"]["r"],
                      call.get("kind")],
                     nontrivial=ncand > 0)
            if res is not None:
                ctx.corr_evals += 1
                model = res[f0 + R["line"]][R["pos"]]
                if model != R["rec"]:
                    ctx.disagree(stream, {"script": s, "call": i}, R["rec"], model)
        if s["calls"]:
            ctx.sample({"parent": s["parent"], "calls": s["calls"][:3], "pool": s["pool"][:3],
                        "first_results": [r["rec"]["r"] for r in recs[:3]]})


def check_eq(ctx, budget):
    """stream **eq**: the generated `__eq__` itself, on every class (also those no list member holds): the fully set
    component against each of its one-member variants, both ways round, real `==` vs model; the oracle's
    member-wise value equality must say the same unless an lxml node is involved"""
    C = classes()
    lines, cases = [], []
    for cname in C:
        try:
            base_e, variants = near_variants(ctx.rng, cname, "attrs", budget)
        except Exception as e:  # noqa
            ctx.disagree("eq", {"cls": cname}, "generator failed: %r" % (e,), None)
            continue
        ids = Ids()
        base = build_entry(base_e)
        objs = [("copy", build_entry(base_e))] + [(k, build_entry(e)) for k, e in variants]
        for kind, o in objs:
            for a, b in ((base, o), (o, base)):
                with quiet():
                    real = bool(a == b)
                    ne = bool(a != b)
                lines.append(json.dumps({"op": "eq", "a": ser_obj(a, ids), "b": ser_obj(b, ids)}))
                cases.append((cname, kind, real, ne, value_equal(a, b)))
    rc, out = fw.run_driver("C10", lines, timeout=3000)
    if rc != 0 or len(out) != len(lines):
        ctx.disagree("driver", "eq stream: driver failed rc=%s" % rc, "\n".join(out[-3:])[:300], None)
        return
    for (cname, kind, real, ne, want), l in zip(cases, out):
        m = json.loads(l)
        ctx.corr_evals += 1
        ctx.count("eq:%s:%s" % (kind.split(":")[0], "equal" if real else "different"))
        if m.get("strict") != real or ne == real:
            ctx.disagree("eq", {"cls": cname, "kind": kind}, {"eq": real, "ne": ne}, m)
        elif real != want:
            # the oracle's own notion of equal content disagrees with the generated __eq__ (no node is involved here)
            ctx.disagree("eq-oracle", {"cls": cname, "kind": kind}, {"eq": real}, {"value_equal": want})
    ctx.extra["eq_classes"] = len(C)


CACHE_ATTR = "_GeneratedsSuperSuper__all_members_"


def check_members_history(ctx, n_hist, length):
    """stream **getmembers-history**: `_get_members()` is a classmethod with a per-class cache kept in class
    attributes (`cls.__all_members_`, created on whichever class asks first and found by derived classes through
    attribute lookup).  From a state without any cache (the attribute is removed from every class first — it is only
    a cache), call it on random classes (a class, its bases, its derived classes, repeats) and compare with the
    translated method run on the same history: the list returned AND, after every call, which classes carry a dict
    of their own with which keys."""
    C = classes()
    names = list(C)
    subs = {}
    for n, c in C.items():
        for b in c.__mro__[1:]:
            if b.__name__ in C:
                subs.setdefault(b.__name__, []).append(n)

    def all_klasses():
        out, seen = [], set()
        for c in C.values():
            for k in c.__mro__:
                if k is not object and id(k) not in seen:
                    seen.add(id(k))
                    out.append(k)
        return out

    lines, reals = [], []
    for _ in range(n_hist):
        for k in all_klasses():
            if CACHE_ATTR in k.__dict__:
                delattr(k, CACHE_ATTR)
        seq, cur = [], ctx.rng.choice(names)
        for _i in range(length):
            r = ctx.rng.random()
            bases = [b.__name__ for b in C[cur].__mro__[1:] if b.__name__ in C]
            if r < 0.3 and bases:
                cur = ctx.rng.choice(bases)
            elif r < 0.6 and subs.get(cur):
                cur = ctx.rng.choice(subs[cur])
            elif r < 0.75 and seq:
                cur = ctx.rng.choice(seq)
            else:
                cur = ctx.rng.choice(names)
            seq.append(cur)
        real = []
        for cn in seq:
            ms = sorted(real_members(C[cn]))
            dicts = sorted([k.__name__, sorted(k.__dict__[CACHE_ATTR])] for k in all_klasses() if CACHE_ATTR in k.__dict__)
            real.append((ms, dicts))
        lines.append(json.dumps({"op": "members_seq", "classes": seq}))
        reals.append((seq, real))
    rc, out = fw.run_driver("C10", lines, timeout=3000)
    if rc != 0 or len(out) != len(lines):
        ctx.disagree("driver", "getmembers-history: driver failed rc=%s" % rc, "\n".join(out[-3:])[:300], None)
        return
    for (seq, real), l in zip(reals, out):
        res = json.loads(l)["res"]
        for i, ((ms, dicts), m) in enumerate(zip(real, res)):
            ctx.corr_evals += 1
            ctx.count("getmembers-history:%s" % ("cached" if seq[i] in seq[:i] else "first"))
            mm = sorted(tuple([x[0], x[1], int(bool(x[2])), int(bool(x[3]))]) for x in m.get("members", []))
            md = sorted([d[0], sorted(d[1])] for d in m.get("dicts", []))
            if m.get("stuck") or mm != ms or md != dicts:
                ctx.disagree("getmembers-history", {"classes": seq, "call": i}, {"members": ms, "dicts": dicts},
                             {"members": mm, "dicts": md, "stuck": m.get("stuck", False)})
                break


def measure_eq_coverage(ctx):
    """`GeneratedsSuper.__eq__` / `__ne__` are defined inside a `try: … except:` block of nml.py, where fw's anchor
    lookup (module / class level only) does not find them; the coverage fw collects does include their lines, so
    the hit/missed statements are read from it here (measurement only)."""
    try:
        import ast
        import coverage
        cov = coverage.Coverage.current()
        if cov is None:
            return
        path = os.path.realpath(os.path.join(fw.REPO, "neuroml", "nml", "nml.py"))
        with open(path) as fh:
            tree = ast.parse(fh.read())
        spans = {}
        for k in ast.walk(tree):
            if isinstance(k, ast.ClassDef) and k.name == "GeneratedsSuper":
                for it in k.body:
                    if isinstance(it, ast.FunctionDef) and it.name in ("__eq__", "__ne__"):
                        spans[it.name] = (it.body[0].lineno, it.end_lineno)
        _f, stmts, _e, missing, _m = cov.analysis2(path)
        out = {}
        for n, (a, b) in spans.items():
            body = [l for l in stmts if a <= l <= b]
            miss = [l for l in body if l in set(missing)]
            out["neuroml/nml/nml.py::GeneratedsSuper.%s" % n] = {"statements": len(body), "hit": len(body) - len(miss),
                                                                 "missed_lines": miss}
        ctx.extra["eq_anchor_coverage"] = out
    except Exception as e:  # noqa
        ctx.extra["eq_anchor_coverage"] = {"error": repr(e)}


def regenerate(ctx):
    gaps, summ = members_extract.regenerate(fw.REPO, fw.LEAN)
    ctx.extra["member_table"] = summ
    gaps2 = py2lean_add.regenerate(fw.REPO, os.path.join(fw.LEAN, "NmlVerif", "Gen", "AddImpl.lean"))
    ctx.extra["add_translation_gaps"] = len(gaps2)
    # C10 against the schema (Props/C10Xsd.lean): binding + schema tables of C11 from the SAME tree, and the renaming
    import bindgen
    import members_bridge
    ir = bindgen.IR()
    ctx.extra["members_bridge"] = members_bridge.regenerate(fw.REPO, fw.LEAN, ir.names)
    return gaps + gaps2 + ["bindings/xsd translator: %s" % g for g in ir.gaps]


def run(ctx):
    C = classes()
    names = list(C)
    saved = get_switch()
    try:
        check_members(ctx)
        check_members_history(ctx, ctx.n(12, 60) * ctx.search_mult, 40)
        run_scripts(ctx, [json.loads(json.dumps(c)) for c in CORPUS], "corpus")
        # pairs: every parent class; every candidate-bearing child class; no-candidate classes sampled / all
        scripts = []
        for p in names:
            if ctx.tier == "thorough":
                others = names
            else:
                others = ctx.rng.sample(names, 10 * ctx.search_mult if 10 * ctx.search_mult < len(names) else len(names))
                others = others + [c for c in related_children(p) if c not in others]
            scripts.append(gen_pairs_script(ctx.rng, p, others))
        run_scripts(ctx, scripts, "pairs")
        ctx.extra["pairs_parent_classes"] = len(names)
        if ctx.tier == "thorough":
            ctx.extra["exhaustive"] = True
            ctx.extra["exhaustive_what"] = "all %dx%d (parent class, child class) pairs; all %d classes' member lists" % (
                len(names), len(names), len(names))
        n = ctx.n(150, 1200) * ctx.search_mult
        run_scripts(ctx, [gen_history_script(ctx.rng) for _ in range(n)], "history")
        # nearly equal children: every child class that some list member holds, every member varied on its own
        deep = ctx.n(1, 4)
        check_eq(ctx, deep)
        hs = sorted(holders())
        run_scripts(ctx, [gen_neareq_script(ctx.rng, c, deep) for c in hs for _ in range(ctx.n(1, 2) * ctx.search_mult)],
                    "neareq")
        ctx.extra["neareq_child_classes"] = len(hs)
        run_scripts(ctx, [gen_multi_script(ctx.rng) for _ in range(ctx.n(40, 300) * ctx.search_mult)], "multi")
        measure_eq_coverage(ctx)
    finally:
        set_switch(saved)


def replay(ctx, payload):
    case = payload["case"]
    script = case["script"] if "script" in case else case
    saved = get_switch()
    try:
        run_scripts(ctx, [script], "replay")
    finally:
        set_switch(saved)
    return {"fails": bool(ctx.failures or ctx.corr_disagreements),
            "failures": [{"key": f["key"], "what": f["what"], "call": f["case"].get("call")} for f in ctx.failures],
            "disagreements": ctx.corr_disagreements}
