"""C11 — introspection agrees with the constructors and with the schema, for every type.

Tie: translators (nml.py MemberSpec_/constructors -> Gen/Bindings.lean, XSD -> Gen/Xsd.lean, both regenerated every run;
pinned kernel-checked obligations) + exhaustive correspondence over all 199 classes (real info / parentinfo /
inspect.signature / _check_arg_list vs the model) + get_by_id on generated documents and networks.
"""
import inspect
import json

import bindgen
import fw

LEAN_PROPS = ["NmlVerif.Props.C11"]
LEVEL = "proof"
RULE = ("exhaustive over the 199 binding classes: info(return_format='dict', show_contents=True), parentinfo(return_format='dict'), "
        "inspect.signature(__init__), _check_arg_list for every member name and two non-members; get_by_id on generated documents and "
        "networks (ids duplicated across lists, missing ids, empty id, id-less members). non-trivial = class with >= 1 member / "
        "document with >= 2 components; distinct = distinct class or distinct (lists, id) query")
TRUST = [
    "translators nml_extract/emit_bindings (MemberSpec_ entries, constructor signatures) and xsd_extract/emit_xsd",
    "dir(module) / type(cc) is type class discovery in parentinfo is modelled as 'the binding classes'",
]
ASSUMPTIONS = [
    "known findings: C11:any-holder (6 xs:any holders list __ANY__), C11:choice-member-required (alternatives of required choices marked Required), C11:member-type:ComponentType.Property",
    "_get_members goes through list(set(...)): results are compared as sets",
]

ANY_HOLDERS = ["Annotation", "CellSet", "Region", "ReactionScheme", "ForwardTransition", "ReverseTransition"]


def regenerate(ctx):
    ctx.ir = bindgen.IR()
    return list(ctx.ir.gaps)


def mk_component(mod, rng, i):
    k = rng.randrange(4)
    ids = ["a", "b", "c", "a1", "pop", "x_1"]
    cid = rng.choice(ids)
    if k == 0:
        return "izhikevich_cells", mod.IzhikevichCell(id=cid, v0="-70mV", thresh="30mV", a="0.02", b="0.2", c="-65", d="6")
    if k == 1:
        return "pulse_generators", mod.PulseGenerator(id=cid, delay="0ms", duration="1ms", amplitude="1nA")
    if k == 2:
        return "includes", mod.IncludeType(href=cid)            # no id attribute at all
    return "networks", mod.Network(id=cid)


def run(ctx):
    ir = getattr(ctx, "ir", None) or bindgen.IR()
    import neuroml.nml.nml as mod
    names, ix = ir.names, ir.ix
    lines, pending = [], []
    classes = [c["name"] for c in ir.table["classes"]]
    XT = {t["name"]: t for t in ir.X["ctypes"]} if ir.X else {}
    for cls in classes:
        K = getattr(mod, cls)
        try:
            o = K()
            real_info = o.info(return_format="dict", show_contents=True)
            real_parent = o.parentinfo(return_format="dict")
        except Exception as e:
            ctx.fail("C11:introspection-raised:" + cls, repr(e), {"cls": cls})
            continue
        sig = [p for p in inspect.signature(K.__init__).parameters if p not in ("self", "gds_collector_", "kwargs_")]
        ctx.seen({"cls": cls}, nontrivial=len(real_info) >= 1)
        ctx.count("classes")
        # ---- oracle (property statement on the real code)
        public = sorted(p for p in sig if p not in ("extensiontype_", "anytypeobjs_"))
        info_names = sorted(real_info)
        if info_names != public:
            key = "C11:any-holder:" + cls if (cls in ANY_HOLDERS and set(info_names) ^ set(public) == {"__ANY__"}) else "C11:info-vs-constructor:" + cls
            ctx.fail(key if not key.startswith("C11:any-holder") else "C11:any-holder",
                     "info() members %s != constructor keywords %s" % (sorted(set(info_names) - set(public)), sorted(set(public) - set(info_names))),
                     {"cls": cls})
        for m in real_info:
            ok = True
            try:
                o._check_arg_list(**{m: None})
            except ValueError:
                ok = False
            if not ok:
                ctx.fail("C11:checkarg-refuses-member:" + cls, "member %s reported by info() is refused by _check_arg_list" % m, {"cls": cls, "member": m})
        # parentinfo inverse of info on the real code
        for parent, members in real_parent.items():
            P = getattr(mod, parent)
            pinfo = P().info(return_format="dict", show_contents=True)
            for mname, d in members.items():
                if mname not in pinfo or pinfo[mname]["type"] != cls:
                    ctx.fail("C11:parentinfo-not-inverse:" + cls, "%s.%s reported as parent member but info() of %s disagrees" % (parent, mname, parent), {"cls": cls})
        # ---- correspondence
        lines.append(json.dumps({"op": "info", "cls": ix[cls]}))
        pending.append(("info", cls, sorted([m, d["type"], d["required"]] for m, d in real_info.items())))
        lines.append(json.dumps({"op": "parentinfo", "cls": ix[cls]}))
        pending.append(("parentinfo", cls, sorted([p, m, d["type"], d["required"]] for p, ms in real_parent.items() for m, d in ms.items())))
        lines.append(json.dumps({"op": "ctor", "cls": ix[cls]}))
        pending.append(("ctor", cls, sorted(sig)))
        for kw in list(real_info)[:3] + ["definitely_not_a_member", "id_"]:
            try:
                o._check_arg_list(**{kw: None})
                acc = True
            except ValueError:
                acc = False
            if kw in ix:
                lines.append(json.dumps({"op": "checkarg", "cls": ix[cls], "kw": ix[kw]}))
                pending.append(("checkarg", (cls, kw), acc))
            elif acc:
                ctx.fail("C11:checkarg-accepts-nonmember:" + cls, "keyword %s accepted" % kw, {"cls": cls, "kw": kw})
    # inverse direction of parentinfo on the real code: every member typed C appears in C.parentinfo()
    allinfo = {}
    for cls in classes:
        try:
            allinfo[cls] = getattr(mod, cls)().info(return_format="dict", show_contents=True)
        except Exception:
            allinfo[cls] = {}
    for cls in classes:
        try:
            rp = getattr(mod, cls)().parentinfo(return_format="dict")
        except Exception:
            continue
        expect = sorted((p, m) for p in classes for m, d in allinfo[p].items() if d["type"] == cls)
        got = sorted((p, m) for p, ms in rp.items() for m in ms)
        if expect != got:
            ctx.fail("C11:parentinfo-not-inverse:" + cls, "parentinfo() %s != inverse of info() %s" % (got[:5], expect[:5]), {"cls": cls})
    # schema side (oracle through the XSD table): type / required / list-ness of every member
    from emit_xsd import xsd_extract
    for cls in classes:
        c = ir.C[cls]
        x = XT.get(cls)
        if x is None:
            continue
        m2xml = {a["member"]: a["xml"] for a in c["expAttrs"]}
        m2tag = {a["member"]: a["tag"] for a in c["expChildren"]}
        xa = {a["name"]: a for a in x["attrs"]}
        xe = {e["tag"]: e for e in xsd_extract.effective_elems(x["content"])}
        K = getattr(mod, cls)
        for sp in K.member_data_items_ if isinstance(K.member_data_items_, list) else K.member_data_items_.values():
            n = sp.get_name()
            if n == "__ANY__":
                continue
            if n in m2xml and m2xml[n] in xa:
                a = xa[m2xml[n]]
                bad = (a["type"] is not None and sp.get_data_type() != a["type"]) or bool(sp.get_optional()) != (a["use"] != "required") or sp.get_container()
                if bad:
                    ctx.fail("C11:member-vs-schema:%s.%s" % (cls, n), "MemberSpec disagrees with the schema attribute", {"cls": cls, "member": n})
            elif n in m2tag and m2tag[n] in xe:
                e = xe[m2tag[n]]
                prim = e["type"] in {t["name"] for t in ir.X["stypes"]} and sp.get_data_type() == "xs:string"
                if sp.get_data_type() != e["type"] and not prim:
                    ctx.fail("C11:member-type:%s.%s" % (cls, n), "info() says type %s, the schema element %s has type %s" % (sp.get_data_type(), e["tag"], e["type"]), {"cls": cls, "member": n})
                if bool(sp.get_container()) != (e["hi"] is None or e["hi"] > 1):
                    ctx.fail("C11:member-list-ness:%s.%s" % (cls, n), "single/list disagrees with maxOccurs", {"cls": cls, "member": n})
                if bool(sp.get_optional()) != (e["lo"] == 0):
                    key = "C11:choice-member-required" if e["choice"] else "C11:member-required:%s.%s" % (cls, n)
                    ctx.fail(key, "%s.%s: info() says %s, schema effective minOccurs %s%s" % (cls, n, "Optional" if sp.get_optional() else "Required", e["lo"], " (alternative of a required choice)" if e["choice"] else ""), {"cls": cls, "member": n})
            else:
                ctx.fail("C11:member-unmapped:%s.%s" % (cls, n), "member has no schema counterpart", {"cls": cls, "member": n})
    # get_by_id
    n_q = ctx.n(300, 3000) * ctx.search_mult
    for q in range(n_q):
        rng = ctx.rng
        is_doc = rng.random() < 0.6
        if is_doc:
            holder = mod.NeuroMLDocument(id="d")
            for i in range(rng.randint(0, 6)):
                l, comp = mk_component(mod, rng, i)
                getattr(holder, l).append(comp)
        else:
            holder = mod.Network(id="n", type=rng.choice([None, "network"]), temperature=rng.choice([None, "6.3 degC"]))
            for i in range(rng.randint(0, 5)):
                cid = rng.choice(["a", "b", "c", "pop"])
                if rng.random() < 0.5:
                    holder.populations.append(mod.Population(id=cid, component="x", size=1))
                else:
                    holder.projections.append(mod.Projection(id=cid, presynaptic_population="a", postsynaptic_population="b", synapse="s"))
        qid = rng.choice(["a", "b", "c", "a1", "pop", "zz", "", "x_1", "6"])
        if not is_doc and qid == "" and False:
            continue
        try:
            r = holder.get_by_id(qid)
        except Exception as e:
            ctx.fail("C11:get_by_id-raised", repr(e), {"doc": is_doc, "id": qid})
            continue
        # lists in member_data_items_ order
        items = type(holder).member_data_items_
        items = items if isinstance(items, list) else list(items.values())
        lists, tagof, t = [], {}, 1
        comps_with_id = []
        for sp in items:
            v = getattr(holder, sp.get_name())
            if v is None:
                continue
            row = []
            if isinstance(v, str):
                for ch in v:
                    row.append({"h": False, "i": "", "t": 0})
            else:
                for m in v:
                    tagof[id(m)] = t
                    row.append({"h": hasattr(m, "id"), "i": str(m.id) if hasattr(m, "id") and m.id is not None else "", "t": t})
                    if hasattr(m, "id"):
                        comps_with_id.append(m)
                    t += 1
            lists.append(row)
        ctx.seen({"doc": is_doc, "lists": lists, "id": qid}, nontrivial=(t > 2))
        ctx.count("get_by_id")
        exists = any(m.id == qid for m in comps_with_id)
        if qid == "" and is_doc:
            if r is not None:
                ctx.fail("C11:get_by_id-empty", "document returned a component for the empty id", {"id": qid})
        elif exists and (r is None or r.id != qid):
            ctx.fail("C11:get_by_id-misses", "a component with id %r exists but %r was returned" % (qid, r), {"id": qid, "doc": is_doc})
        elif not exists and r is not None:
            ctx.fail("C11:get_by_id-invents", "no component with id %r but %r returned" % (qid, r), {"id": qid, "doc": is_doc})
        lines.append(json.dumps({"op": "getbyid", "doc": is_doc, "lists": lists, "id": qid}))
        pending.append(("getbyid", {"doc": is_doc, "id": qid, "lists": lists}, tagof.get(id(r)) if r is not None else None))
    rc, out = fw.run_driver("C11", lines)
    if rc != 0 or len(out) != len(lines):
        ctx.disagree("driver", "driver failed rc=%s" % rc, "\n".join(out[-3:])[:500], None)
        return
    for (kind, case, expect), l in zip(pending, out):
        ctx.corr_evals += 1
        r = json.loads(l)
        if kind == "info":
            got = sorted([names[n], names[d], req] for n, d, req in r)
        elif kind == "parentinfo":
            got = sorted([names[p], names[m], names[d], req] for p, m, d, req in r)
        elif kind == "ctor":
            got = sorted(names[n] for n in r)
        else:
            got = r
        if got != expect:
            ctx.disagree("introspect-" + kind, case, expect if kind in ("checkarg", "getbyid") else str(expect)[:400], got if kind in ("checkarg", "getbyid") else str(got)[:400])
    ctx.sample({"cls": "Segment", "info": sorted(getattr(mod, "Segment")().info(return_format="dict", show_contents=True))})
    ctx.extra["exhaustive"] = True
    ctx.extra["exhaustive_note"] = "the class-level streams enumerate all 199 classes completely; get_by_id queries are sampled"


def replay(ctx, payload):
    import neuroml.nml.nml as mod
    case = payload["case"]
    cls = case.get("cls")
    if cls:
        o = getattr(mod, cls)()
        sig = [p for p in inspect.signature(type(o).__init__).parameters if p not in ("self", "gds_collector_", "kwargs_", "extensiontype_", "anytypeobjs_")]
        return {"fails": sorted(o.info(return_format="dict", show_contents=True)) != sorted(sig), "info": sorted(o.info(return_format="dict", show_contents=True)), "ctor": sorted(sig)}
    return {"fails": False, "note": "not replayable"}
