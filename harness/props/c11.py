"""C11 — introspection agrees with the constructors and with the schema, for every type.

Tie (second pass):
  * translators: nml.py MemberSpec_/constructors -> Gen/Bindings.lean, XSD -> Gen/Xsd.lean (shared, bindgen) and
    translators/introspect_extract.py -> Gen/Introspect.lean: the BODIES of _get_members / info / parentinfo /
    _check_arg_list / NeuroMLDocument.get_by_id / Network.get_by_id (both files) statement by statement, the
    excluded_classes filter, changed_names.csv; Props/C11Gen.lean proves generated = model and history independence;
  * exhaustive correspondence over all 199 classes: info in all six (show_contents x return_format) forms, parentinfo in
    all three, inspect.signature, _check_arg_list, run as a call HISTORY on the freshly imported module (caches reset)
    through the translated bodies;
  * random call histories (info / parentinfo / _check_arg_list / _get_members / get_by_id interleaved, repeated calls)
    compared call by call, first and n-th answers compared, member_data_items_ tables compared with their import-time
    snapshot after every history;
  * get_by_id on generated documents / networks / NetworkContainers: ids in several lists, ids None / int, id-less
    members, inherited scalar members set (annotation), repeated misses across the warn_count threshold, empty / None /
    int requested ids.
"""
import inspect
import json
import os
import re
import sys

import bindgen
import fw

sys.path.insert(0, os.path.join(fw.VERIF, "translators"))
import introspect_extract  # noqa

LEAN_PROPS = ["NmlVerif.Props.C11", "NmlVerif.Props.C11Gen"]
LEVEL = "proof"
RULE = ("exhaustive over the 199 binding classes: info() in all six (show_contents, return_format) forms, parentinfo() in all three, "
        "inspect.signature(__init__), _check_arg_list for every member name and two non-members, run as one call history per class on "
        "a module whose introspection caches were reset; random call histories (3-9 calls, >= 1 repeated call, get_by_id interleaved) "
        "compared call by call with the translated bodies, first/n-th answers and member_data_items_ snapshot compared; get_by_id on "
        "generated documents / networks / NetworkContainers (ids duplicated across lists, missing ids, ids None / int, id-less "
        "members, annotation set, empty / None / int requested id, up to 13 repeated misses on one object). non-trivial = class with "
        ">= 1 member / history with a repeated call / holder with >= 2 components; distinct = distinct class, history or (holder, id) query")
TRUST = [
    "translators nml_extract/emit_bindings (MemberSpec_ entries, constructor signatures), xsd_extract/emit_xsd and introspect_extract "
    "(statement forms -> vocabulary constructors; the semantics of each constructor in Model/Introspect.lean is hand-written)",
    "dir(module) / type(cc) is type class discovery in parentinfo: the filter is evaluated by the translator on the binding class names "
    "(c11_gen_no_hidden_class) and the discovered set is compared with the table on every run",
    "Python's sorted() raises TypeError exactly when two of the ids cannot be ordered (None among >= 2 ids, str with int): modelled as `unsortable`",
]
ASSUMPTIONS = [
    "known findings: C11:any-holder (6 xs:any holders list __ANY__), C11:choice-member-required (alternatives of required choices marked "
    "Required), C11:member-type:ComponentType.Property, C11:get_by_id-raises:unsortable-ids (TypeError instead of None; repair proposed)",
    "_get_members goes through list(set(...)): results are compared as sets (no class has two members of one name: c11_member_names_nodup)",
    "get_by_id: 'a component carrying the id exists' is read as: in one of the lists named by the holder class's own member_data_items_ "
    "(direct children; a population inside a network is not found from the document) — the code's and the docstring's reading",
    "requested ids that are not strings are outside get_by_id's signature (id: str): compared with the model, not judged by the oracle",
]

ANY_HOLDERS = ["Annotation", "CellSet", "Region", "ReactionScheme", "ForwardTransition", "ReverseTransition"]
CACHE_ATTR = "_GeneratedsSuperSuper__all_members_"
MISSING = object()


def regenerate(ctx):
    ctx.ir = bindgen.IR()
    gaps = list(ctx.ir.gaps)
    try:
        ctx.intro, g2 = introspect_extract.regenerate(fw.REPO, fw.LEAN, ctx.ir.table, ctx.ir.N)
        gaps += g2
    except Exception as e:
        ctx.intro = None
        gaps.append("introspect translator crashed: %r" % (e,))
    return gaps


# ---------------------------------------------------------------------------------------------- real-library helpers
def all_classes(mod):
    out = []
    for n in dir(mod):
        k = getattr(mod, n, None)
        if isinstance(k, type):
            out.append(k)
    return out


def reset_caches(mod):
    """forget every `__all_members_` cache: the module looks freshly imported to the introspection helpers"""
    for k in all_classes(mod):
        if CACHE_ATTR in k.__dict__:
            try:
                delattr(k, CACHE_ATTR)
            except Exception:
                pass
    import neuroml.nml.generatedssupersuper as g
    if CACHE_ATTR in g.GeneratedsSuperSuper.__dict__:
        delattr(g.GeneratedsSuperSuper, CACHE_ATTR)


def spec_tuple(sp):
    return (sp.get_name(), sp.get_data_type(), int(bool(sp.get_container())), int(bool(sp.get_optional())))


def table_snapshot(mod, classes):
    out = {}
    for c in classes:
        items = getattr(mod, c).__dict__.get("member_data_items_")
        if items is None:
            out[c] = None
        else:
            items = items if isinstance(items, list) else list(items.values())
            out[c] = [spec_tuple(sp) for sp in items]
    return out


def schema_required(ir, XT, cls, member):
    """(required according to the schema, inside a choice group) for an OWN member of `cls`; None if not mapped"""
    from emit_xsd import xsd_extract
    c, x = ir.C[cls], XT.get(cls)
    if x is None:
        return None
    m2xml = {a["member"]: a["xml"] for a in c["expAttrs"]}
    m2tag = {a["member"]: a["tag"] for a in c["expChildren"]}
    xa = {a["name"]: a for a in x["attrs"]}
    xe = {e["tag"]: e for e in xsd_extract.effective_elems(x["content"])}
    if member in m2xml and m2xml[member] in xa:
        return xa[m2xml[member]]["use"] == "required", False
    if member in m2tag and m2tag[member] in xe:
        e = xe[m2tag[member]]
        return e["lo"] >= 1, bool(e["choice"])
    return None


def own_minoccurs(ir, XT, cls, member):
    """the element's OWN minOccurs >= 1 (what generateDS copies into MemberSpec_.optional), for choice alternatives"""
    from emit_xsd import xsd_extract
    c, x = ir.C[cls], XT.get(cls)
    m2tag = {a["member"]: a["tag"] for a in c["expChildren"]}
    for e in xsd_extract.effective_elems(x["content"]):
        if e["tag"] == m2tag.get(member):
            return e
    return None


LINE = re.compile(r"^\* (\S+) \(class: (\S+), (Optional|Required)\)$")
PLINE = re.compile(r"^\t\* (\S+) \(class: (\S+), (Optional|Required)\)$")


def canon_info(ret, sc, fmt):
    """canonical form of one real info() answer"""
    if fmt == "string":
        if not isinstance(ret, str):
            return {"bad": type(ret).__name__}
        body = ret.split("Valid members for", 1)[-1]
        rows = []
        for l in body.split("\n"):
            m = LINE.match(l)
            if m:
                rows.append([m.group(1), m.group(2), m.group(3) == "Optional"])
        return {"lines": sorted(rows)}
    if isinstance(ret, dict):
        return {"dict": sorted([k, bool(v.get("required")), v.get("type")] for k, v in ret.items())}
    if isinstance(ret, list):
        return {"names": sorted(ret)}
    return {"bad": type(ret).__name__}


def canon_pinfo(ret, fmt):
    if fmt == "string":
        if not isinstance(ret, str):
            return {"bad": type(ret).__name__}
        body = ret.split("Valid parents for", 1)[-1]
        d, cur = [], None
        for l in body.split("\n"):
            m = PLINE.match(l)
            if m and cur is not None:
                cur[1].append([m.group(1), m.group(3) == "Required", m.group(2)])
            elif l.startswith("* "):
                cur = [l[2:].strip(), []]
                d.append(cur)
        return {"lines": sorted([p, sorted(ms)] for p, ms in d)}
    if isinstance(ret, dict):
        return {"dict": sorted([p, sorted([n, bool(v.get("required")), v.get("type")] for n, v in ms.items())] for p, ms in ret.items())}
    if isinstance(ret, list):
        return {"parents": sorted(ret)}
    return {"bad": type(ret).__name__}


def idval(v):
    """JSON form of an id value; (ok, json)"""
    if v is None or isinstance(v, str):
        return True, v
    if isinstance(v, int) and not isinstance(v, bool):
        return True, v
    return False, None


def holder_vals(ir, holder, cls, tags):
    """value of every (own or inherited) member attribute of the holder, for the model"""
    vals = []
    for k in ir.chain(cls):
        for s in k["specs"]:
            n = s["name"]
            v = getattr(holder, n, MISSING)
            if v is MISSING or n not in ir.ix:
                continue
            e = {"n": ir.ix[n]}
            if v is None:
                e["k"] = "none"
            elif isinstance(v, str):
                e["k"], e["c"] = "chars", len(v)
            elif isinstance(v, list):
                row = []
                for m in v:
                    t = tags.setdefault(id(m), len(tags) + 1)
                    has = hasattr(m, "id")
                    ok, j = idval(m.id) if has else (True, None)
                    if not ok:
                        return None
                    row.append({"h": has, "i": j, "t": t})
                e["k"], e["l"] = "comps", row
            else:
                e["k"] = "scalar"
            vals.append(e)
    return vals


class Real:
    """runs one operation of a history on the real library and returns its canonical answer"""

    def __init__(self, ir, mod):
        self.ir, self.mod = ir, mod

    def run(self, op):
        mod = self.mod
        k = op["k"]
        try:
            if k == "members":
                return sorted([list(spec_tuple(sp)) for sp in getattr(mod, op["cls"])._get_members()])
            if k == "info":
                # on a populated object when one is given (the Contents lines must not disturb the member lines)
                o = op["holder"] if op.get("holder") is not None else getattr(mod, op["cls"])()
                sc = "all" if op.get("all") else op["sc"]
                return canon_info(o.info(show_contents=sc, return_format=op["fmt"]), op["sc"], op["fmt"])
            if k == "pinfo":
                o = getattr(mod, op["cls"])()
                return canon_pinfo(o.parentinfo(return_format=op["fmt"]), op["fmt"])
            if k == "check":
                o = getattr(mod, op["cls"])()
                try:
                    o._check_arg_list(**{kw: None for kw in op["kws"]})
                    return True
                except ValueError:
                    return False
            if k == "get":
                h = op["holder"]
                try:
                    r = h.get_by_id(op["id"])
                except TypeError:
                    return {"r": "TypeError", "wc": h.warn_count}
                except AttributeError:
                    return {"r": "AttributeError", "wc": h.warn_count}
                return {"r": None if r is None else op["tags"].get(id(r), -1), "wc": h.warn_count}
        except Exception as e:
            return {"raised": type(e).__name__ + ": " + str(e)[:120]}
        return {"bad": k}


def encode_op(ir, op):
    """protocol form of an operation (names interned); None if a name is unknown to the tables"""
    ix = ir.ix
    k = op["k"]
    if k == "members":
        return {"k": k, "cls": ix[op["cls"]]}
    if k == "info":
        return {"k": k, "cls": ix[op["cls"]], "sc": bool(op["sc"]), "fmt": op["fmt"]}
    if k == "pinfo":
        return {"k": k, "cls": ix[op["cls"]], "fmt": op["fmt"]}
    if k == "check":
        if any(kw not in ix for kw in op["kws"]):
            return None
        return {"k": k, "cls": ix[op["cls"]], "kws": [ix[kw] for kw in op["kws"]]}
    if k == "get":
        return {"k": k, "doc": op["doc"], "cls": ix[op["cls"]], "vals": op["vals"], "wc": op["wc"], "id": op["id"]}


def decode_ans(ir, op, a):
    """model answer -> the canonical form canon_* produce"""
    nm = ir.names
    k = op["k"]
    if a is None:
        return {"model": "ill-formed"}
    if k == "members":
        return sorted([nm[n], nm[d], int(c), int(o)] for n, d, c, o in a)
    if k == "info":
        if "names" in a:
            return {"names": sorted(nm[n] for n in a["names"])}
        if "dict" in a:
            return {"dict": sorted([nm[n], r, nm[t]] for n, r, t in a["dict"])}
        return {"lines": sorted([nm[n], nm[t], o] for n, t, o in a["lines"])}
    if k == "pinfo":
        if "parents" in a:
            return {"parents": sorted(nm[p] for p in a["parents"])}
        key = "dict" if "dict" in a else "lines"
        return {key: sorted([nm[p], sorted([nm[n], r, nm[t]] for n, r, t in ms)] for p, ms in a[key])}
    return a


def op_key(op):
    return json.dumps({k: v for k, v in op.items() if k not in ("holder", "tags", "vals", "pre")}, sort_keys=True, default=str)


# ---------------------------------------------------------------------------------------------- generators
IDS = ["a", "b", "c", "a1", "pop", "x_1"]


def mk_doc(mod, rng, odd):
    holder = mod.NeuroMLDocument(id="d")
    for _ in range(rng.randint(0, 6)):
        k = rng.randrange(5)
        cid = rng.choice(IDS)
        if odd and rng.random() < 0.3:
            cid = rng.choice([None, None, 3, 0, "3"])
        if k == 0:
            holder.izhikevich_cells.append(mod.IzhikevichCell(id=cid, v0="-70mV", thresh="30mV", a="0.02", b="0.2", c="-65", d="6"))
        elif k == 1:
            holder.pulse_generators.append(mod.PulseGenerator(id=cid, delay="0ms", duration="1ms", amplitude="1nA"))
        elif k == 2:
            holder.includes.append(mod.IncludeType(href=str(cid)))            # no id attribute at all
        elif k == 3:
            net = mod.Network(id=cid)
            net.populations.append(mod.Population(id=rng.choice(IDS), component="x", size=1))   # nested: not a direct child
            holder.networks.append(net)
        else:
            holder.cells.append(mod.Cell(id=cid))
    if rng.random() < 0.35:
        holder.annotation = mod.Annotation()          # an inherited scalar (non-iterable) member
    if rng.random() < 0.3:
        holder.notes = "some notes"
    if rng.random() < 0.2:
        holder.properties.append(mod.Property(tag="t", value="v"))
    if rng.random() < 0.08:
        holder.biophysical_properties = None          # a list member set to None: skipped by the scan
    return holder, "NeuroMLDocument", True


def mk_net(mod, rng, odd):
    container = rng.random() < 0.25
    if container:
        from neuroml.hdf5.NetworkContainer import NetworkContainer, PopulationContainer
        holder = NetworkContainer(id="n")
    else:
        holder = mod.Network(id="n", type=rng.choice([None, "network"]), temperature=rng.choice([None, "6.3 degC"]))
    for _ in range(rng.randint(0, 5)):
        cid = rng.choice(["a", "b", "c", "pop"])
        if odd and rng.random() < 0.35:
            cid = rng.choice([None, None, 3, 0, "3"])
        r = rng.random()
        if r < 0.45:
            if container and rng.random() < 0.5:
                holder.populations.append(PopulationContainer(id=cid, component="x", size=1))
            else:
                holder.populations.append(mod.Population(id=cid, component="x", size=1))
        elif r < 0.8:
            holder.projections.append(mod.Projection(id=cid, presynaptic_population="a", postsynaptic_population="b", synapse="s"))
        else:
            holder.input_lists.append(mod.InputList(id=cid, component="c", populations="a"))
    if rng.random() < 0.3:
        holder.annotation = mod.Annotation()
    return holder, "Network", False


def mk_get_op(ir, rng, holder, cls, is_doc, tags, qid):
    vals = holder_vals(ir, holder, cls, tags)
    if vals is None:
        return None
    return {"k": "get", "doc": is_doc, "cls": cls, "holder": holder, "tags": tags, "vals": vals, "wc": holder.warn_count, "id": qid}


def visible_components(ir, holder, cls):
    """direct children with an `id` attribute in the lists of the holder class's OWN table, as the SOURCE declares it"""
    out = []
    for s in ir.C[cls]["specs"]:
        v = getattr(holder, s["name"], None)
        if isinstance(v, list):
            out += [m for m in v if hasattr(m, "id")]
    return out


def py_unsortable(ids):
    if len(ids) < 2:
        return False
    return any(i is None for i in ids) or (any(isinstance(i, str) for i in ids) and any(isinstance(i, int) for i in ids))


def judge_get(ctx, holder, op, real, source_visible):
    """the property statement on one real get_by_id answer (string ids only)"""
    qid = op["id"]
    if not isinstance(qid, str):
        return
    case = {"get": {"doc": op["doc"], "cls": op["cls"], "id": qid, "wc": op["wc"], "after_calls": op.get("pre", []),
                    "init": op.get("init"), "earlier_steps_on_this_object": op.get("steps"),
                    "children": [[type(m).__name__, m.id if isinstance(m.id, (str, int, type(None))) else repr(m.id)] for m in source_visible],
                    "annotation": getattr(holder, "annotation", None) is not None}}
    carrying = [m for m in source_visible if m.id == qid]
    r = real.get("r") if isinstance(real, dict) else "?"
    if isinstance(real, dict) and "raised" in real:
        r = real["raised"]
    if op["doc"] and qid == "":
        if r is not None:
            ctx.fail("C11:get_by_id-empty", "document returned %r for the empty id" % (r,), case)
        return
    if carrying:
        ok = isinstance(r, int) and r > 0 and any(op["tags"].get(id(m)) == r for m in carrying)
        if not ok:
            ctx.fail("C11:get_by_id-misses", "a component with id %r exists but get_by_id gave %r" % (qid, r), case)
    else:
        if r is None:
            return
        if r == "TypeError" and op["wc"] < 10 and py_unsortable([m.id for m in source_visible]):
            ctx.fail("C11:get_by_id-raises:unsortable-ids",
                     "no component carries %r; instead of None, TypeError from sorted(all_ids) (ids %r)" % (qid, [m.id for m in source_visible]), case)
        elif isinstance(r, str):
            ctx.fail("C11:get_by_id-raised", "no component carries %r; get_by_id raised %s instead of returning None" % (qid, r), case)
        else:
            ctx.fail("C11:get_by_id-invents", "no component with id %r but component #%r returned" % (qid, r), case)


CORPUS = [
    # known finding C11:get_by_id-raises:unsortable-ids — a population whose id is unset next to a named one
    {"net": [["populations", None], ["populations", "a"]], "ids": ["zz"]},
    # ... the same object: after ten misses the warning is off and None comes back (history dependence)
    {"net": [["populations", None], ["populations", "a"]], "ids": ["a"], "pre_wc": 10, "then": ["zz"]},
    # query / modify / query on one document (a memoising get_by_id would return the stale object)
    {"doc": [["izhikevich_cells", "a"], ["pulse_generators", "p"]], "script": [["get", "a"], ["remove", "izhikevich_cells", 0], ["get", "a"],
                                                                             ["get", "p"], ["replace", "pulse_generators", 0], ["get", "p"],
                                                                             ["rename", "pulse_generators", 0, "q"], ["get", "p"], ["get", "q"]]},
    # ids in two lists, id-less include first
    {"doc": [["includes", "a"], ["izhikevich_cells", "a"], ["pulse_generators", "a"]], "ids": ["a", "zz", ""]},
]


# ---------------------------------------------------------------------------------------------- the run
def run(ctx):
    ir = getattr(ctx, "ir", None) or bindgen.IR()
    import neuroml.nml.nml as mod
    names, ix = ir.names, ir.ix
    classes = [c["name"] for c in ir.table["classes"]]
    XT = {t["name"]: t for t in ir.X["ctypes"]} if ir.X else {}
    real = Real(ir, mod)

    # ---- 0. the tables as the module holds them vs the tables the translator read from the source
    def check_tables(where, case):
        snap = table_snapshot(mod, classes)
        bad = []
        for c in classes:
            src = [(s["name"], s["type"], int(bool(s["container"])), int(bool(s["optional"]))) for s in ir.C[c]["specs"]]
            if snap[c] is not None and snap[c] != src:
                bad.append(c)
        if bad:
            c = bad[0]
            src = [s["name"] for s in ir.C[c]["specs"]]
            ctx.fail("C11:table-mutated", "%s: %s.member_data_items_ names %s, the source declares %s (%d classes affected)" % (
                where, c, [t[0] for t in snap[c]][:12], src[:12], len(bad)), case)
        return not bad

    # the table OBJECTS as found at the start: a tree that extends them in place would otherwise make them grow with
    # every cache reset (exponentially); after a detected mutation they are put back so that the run can go on
    orig = {c: list(getattr(mod, c).__dict__["member_data_items_"]) for c in classes
            if isinstance(getattr(mod, c).__dict__.get("member_data_items_"), list)}

    def restore_tables():
        for c, items in orig.items():
            cur = getattr(mod, c).__dict__.get("member_data_items_")
            if isinstance(cur, list) and (len(cur) != len(items) or any(a is not b for a, b in zip(cur, items))):
                cur[:] = items

    _check = check_tables

    def check_tables(where, case):      # noqa: F811
        ok = _check(where, case)
        if not ok:
            restore_tables()
            reset_caches(mod)
        return ok

    reset_caches(mod)
    check_tables("at start", {"history": []})

    batches = []     # (kind, case, ops)  -> one driver line each

    def add_history(kind, case, ops):
        """run `ops` on the real library now; queue the same for the model"""
        answers = [real.run(op) for op in ops]
        enc = [encode_op(ir, op) for op in ops]
        batches.append((kind, case, ops, answers, enc))
        return answers

    # ---- 1. class-level streams (exhaustive), each class as a history on a module with reset caches
    FORMS = [(sc, fmt) for sc in (False, True) for fmt in ("string", "list", "dict")]
    lines, pending = [], []
    baseline = {}
    for cls in classes:
        K = getattr(mod, cls)
        reset_caches(mod)
        ops = [{"k": "info", "cls": cls, "sc": sc, "fmt": fmt} for sc, fmt in FORMS]
        ops += [{"k": "pinfo", "cls": cls, "fmt": fmt} for fmt in ("dict", "list", "string")]
        ops += [{"k": "members", "cls": cls}]
        ans = add_history("class", {"cls": cls}, ops)
        for op, a in zip(ops, ans):
            baseline[op_key(op)] = a
        check_tables("after info/parentinfo/_get_members of " + cls, {"history": [json.loads(op_key(o)) for o in ops]})
        bad = [a for a in ans if isinstance(a, dict) and ("raised" in a or "bad" in a)]
        if bad:
            ctx.fail("C11:introspection-raised:" + cls, repr(bad[0]), {"cls": cls})
            continue
        try:
            o = K()
            real_info = o.info(return_format="dict", show_contents=True)
            real_parent = o.parentinfo(return_format="dict")
        except Exception as e:
            ctx.fail("C11:introspection-raised:" + cls, repr(e), {"cls": cls})
            continue
        sig = [p for p in inspect.signature(K.__init__).parameters if p not in ("self", "gds_collector_", "kwargs_")]
        ctx.seen({"cls": cls}, nontrivial=len(real_info) >= 1)
        ctx.count("classes")
        # ---- oracle: every format speaks about the same member set
        sets = {}
        for (sc, fmt), a in zip(FORMS, ans[:6]):
            if "names" in a:
                sets[(sc, fmt)] = sorted(a["names"])
            elif "dict" in a:
                sets[(sc, fmt)] = sorted(r[0] for r in a["dict"])
            else:
                sets[(sc, fmt)] = sorted(r[0] for r in a["lines"])
        if len({tuple(v) for v in sets.values()}) != 1:
            ctx.fail("C11:info-formats-disagree:" + cls, "member sets per (show_contents, return_format): %s" % {str(k): v for k, v in sets.items()}, {"cls": cls})
        dict_rows = {r[0]: r for r in ans[5]["dict"]} if "dict" in ans[5] else {}
        for n, t, opt in ans[3].get("lines", []):
            if n in dict_rows and (dict_rows[n][1] != (not opt) or dict_rows[n][2] != t):
                ctx.fail("C11:info-formats-disagree:" + cls, "member %s: string form says (%s, %s), dict form says %s" % (n, t, "Optional" if opt else "Required", dict_rows[n]), {"cls": cls})
        pd, pl, ps = ans[6], ans[7], ans[8]
        if sorted(p for p, _ in pd.get("dict", [])) != pl.get("parents") or pd.get("dict") != ps.get("lines"):
            ctx.fail("C11:parentinfo-formats-disagree:" + cls, "dict %s / list %s / string %s" % (str(pd)[:150], str(pl)[:100], str(ps)[:150]), {"cls": cls})
        # ---- oracle (property statement on the real code)
        public = sorted(p for p in sig if p not in ("extensiontype_", "anytypeobjs_"))
        info_names = sorted(real_info)
        if info_names != public:
            key = "C11:any-holder" if (cls in ANY_HOLDERS and set(info_names) ^ set(public) == {"__ANY__"}) else "C11:info-vs-constructor:" + cls
            ctx.fail(key, "info() members %s != constructor keywords %s" % (sorted(set(info_names) - set(public)), sorted(set(public) - set(info_names))),
                     {"cls": cls})
        for m in real_info:
            ok = True
            try:
                o._check_arg_list(**{m: None})
            except ValueError:
                ok = False
            if not ok:
                ctx.fail("C11:checkarg-refuses-member:" + cls, "member %s reported by info() is refused by _check_arg_list" % m, {"cls": cls, "member": m})
        for parent, members in real_parent.items():
            P = getattr(mod, parent)
            pinfo = P().info(return_format="dict", show_contents=True)
            for mname, d in members.items():
                if mname not in pinfo or pinfo[mname]["type"] != cls:
                    ctx.fail("C11:parentinfo-not-inverse:" + cls, "%s.%s reported as parent member but info() of %s disagrees" % (parent, mname, parent), {"cls": cls})
                elif bool(pinfo[mname]["required"]) != bool(d.get("required")):
                    ctx.fail("C11:parentinfo-not-inverse:" + cls, "%s.%s: parentinfo() of %s says required=%s, info() of %s says required=%s" % (
                        parent, mname, cls, d.get("required"), parent, pinfo[mname]["required"]), {"cls": cls})
        # ---- correspondence with the pure table functions of the first pass
        lines.append(json.dumps({"op": "info", "cls": ix[cls]}))
        pending.append(("info", cls, sorted([m, d["type"], d["required"]] for m, d in real_info.items())))
        lines.append(json.dumps({"op": "parentinfo", "cls": ix[cls]}))
        pending.append(("parentinfo", cls, sorted([p, m, d["type"], d["required"]] for p, ms in real_parent.items() for m, d in ms.items())))
        lines.append(json.dumps({"op": "ctor", "cls": ix[cls]}))
        pending.append(("ctor", cls, sorted(sig)))
        for kw in list(real_info)[:3] + ["definitely_not_a_member", "id_"]:
            try:
                o._check_arg_list(**{kw: None})
                acc = True
            except ValueError:
                acc = False
            if kw in ix:
                lines.append(json.dumps({"op": "checkarg", "cls": ix[cls], "kw": ix[kw]}))
                pending.append(("checkarg", (cls, kw), acc))
            elif acc:
                ctx.fail("C11:checkarg-accepts-nonmember:" + cls, "keyword %s accepted" % kw, {"cls": cls, "kw": kw})
    check_tables("after the class streams", {"history": ["info/parentinfo/_get_members of every class"]})

    # parentinfo's class discovery = the binding classes (+ classes without tables)
    discovered = set()
    o = mod.Segment()
    excluded = set(getattr(ctx, "intro", None) and ctx.intro.get("excluded") or [])
    for ac in dir(mod):
        if ac.startswith("_") or ac.endswith("_") or ac in excluded:
            continue
        cc = getattr(mod, ac, None)
        if type(cc) is type and "member_data_items_" in cc.__dict__:
            discovered.add(ac)
    if discovered != set(classes):
        ctx.fail("C11:parentinfo-class-discovery", "classes with a table that parentinfo's filter sees %s != binding classes (diff %s)" % (
            len(discovered), sorted(discovered ^ set(classes))[:8]), {"cls": "Segment"})

    # inverse direction of parentinfo on the real code: every member typed C appears in C.parentinfo()
    allinfo = {}
    for cls in classes:
        try:
            allinfo[cls] = getattr(mod, cls)().info(return_format="dict", show_contents=True)
        except Exception:
            allinfo[cls] = {}
    for cls in classes:
        try:
            rp = getattr(mod, cls)().parentinfo(return_format="dict")
        except Exception:
            continue
        expect = sorted((p, m) for p in classes for m, d in allinfo[p].items() if d["type"] == cls)
        got = sorted((p, m) for p, ms in rp.items() for m in ms)
        if expect != got:
            ctx.fail("C11:parentinfo-not-inverse:" + cls, "parentinfo() %s != inverse of info() %s" % (got[:5], expect[:5]), {"cls": cls})
    # schema side (oracle through the XSD table): type / required / list-ness of every member
    from emit_xsd import xsd_extract
    for cls in classes:
        c = ir.C[cls]
        x = XT.get(cls)
        if x is None:
            continue
        m2xml = {a["member"]: a["xml"] for a in c["expAttrs"]}
        m2tag = {a["member"]: a["tag"] for a in c["expChildren"]}
        xa = {a["name"]: a for a in x["attrs"]}
        xe = {e["tag"]: e for e in xsd_extract.effective_elems(x["content"])}
        K = getattr(mod, cls)
        # (the table objects as found at the start; a tree that mutates them is reported by C11:table-mutated)
        for sp in orig.get(cls, []):
            n = sp.get_name()
            if n == "__ANY__":
                continue
            if n in m2xml and m2xml[n] in xa:
                a = xa[m2xml[n]]
                bad = (a["type"] is not None and sp.get_data_type() != a["type"]) or bool(sp.get_optional()) != (a["use"] != "required") or sp.get_container()
                if bad:
                    ctx.fail("C11:member-vs-schema:%s.%s" % (cls, n), "MemberSpec disagrees with the schema attribute", {"cls": cls, "member": n})
            elif n in m2tag and m2tag[n] in xe:
                e = xe[m2tag[n]]
                prim = e["type"] in {t["name"] for t in ir.X["stypes"]} and sp.get_data_type() == "xs:string"
                if sp.get_data_type() != e["type"] and not prim:
                    ctx.fail("C11:member-type:%s.%s" % (cls, n), "info() says type %s, the schema element %s has type %s" % (sp.get_data_type(), e["tag"], e["type"]), {"cls": cls, "member": n})
                if bool(sp.get_container()) != (e["hi"] is None or e["hi"] > 1):
                    ctx.fail("C11:member-list-ness:%s.%s" % (cls, n), "single/list disagrees with maxOccurs", {"cls": cls, "member": n})
                if bool(sp.get_optional()) != (e["lo"] == 0):
                    key = "C11:choice-member-required" if e["choice"] else "C11:member-required:%s.%s" % (cls, n)
                    ctx.fail(key, "%s.%s: MemberSpec_ says %s, schema effective minOccurs %s%s" % (cls, n, "Optional" if sp.get_optional() else "Required", e["lo"], " (alternative of a required choice)" if e["choice"] else ""), {"cls": cls, "member": n})
            else:
                ctx.fail("C11:member-unmapped:%s.%s" % (cls, n), "member has no schema counterpart", {"cls": cls, "member": n})
    # what info() itself REPORTS (dict 'required' key and the Required/Optional word of the string form) vs the schema,
    # for every member of every class, inherited ones included (judged at the class that declares the member)
    for cls in classes:
        rows_dict = {r[0]: r for r in baseline.get(op_key({"k": "info", "cls": cls, "sc": True, "fmt": "dict"}), {}).get("dict", [])}
        rows_str = {r[0]: r for r in baseline.get(op_key({"k": "info", "cls": cls, "sc": False, "fmt": "string"}), {}).get("lines", [])}
        for k in ir.chain(cls):
            for sp in k["specs"]:
                n = sp["name"]
                sr = schema_required(ir, XT, k["name"], n)
                if sr is None or n == "__ANY__":
                    continue
                want, in_choice = sr
                for form, got in (("dict", rows_dict[n][1] if n in rows_dict else None),
                                  ("string", (not rows_str[n][2]) if n in rows_str else None)):
                    if got is None or got == want:
                        continue
                    if in_choice and got and not want:
                        key = "C11:choice-member-required"
                    else:
                        key = "C11:info-required-vs-schema:%s.%s" % (k["name"], n)
                    ctx.fail(key, "%s().info() [%s form] reports %s.%s as %s; the schema says %s%s" % (
                        cls, form, k["name"], n, "Required" if got else "Optional", "required" if want else "optional",
                        " (alternative of a choice)" if in_choice else ""), {"cls": cls, "member": n, "declared_in": k["name"], "form": form})

    # ---- 2. corpus + get_by_id stream (each holder gets a short history of queries)
    def holder_from(spec):
        if "net" in spec:
            h = mod.Network(id="n")
            for lst, cid in spec["net"]:
                if lst == "populations":
                    h.populations.append(mod.Population(id=cid, component="x", size=1))
                else:
                    h.projections.append(mod.Projection(id=cid, presynaptic_population="a", postsynaptic_population="b", synapse="s"))
            return h, "Network", False
        h = mod.NeuroMLDocument(id="d")
        for lst, cid in spec["doc"]:
            if lst == "includes":
                h.includes.append(mod.IncludeType(href=cid))
            elif lst == "izhikevich_cells":
                h.izhikevich_cells.append(mod.IzhikevichCell(id=cid))
            else:
                h.pulse_generators.append(mod.PulseGenerator(id=cid, delay="0ms", duration="1ms", amplitude="1nA"))
        return h, "NeuroMLDocument", True

    def content_of(holder, cls):
        out = []
        for sp in ir.C[cls]["specs"]:
            v = getattr(holder, sp["name"], None)
            if isinstance(v, list):
                out += [[sp["name"], type(m).__name__, m.id if isinstance(getattr(m, "id", None), (str, int, type(None))) else None]
                        for m in v if hasattr(m, "id")]
        return out

    def modify(holder, cls, rng, last):
        """change the holder between two lookups; returns the step for the replay, or None"""
        lists = [(sp["name"], getattr(holder, sp["name"], None)) for sp in ir.C[cls]["specs"]]
        lists = [(n, v) for n, v in lists if isinstance(v, list) and any(hasattr(m, "id") for m in v)]
        if not lists:
            return None
        target = None
        if last is not None and rng.random() < 0.8:
            for n, v in lists:
                for i, m in enumerate(v):
                    if m is last:
                        target = (n, v, i)
        if target is None:
            n, v = rng.choice(lists)
            idx = [i for i, m in enumerate(v) if hasattr(m, "id")]
            target = (n, v, rng.choice(idx))
        n, v, i = target
        r = rng.random()
        if r < 0.35:
            del v[i]
            return ["remove", n, i]
        if r < 0.65:
            old_m = v[i]
            v[i] = type(old_m)(id=old_m.id)           # an updated component under the same id
            return ["replace", n, i]
        if r < 0.9:
            new_id = rng.choice(["renamed", "b", "zz"])
            v[i].id = new_id
            return ["rename", n, i, new_id]
        v.append(type(v[i])(id=rng.choice(["zz", "nope", "a"])))
        return ["add", n, i, v[-1].id]

    def query_history(holder, cls, is_doc, qids, kind, prelude=(), modifying=False):
        tags = {}
        ops, answers = [], []
        init = content_of(holder, cls)
        steps = []
        for op in prelude:
            ops.append(op)
            answers.append(real.run(op))
        for qid in qids:
            src_vis = visible_components(ir, holder, cls)        # the CURRENT content of the holder
            op = mk_get_op(ir, ctx.rng, holder, cls, is_doc, tags, qid)
            if op is None:
                return
            op["pre"] = [json.loads(op_key(o)) for o in prelude]
            if steps:
                op["init"], op["steps"] = init, list(steps)
            a = real.run(op)
            steps.append(["get", qid])
            ops.append(op)
            answers.append(a)
            judge_get(ctx, holder, op, a, src_vis)
            if modifying and ctx.rng.random() < 0.7:
                hit = next((m for m in src_vis if isinstance(a, dict) and a.get("r") == tags.get(id(m))), None)
                st = modify(holder, cls, ctx.rng, hit)
                if st:
                    steps.append(st)
                    ctx.count("get:holder-modified-between-lookups")
            ctx.count("get_by_id")
            ctx.count("get:" + ("found" if isinstance(a, dict) and isinstance(a.get("r"), int) else "typeerror" if isinstance(a, dict) and a.get("r") == "TypeError" else "none" if isinstance(a, dict) and a.get("r") is None else "other"))
        case = {"history": [dict(json.loads(op_key(o))) for o in ops]}
        if prelude:
            check_tables("after a get_by_id history", case)
        enc = [encode_op(ir, op) for op in ops]
        batches.append((kind, case, ops, answers, enc))
        ctx.seen({"kind": kind, "h": [op_key(o) for o in ops], "children": init, "steps": steps}, nontrivial=len(init) >= 2)

    def apply_step(holder, st):
        v = getattr(holder, st[1])
        if st[0] == "remove":
            del v[st[2]]
        elif st[0] == "replace":
            v[st[2]] = type(v[st[2]])(id=v[st[2]].id)
        elif st[0] == "rename":
            v[st[2]].id = st[3]
        elif st[0] == "add":
            v.append(type(v[st[2]])(id=st[3]))

    def scripted_history(holder, cls, is_doc, script, kind):
        tags, ops, answers, steps = {}, [], [], []
        init = content_of(holder, cls)
        for st in script:
            if st[0] != "get":
                apply_step(holder, st)
                steps.append(st)
                continue
            src_vis = visible_components(ir, holder, cls)
            op = mk_get_op(ir, ctx.rng, holder, cls, is_doc, tags, st[1])
            op["pre"] = []
            if steps:
                op["init"], op["steps"] = init, list(steps)
            a = real.run(op)
            steps.append(st)
            ops.append(op)
            answers.append(a)
            judge_get(ctx, holder, op, a, src_vis)
            ctx.count("get_by_id")
        batches.append((kind, {"history": [json.loads(op_key(o)) for o in ops], "init": init, "steps": steps}, ops, answers,
                        [encode_op(ir, o) for o in ops]))
        ctx.seen({"kind": kind, "init": init, "steps": steps}, nontrivial=True)

    for spec in CORPUS:
        h, cls, is_doc = holder_from(spec)
        if "pre_wc" in spec:
            h.warn_count = spec["pre_wc"]
        if "script" in spec:
            scripted_history(h, cls, is_doc, spec["script"], "corpus")
        else:
            query_history(h, cls, is_doc, spec["ids"] + spec.get("then", []), "corpus")

    # info() of an object whose single-valued child has an id (the quoted-id branch of the Contents line)
    cell = mod.Cell(id="c", morphology=mod.Morphology(id="m"), notes="n")
    iops = [{"k": "info", "cls": "Cell", "sc": True, "fmt": f, "holder": cell, "all": al} for f in ("string", "dict", "list") for al in (False, True)]
    ians = [real.run(o) for o in iops]
    batches.append(("corpus", {"history": [json.loads(op_key(o)) for o in iops]}, iops, ians, [encode_op(ir, o) for o in iops]))
    for o, a in zip(iops, ians):
        ref = baseline.get(op_key({"k": "info", "cls": "Cell", "sc": True, "fmt": o["fmt"]}))
        if ref is not None and a != ref:
            ctx.fail("C11:info-depends-on-contents:Cell", "info(%s) of a populated Cell reports %s, of an empty one %s" % (o["fmt"], str(a)[:150], str(ref)[:150]), {"cls": "Cell"})

    n_q = ctx.n(260, 2600) * min(ctx.search_mult, 4)
    for q in range(n_q):
        rng = ctx.rng
        odd = rng.random() < 0.3
        holder, cls, is_doc = (mk_doc if rng.random() < 0.55 else mk_net)(mod, rng, odd)
        ctx.count("holder:" + ("doc" if is_doc else type(holder).__name__) + (":odd-ids" if odd else ""))
        r = rng.random()
        pool = ["a", "b", "c", "a1", "pop", "zz", "", "x_1", "6", "3"]
        if r < 0.6:
            qids = [rng.choice(pool) for _ in range(rng.randint(1, 3))]
        elif r < 0.8:
            miss = rng.choice(["zz", "nope"])
            qids = [miss] * rng.choice([2, 11, 12, 13]) + [rng.choice(pool)]      # across the warn_count threshold
            ctx.count("get:repeated-misses")
        else:
            qids = [rng.choice(pool + [None, 3, 0])] + [rng.choice(pool)]          # a non-string request, then a normal one
            ctx.count("get:non-string-request")
        prelude = []
        if rng.random() < 0.5:
            # introspection calls BEFORE the lookup (the table get_by_id walks must not have been touched by them)
            reset_caches(mod)
            prelude.append({"k": rng.choice(["info", "members"]), "cls": cls, "sc": rng.random() < 0.5, "fmt": rng.choice(["list", "dict", "string"])})
            if prelude[0]["k"] == "members":
                prelude[0] = {"k": "members", "cls": cls}
            if rng.random() < 0.3:
                prelude.append({"k": "pinfo", "cls": rng.choice(classes), "fmt": "list"})
            ctx.count("get:after-introspection")
        elif rng.random() < 0.5:
            reset_caches(mod)
        if rng.random() < 0.3:
            # info() of the populated object itself, contents shown
            prelude.append({"k": "info", "cls": cls, "sc": True, "fmt": rng.choice(["string", "string", "dict", "list"]),
                            "holder": holder, "all": rng.random() < 0.5})
            ctx.count("info:populated-object")
        modifying = rng.random() < 0.35
        if modifying:
            # query, change the object, query again: ids that were found come back, with misses in between
            present = [m.id for m in visible_components(ir, holder, cls) if isinstance(m.id, str) and m.id]
            qids = []
            for _ in range(rng.randint(2, 5)):
                qids.append(rng.choice(present) if present and rng.random() < 0.75 else rng.choice(pool))
            if present:
                x = rng.choice(present)
                qids = [x] + qids + [x]
        query_history(holder, cls, is_doc, qids, "get", prelude, modifying)
    check_tables("after the get_by_id stream", {"history": ["get_by_id stream"]})

    # ---- 3. random call histories over all classes
    n_h = ctx.n(60, 500) * min(ctx.search_mult, 4)
    holders_cls = ["NeuroMLDocument", "Network"]
    for hh in range(n_h):
        rng = ctx.rng
        reset_caches(mod)
        pool_cls = [rng.choice(classes) for _ in range(2)] + [rng.choice(holders_cls)]
        if rng.random() < 0.5:
            # a class and one of its ancestors / descendants (the cache dict of one is visible from the other)
            c0 = rng.choice(classes)
            ch = [k["name"] for k in ir.chain(c0)]
            pool_cls += [c0, rng.choice(ch)]
        ops = []
        for _ in range(rng.randint(3, 8)):
            r = rng.random()
            cls = rng.choice(pool_cls)
            if r < 0.4:
                ops.append({"k": "info", "cls": cls, "sc": rng.random() < 0.5, "fmt": rng.choice(["string", "list", "dict"])})
            elif r < 0.55:
                ops.append({"k": "pinfo", "cls": cls, "fmt": rng.choice(["string", "list", "dict"])})
            elif r < 0.7:
                mem = [s["name"] for k in ir.chain(cls) for s in k["specs"]]
                kws = [rng.choice(mem)] if mem and rng.random() < 0.7 else []
                if rng.random() < 0.4:
                    kws.append(rng.choice(["id_", "name", "definitely_not_a_member"]))
                ops.append({"k": "check", "cls": cls, "kws": kws})
            elif r < 0.8:
                ops.append({"k": "members", "cls": cls})
            else:
                ops.append("GET")
        # at least one call is repeated later in the history
        first = next((o for o in ops if o != "GET"), None)
        if first is not None:
            ops.insert(rng.randint(2, len(ops)), dict(first))
        holder, hcls, is_doc = (mk_doc if rng.random() < 0.5 else mk_net)(mod, rng, False)
        tags, real_ops, answers = {}, [], []
        src_vis = visible_components(ir, holder, hcls)
        for o in ops:
            if o == "GET":
                o = mk_get_op(ir, rng, holder, hcls, is_doc, tags, rng.choice(["a", "b", "zz", "pop", "nope"]))
                if o is None:
                    continue
                o["pre"] = [json.loads(op_key(x)) for x in real_ops if x["k"] != "get"]
            a = real.run(o)
            real_ops.append(o)
            answers.append(a)
            if o["k"] == "get":
                judge_get(ctx, holder, o, a, src_vis)
            elif o["k"] == "check" and isinstance(a, bool):
                # statement: the members info() reports are exactly the keywords that are accepted
                reported = set(getattr(mod, o["cls"])().info(return_format="list"))
                if a != all(kw in reported for kw in o["kws"]):
                    ctx.fail("C11:checkarg-vs-info:" + o["cls"], "_check_arg_list(%s) %s although info() reports %s" % (
                        o["kws"], "accepts" if a else "refuses", sorted(reported)[:12]), {"cls": o["cls"], "kws": o["kws"]})
        case = {"history": [json.loads(op_key(o)) for o in real_ops]}
        # oracle: identical calls answer identically, and as the same call answered on the freshly reset module
        seen_ans = {}
        for pos, (o, a) in enumerate(zip(real_ops, answers)):
            if o["k"] == "get":
                continue
            k = op_key(o)
            ref = seen_ans.setdefault(k, (pos, a))
            if ref[1] != a:
                ctx.fail("C11:history-dependent:" + o["k"], "call %d answers %s, the identical call %d answered %s" % (pos, str(a)[:160], ref[0], str(ref[1])[:160]), case)
            if k in baseline and baseline[k] != a:
                ctx.fail("C11:history-dependent:" + o["k"], "call %d (%s) answers %s; as the first call on a fresh module it answered %s" % (pos, k, str(a)[:160], str(baseline[k])[:160]), case)
        check_tables("after a history", case)
        enc = [encode_op(ir, o) for o in real_ops]
        batches.append(("history", case, real_ops, answers, enc))
        ctx.seen({"h": [op_key(o) for o in real_ops]}, nontrivial=True)
        ctx.count("histories")
        ctx.count("history-calls", len(real_ops))
    reset_caches(mod)

    # ---- 4. the model's side
    hist_lines = []
    for kind, case, ops, answers, enc in batches:
        keep = [i for i, e in enumerate(enc) if e is not None]
        hist_lines.append(json.dumps({"op": "hist", "ops": [enc[i] for i in keep]}))
    rc, out = fw.run_driver("C11", lines + hist_lines)
    if rc != 0 or len(out) != len(lines) + len(hist_lines):
        ctx.disagree("driver", "driver failed rc=%s" % rc, "\n".join(out[-3:])[:500], None)
        return
    for (kind, case, expect), l in zip(pending, out):
        ctx.corr_evals += 1
        r = json.loads(l)
        if kind == "info":
            got = sorted([names[n], names[d], req] for n, d, req in r)
        elif kind == "parentinfo":
            got = sorted([names[p], names[m], names[d], req] for p, m, d, req in r)
        elif kind == "ctor":
            got = sorted(names[n] for n in r)
        else:
            got = r
        if got != expect:
            ctx.disagree("introspect-" + kind, case, expect if kind in ("checkarg",) else str(expect)[:400], got if kind in ("checkarg",) else str(got)[:400])
    for (kind, case, ops, answers, enc), l in zip(batches, out[len(lines):]):
        r = json.loads(l)
        keep = [i for i, e in enumerate(enc) if e is not None]
        if "ans" not in r or len(r["ans"]) != len(keep):
            ctx.disagree("history-" + kind, case, "driver answer malformed", str(r)[:300])
            continue
        if not r.get("tables_unchanged", False):
            ctx.disagree("history-" + kind, case, "real tables compared separately", "the translated _get_members changes a member_data_items_ table")
        for i, ma in zip(keep, r["ans"]):
            ctx.corr_evals += 1
            got = decode_ans(ir, ops[i], ma)
            if got != answers[i]:
                ctx.disagree("history-%s-%s" % (kind, ops[i]["k"]), {"history": case.get("history", case), "call": i},
                             str(answers[i])[:400], str(got)[:400])
                break
    ctx.sample({"cls": "Segment", "info": sorted(getattr(mod, "Segment")().info(return_format="dict", show_contents=True))})
    if batches:
        k, case, ops, answers, enc = batches[-1]
        ctx.sample({"history": case.get("history"), "answers": [str(a)[:80] for a in answers]})
    ctx.extra["exhaustive"] = True
    ctx.extra["exhaustive_note"] = ("the class-level streams enumerate all 199 classes completely (six info forms, three parentinfo forms); "
                                    "call histories and get_by_id queries are sampled")
    if getattr(ctx, "intro", None):
        ctx.extra["translated"] = {k: ctx.intro.get(k) for k in ("gm", "check", "docGet", "netGet")}
        ctx.extra["repair_present"] = bool(ctx.intro.get("docGet") and any("warn true" in t for t in ctx.intro["docGet"]))


# ---------------------------------------------------------------------------------------------- replay
def replay(ctx, payload):
    import contextlib
    import io
    import neuroml.nml.nml as mod
    ir = bindgen.IR()
    case = payload["case"]
    key = payload.get("key", "")
    real = Real(ir, mod)
    with contextlib.redirect_stdout(io.StringIO()):
        if "get" in case and case["get"].get("init") is not None:
            # a lookup on an object that was looked up / modified before: rebuild, redo the steps, compare the last
            # answer with a FRESH object of the same final content
            g = case["get"]
            from neuroml.hdf5 import NetworkContainer as NC

            def klass(t):
                return getattr(mod, t, None) or getattr(NC, t)

            def build(content):
                h = (mod.NeuroMLDocument if g["doc"] else mod.Network)(id="h")
                for lst, t, cid in content:
                    getattr(h, lst).append(klass(t)(id=cid))
                return h
            h = build(g["init"])
            h.warn_count = 0
            ir2 = ir
            trace = []
            for st in g["earlier_steps_on_this_object"] + [["get", g["id"]]]:
                if st[0] == "get":
                    try:
                        r = h.get_by_id(st[1])
                        trace.append(["get", st[1], None if r is None else "%s(id=%r)#%x" % (type(r).__name__, r.id, id(r) & 0xffff)])
                    except Exception as e:
                        r = e
                        trace.append(["get", st[1], "raised " + repr(e)])
                else:
                    v = getattr(h, st[1])
                    if st[0] == "remove":
                        del v[st[2]]
                    elif st[0] == "replace":
                        v[st[2]] = type(v[st[2]])(id=v[st[2]].id)
                    elif st[0] == "rename":
                        v[st[2]].id = st[3]
                    elif st[0] == "add":
                        v.append(type(v[st[2]])(id=st[3]))
                    trace.append(st)
            vis = visible_components(ir2, h, g["cls"])
            carrying = [m for m in vis if m.id == g["id"]]
            if isinstance(r, Exception):
                fails = True
            elif carrying:
                fails = not any(r is m for m in carrying)
            else:
                fails = r is not None
            return {"fails": fails, "steps_and_answers": trace, "content_now": [[type(m).__name__, m.id] for m in vis],
                    "components_carrying_the_id_now": len(carrying)}
        if "get" in case:
            g = case["get"]
            holder = (mod.NeuroMLDocument if g["doc"] else mod.Network)(id="h")
            lists = {"IzhikevichCell": "izhikevich_cells", "PulseGenerator": "pulse_generators", "Network": "networks", "Cell": "cells",
                     "Population": "populations", "PopulationContainer": "populations", "Projection": "projections", "InputList": "input_lists"}
            for tname, cid in g["children"]:
                K = getattr(mod, "Population" if tname == "PopulationContainer" else tname)
                getattr(holder, lists[tname]).append(K(id=cid))
            if g.get("annotation"):
                holder.annotation = mod.Annotation()
            holder.warn_count = g["wc"]
            reset_caches(mod)
            for o in g.get("after_calls", []):          # the introspection calls that preceded the lookup
                if o.get("k") in ("info", "pinfo", "check", "members"):
                    real.run(o)
            try:
                r = holder.get_by_id(g["id"])
                got = None if r is None else "%s(id=%r)" % (type(r).__name__, r.id)
                exists = any(c[1] == g["id"] for c in g["children"])
                fails = (exists and (r is None or r.id != g["id"])) or (not exists and r is not None)
            except Exception as e:
                got, fails = "raised " + repr(e), True
            return {"fails": fails, "get_by_id": got, "children": g["children"], "id": g["id"], "after_calls": g.get("after_calls", [])}
        if "history" in case and key.startswith(("C11:history-dependent", "C11:table-mutated")):
            classes = [c["name"] for c in ir.table["classes"]]
            reset_caches(mod)
            before = table_snapshot(mod, classes)
            ans = []
            for o in case["history"]:
                if isinstance(o, dict) and o.get("k") in ("info", "pinfo", "check", "members"):
                    ans.append((op_key(o), real.run(o)))
            if not ans:
                for c in ("NeuroMLDocument", "Network", "Cell"):
                    getattr(mod, c)().info(return_format="list")
            after = table_snapshot(mod, classes)
            changed = [c for c in classes if before[c] != after[c]]
            src_bad = [c for c in classes if after[c] is not None and [t[0] for t in after[c]] != [s["name"] for s in ir.C[c]["specs"]]]
            dep = []
            first = {}
            for k, a in ans:
                if k in first and first[k] != a:
                    dep.append(k)
                first.setdefault(k, a)
            return {"fails": bool(changed or dep or src_bad), "tables_changed": changed[:5], "tables_differ_from_source": src_bad[:5], "calls_answering_differently": dep[:3]}
        cls = case.get("cls")
        if cls and key.startswith("C11:info-required-vs-schema") and "member" in case:
            XT = {t["name"]: t for t in ir.X["ctypes"]}
            o = getattr(mod, cls)()
            want = schema_required(ir, XT, case["declared_in"], case["member"])
            d = o.info(return_format="dict", show_contents=True)[case["member"]]["required"]
            st = {r[0]: r for r in canon_info(o.info(return_format="string"), False, "string")["lines"]}[case["member"]]
            return {"fails": want is not None and (bool(d) != want[0] or (not st[2]) != want[0]), "class": cls, "member": case["member"],
                    "info_dict_required": d, "info_string_says": "Optional" if st[2] else "Required", "schema_required": want and want[0]}
        if cls and key.startswith(("C11:member-type", "C11:member-list-ness", "C11:member-required", "C11:member-vs-schema")) and "member" in case:
            from emit_xsd import xsd_extract
            XT = {t["name"]: t for t in ir.X["ctypes"]}
            sp = next((x for x in getattr(mod, cls).member_data_items_ if x.get_name() == case["member"]), None)
            e = own_minoccurs(ir, XT, cls, case["member"])
            a = next((a for a in XT[cls]["attrs"] if {x["member"]: x["xml"] for x in ir.C[cls]["expAttrs"]}.get(case["member"]) == a["name"]), None)
            stypes = {t["name"] for t in ir.X["stypes"]}
            if sp is None or (e is None and a is None):
                return {"fails": True, "note": "member or schema item not found", "member": case["member"]}
            if e is not None:
                bad = ((sp.get_data_type() != e["type"] and not (e["type"] in stypes and sp.get_data_type() == "xs:string"))
                       or bool(sp.get_container()) != (e["hi"] is None or e["hi"] > 1) or (bool(sp.get_optional()) != (e["lo"] == 0) and not e["choice"]))
                return {"fails": bad, "MemberSpec_": list(spec_tuple(sp)), "schema_element": {k: e[k] for k in ("tag", "type", "lo", "hi", "choice")}}
            bad = (a["type"] is not None and sp.get_data_type() != a["type"]) or bool(sp.get_optional()) != (a["use"] != "required") or bool(sp.get_container())
            return {"fails": bad, "MemberSpec_": list(spec_tuple(sp)), "schema_attribute": {k: a[k] for k in ("name", "type", "use")}}
        if cls and key.startswith("C11:parentinfo-class-discovery"):
            excluded = set(introspect_extract.extract(fw.REPO, ir.table, ir.N)[0].get("excluded") or [])
            classes = {c["name"] for c in ir.table["classes"]}
            hidden = sorted(c for c in classes if c.startswith("_") or c.endswith("_") or c in excluded)
            return {"fails": bool(hidden), "binding_classes_hidden_from_parentinfo": hidden}
        if cls and "kws" in case:
            o = getattr(mod, cls)()
            reported = set(o.info(return_format="list"))
            try:
                o._check_arg_list(**{k: None for k in case["kws"]})
                acc = True
            except ValueError:
                acc = False
            return {"fails": acc != all(k in reported for k in case["kws"]), "accepted": acc, "kws": case["kws"], "info": sorted(reported)}
        if cls:
            o = getattr(mod, cls)()
            sig = [p for p in inspect.signature(type(o).__init__).parameters if p not in ("self", "gds_collector_", "kwargs_", "extensiontype_", "anytypeobjs_")]
            info = sorted(o.info(return_format="dict", show_contents=True))
            forms = {}
            for sc in (False, True):
                for fmt in ("string", "list", "dict"):
                    a = canon_info(o.info(show_contents=sc, return_format=fmt), sc, fmt)
                    forms["%s/%s" % (sc, fmt)] = sorted(r if isinstance(r, str) else r[0] for r in (a.get("names") or a.get("dict") or a.get("lines") or []))
            pd = canon_pinfo(o.parentinfo(return_format="dict"), "dict")
            ps = canon_pinfo(o.parentinfo(return_format="string"), "string")
            allinfo_inverse = sorted([p, m] for p in [c["name"] for c in ir.table["classes"]]
                                     for m, d in getattr(mod, p)().info(return_format="dict", show_contents=True).items() if d["type"] == cls)
            got_inverse = sorted([p, m[0]] for p, ms in pd.get("dict", []) for m in ms)
            dd = {r[0]: r for r in canon_info(o.info(show_contents=True, return_format="dict"), True, "dict").get("dict", [])}
            flags = [[n, "string:" + ("Optional" if opt else "Required"), "dict required=%s" % dd[n][1]]
                     for n, t, opt in canon_info(o.info(return_format="string"), False, "string").get("lines", [])
                     if n in dd and (dd[n][1] != (not opt) or dd[n][2] != t)]
            req_diff = []
            for p_, ms in pd.get("dict", []):
                pi = getattr(mod, p_)().info(return_format="dict", show_contents=True)
                req_diff += [[p_, m[0], "parentinfo required=%s" % m[1], "info required=%s" % pi[m[0]]["required"]]
                             for m in ms if m[0] in pi and bool(pi[m[0]]["required"]) != bool(m[1])]
            fails = (info != sorted(sig) or len({tuple(v) for v in forms.values()}) != 1 or pd.get("dict") != ps.get("lines")
                     or allinfo_inverse != got_inverse or bool(flags) or bool(req_diff))
            return {"fails": fails, "info": info, "ctor": sorted(sig), "member_sets_per_format": forms, "string_vs_dict_flags": flags[:5], "parentinfo_vs_info_required": req_diff[:5],
                    "parentinfo": got_inverse[:8], "inverse_of_info": allinfo_inverse[:8]}
    return {"fails": False, "note": "not replayable"}
